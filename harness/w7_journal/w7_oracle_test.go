//go:build verif

package metajournal

// W7 oracles (property C20).
//
// At every step, for the replica that moved:
//   journal_order / journal_entry / journal_current_version: versions strictly increase along
//     the order index, the order index and the entity map describe the same set (one entry per
//     entity), the journal's current version is its newest entry's version;
//   journal_foreign_data: every entry is a version of that entity that existed at the source
//     (full journals: identical event; compact journals: same compact content);
//   name_index_wrong_target: a name in MetricsStorage's by-name index maps to a metric whose
//     latest delivered version holds that name, and it is that latest version;
//   name_lookup_sole_holder_unreachable: a delivered metric that is the only delivered holder
//     of its latest name, and whose claim on the name is the newest one delivered (no other
//     metric was delivered with that name at a later version), is returned by
//     GetMetaMetricByName;
//   by_id_stale: GetMetaMetric returns the latest delivered version.
// After faults stop and the delivery rounds are done: see finalOracle.

import (
	"encoding/json"
	"fmt"
	"reflect"
	"sort"
	"strings"

	"github.com/VKCOM/statshouse/internal/data_model/gen2/tlmetadata"
	"github.com/VKCOM/statshouse/internal/format"
)

type w7MemoKey struct {
	key     w7Key
	version int64
	compact bool
}

func w7Kind(rep *w7Replica) string {
	switch {
	case rep.agent && rep.compactClass:
		return "agent-compact"
	case rep.agent:
		return "agent-normal"
	case rep.compactClass:
		return "agg-compact"
	default:
		return "agg-normal"
	}
}

// sameCompact: do two events of one entity carry the same content as far as a compact journal
// is concerned? Metrics: format.SameCompactMetric; other kept types: identical but the version.
func w7SameCompact(a, b tlmetadata.Event) bool {
	if a.EventType != b.EventType || a.Id != b.Id || a.Name != b.Name {
		return false
	}
	if a.EventType != format.MetricEvent {
		a.Version, b.Version = 0, 0 // own comparison: every other field counts, UpdateTime too
		return a == b
	}
	va, err1 := MetricMetaFromEvent(a)
	vb, err2 := MetricMetaFromEvent(b)
	if err1 != nil || err2 != nil {
		return false
	}
	if !format.SameCompactMetric(va, vb) {
		return false
	}
	// SameCompactMetric does not look at everything the compact form keeps (some descriptions
	// survive compaction): the documented compaction of both must give the same bytes
	da, err1 := w7CompactData(va)
	db, err2 := w7CompactData(vb)
	return err1 == nil && err2 == nil && da == db
}

// w7CompactData applies the documented compaction to a parsed metric (which it consumes).
func w7CompactData(v *format.MetricMetaValue) (string, error) {
	format.MakeCompactMetric(v)
	data, err := json.Marshal(v)
	return string(data), err
}

// histEvent returns the source's event of that entity with that version.
func (s *w7Source) histEvent(key w7Key, version int64) (tlmetadata.Event, bool) {
	for _, e := range s.hist[key] {
		if e.Version == version {
			return e, true
		}
	}
	return tlmetadata.Event{}, false
}

// validEntry: is the journal entry a version of the entity that existed at the source?
func (w *w7World) validEntry(rep *w7Replica, key w7Key, ev tlmetadata.Event) string {
	mk := w7MemoKey{key, ev.Version, rep.compactClass}
	if old, ok := w.memo[mk]; ok && old == ev {
		return ""
	}
	h, ok := w.src.histEvent(key, ev.Version)
	if !ok {
		return fmt.Sprintf("no version %d of %s#%d ever existed at the source", ev.Version, format.EventTypeToName(key.typ), key.id)
	}
	if !rep.compactClass {
		if h != ev {
			return fmt.Sprintf("entry differs from the source's event of that version: have %s, source %s", w7EvFull(ev), w7EvFull(h))
		}
	} else {
		if key.typ == format.DashboardEvent || key.typ == format.PromConfigEvent {
			return "compact journal holds a " + format.EventTypeToName(key.typ) + " event"
		}
		if !w7SameCompact(h, ev) {
			return fmt.Sprintf("entry is not the compact content of the source's event of that version: have %s, source %s", w7EvFull(ev), w7EvFull(h))
		}
		if key.typ == format.MetricEvent {
			if why := w7IsCompactForm(ev); why != "" {
				return why
			}
		}
	}
	w.memo[mk] = ev
	return ""
}

// w7IsCompactForm: a metric event of a compact journal is a fixed point of the documented
// compaction (format.MakeCompactMetric on the parsed value, JSON with sorted keys).
func w7IsCompactForm(ev tlmetadata.Event) string {
	v, err := MetricMetaFromEvent(ev)
	if err != nil {
		return "compact entry does not parse: " + err.Error()
	}
	data, err := w7CompactData(v)
	if err != nil {
		return "compact entry does not marshal: " + err.Error()
	}
	if data != ev.Data {
		return fmt.Sprintf("metric entry of a compact journal is not in compact form: have %.200q, compact form is %.200q", ev.Data, string(data))
	}
	return ""
}

func w7EvFull(ev tlmetadata.Event) string {
	d := ev.Data
	if len(d) > 120 {
		d = d[:120] + "..."
	}
	return fmt.Sprintf("{%s#%d '%s' v%d ns=%d t=%d del=%d mask=%d data=%s}", format.EventTypeToName(ev.EventType), ev.Id, ev.Name, ev.Version, ev.NamespaceId, ev.UpdateTime, ev.Unused, ev.FieldMask, d)
}

func (w *w7World) checkReplica(rep *w7Replica) {
	w.checkJournal(rep)
	if !w.r.Failed() {
		w.checkStorageStep(rep)
	}
}

func (w *w7World) checkJournal(rep *w7Replica) {
	r := w.r
	j := rep.j
	kind := w7Kind(rep)
	var prev int64
	n := 0
	bad := ""
	j.order.Ascend(func(o journalOrder) bool {
		n++
		if o.version <= prev {
			bad = fmt.Sprintf("order index holds version %d after %d", o.version, prev)
			return false
		}
		prev = o.version
		ev, ok := j.journal[o.key]
		if !ok {
			bad = fmt.Sprintf("order index entry %s v%d has no journal entry", o.key.key(), o.version)
			return false
		}
		if ev.Version != o.version || ev.EventType != o.key.typ || ev.Id != o.key.id {
			bad = fmt.Sprintf("order index entry %s v%d points to event %s", o.key.key(), o.version, w7EvFull(ev.Event))
			return false
		}
		return true
	})
	if bad != "" {
		r.Fail(w7Prop, "journal_order", kind, "%s: %s", rep.name, bad)
		return
	}
	if n != len(j.journal) {
		r.Fail(w7Prop, "journal_entry", kind, "%s: order index has %d entries, entity map %d", rep.name, n, len(j.journal))
		return
	}
	if j.currentVersion != prev {
		r.Fail(w7Prop, "journal_current_version", kind, "%s: current version %d, newest entry %d", rep.name, j.currentVersion, prev)
		return
	}
	if j.currentVersion > w.src.version {
		r.Fail(w7Prop, "journal_foreign_data", kind, "%s: current version %d is ahead of the source's %d", rep.name, j.currentVersion, w.src.version)
		return
	}
	// content: walk in source creation order for a deterministic first complaint
	seen := 0
	for _, key := range w.src.keys {
		ev, ok := j.journal[journalEventID{typ: key.typ, id: key.id}]
		if !ok {
			continue
		}
		seen++
		if why := w.validEntry(rep, key, ev.Event); why != "" {
			r.Fail(w7Prop, "journal_foreign_data", kind+"/"+format.EventTypeToName(key.typ), "%s: %s", rep.name, why)
			return
		}
	}
	if seen != len(j.journal) {
		r.Fail(w7Prop, "journal_foreign_data", kind, "%s: journal holds %d entities the source never created", rep.name, len(j.journal)-seen)
	}
}

func (w *w7World) checkStorageStep(rep *w7Replica) {
	r := w.r
	st := rep.st
	kind := w7Kind(rep)
	names := make([]string, 0, len(st.metricsByName))
	for n := range st.metricsByName {
		names = append(names, n)
	}
	sort.Strings(names)
	for _, n := range names {
		m := st.GetMetaMetricByName(n)
		d, ok := rep.delivered[m.MetricID]
		if !ok {
			r.Fail(w7Prop, "name_index_wrong_target", kind, "%s: name %q maps to metric %d that was never delivered", rep.name, n, m.MetricID)
			return
		}
		if d.Name != n || m.Name != n {
			r.Fail(w7Prop, "name_index_wrong_target", kind, "%s: GetMetaMetricByName(%q) returns metric %d (v%d, named %q) whose latest delivered version v%d is named %q",
				rep.name, n, m.MetricID, m.Version, m.Name, d.Version, d.Name)
			return
		}
		if m.Version != d.Version {
			r.Fail(w7Prop, "name_index_wrong_target", kind, "%s: GetMetaMetricByName(%q) returns v%d of metric %d, latest delivered is v%d", rep.name, n, m.Version, m.MetricID, d.Version)
			return
		}
	}
	ids := make([]int, 0, len(rep.delivered))
	for id := range rep.delivered {
		ids = append(ids, int(id))
	}
	sort.Ints(ids)
	holders := map[string]int{}
	for _, d := range rep.delivered {
		holders[d.Name]++
	}
	for _, id := range ids {
		d := rep.delivered[int32(id)]
		m := st.GetMetaMetric(int32(id))
		if m == nil || m.Version != d.Version || m.Name != d.Name {
			r.Fail(w7Prop, "by_id_stale", kind, "%s: GetMetaMetric(%d) = %s, latest delivered is '%s' v%d", rep.name, id, w7MetricStr(m), d.Name, d.Version)
			return
		}
		if holders[d.Name] != 1 {
			continue
		}
		if rep.nameClaim[d.Name] > d.Version {
			// another metric was delivered with this name at a later version and has left it since:
			// names are unique at the source, so this metric gave the name up before; the replica
			// just has not seen its newer version yet. Nobody is known to hold the name.
			r.Probe("stale_holder_of_released_name")
			continue
		}
		bn := st.GetMetaMetricByName(d.Name)
		if bn == nil || bn.MetricID != m.MetricID {
			sig := "other"
			if rep.leftNames[d.Name] {
				sig = "name-reused-after-rename" // another delivered metric held this name and was renamed away
			}
			if rep.rebuiltStale[d.Name] {
				sig += "/after-index-rebuild" // a full rebuild of the name index had handed the name back to the renamed metric's old version
			}
			r.Fail(w7Prop, "name_lookup_sole_holder_unreachable", sig,
				"%s: metric %d is the only delivered metric named %q (v%d) but GetMetaMetricByName(%q) = %s",
				rep.name, id, d.Name, d.Version, d.Name, w7MetricStr(bn))
			return
		}
	}
}

func w7MetricStr(m *format.MetricMetaValue) string {
	if m == nil {
		return "nil"
	}
	return fmt.Sprintf("metric %d '%s' v%d", m.MetricID, m.Name, m.Version)
}

// finalOracle: faults have stopped and delivery rounds ran until nothing changed. Clauses:
//
//	converge_missing / converge_extra / converge_latest_version: every replica holds the
//	  source's latest version of every entity (compact journals: its compact content, no
//	  dashboards and prom configs);
//	converge_current_version: a full journal's version is the source's version;
//	state_hash_differs: replicas of the same journal kind have equal state hashes;
//	storage_by_id / storage_group_assignment / storage_name_lookup / storage_other_entities:
//	  MetricsStorage getters agree with the source.
func (w *w7World) finalOracle() {
	r := w.r
	src := w.src
	for _, rep := range w.reps {
		kind := w7Kind(rep)
		for _, key := range src.keys {
			latest := src.cur[key]
			tn := format.EventTypeToName(key.typ)
			ev, ok := rep.j.journal[journalEventID{typ: key.typ, id: key.id}]
			if rep.compactClass && (key.typ == format.DashboardEvent || key.typ == format.PromConfigEvent) {
				if ok {
					r.Fail(w7Prop, "converge_extra", kind+"/"+tn, "%s: compact journal holds %s", rep.name, w7EvFull(ev.Event))
					return
				}
				continue
			}
			if !ok {
				r.Fail(w7Prop, "converge_missing", kind+"/"+tn+w.compactSkewSig(rep, key), "%s: %s#%d '%s' (source v%d) is missing after the final delivery rounds", rep.name, tn, key.id, latest.Name, latest.Version)
				return
			}
			if !rep.compactClass {
				if ev.Event != latest {
					r.Fail(w7Prop, "converge_latest_version", kind+"/"+tn, "%s: holds %s, source's latest is %s", rep.name, w7EvFull(ev.Event), w7EvFull(latest))
					return
				}
				continue
			}
			if !w7SameCompact(ev.Event, latest) {
				r.Fail(w7Prop, "converge_latest_version", kind+"/"+tn+w.compactSkewSig(rep, key),
					"%s: holds %s, which is not the compact content of the source's latest %s", rep.name, w7EvFull(ev.Event), w7EvFull(latest))
				return
			}
		}
		if len(rep.j.journal) > len(src.keys) {
			r.Fail(w7Prop, "converge_extra", kind, "%s: %d entries, source has %d entities", rep.name, len(rep.j.journal), len(src.keys))
			return
		}
		if !rep.compactClass && rep.j.currentVersion != src.version {
			r.Fail(w7Prop, "converge_current_version", kind, "%s: version %d, source %d", rep.name, rep.j.currentVersion, src.version)
			return
		}
	}
	// equal hashes inside a journal kind (full content / compact content)
	for _, compact := range []bool{false, true} {
		var first *w7Replica
		for _, rep := range w.reps {
			if rep.compactClass != compact {
				continue
			}
			if first == nil {
				first = rep
				continue
			}
			_, h0 := first.j.VersionHash()
			_, h1 := rep.j.VersionHash()
			if h0 != h1 {
				r.Fail(w7Prop, "state_hash_differs", w7Kind(first)+"|"+w7Kind(rep), "%s has state hash %s, %s has %s, although both hold the same content", first.name, h0, rep.name, h1)
				return
			}
		}
	}
	r.Probe("final_journals_converged")
	for _, rep := range w.reps {
		w.finalStorage(rep)
		if r.Failed() {
			return
		}
	}
	r.Event("oracle", "final: %d replicas hold %d entities at source version %d", len(w.reps), len(src.keys), src.version)
}

// compactSkewSig classifies a missing or stale entity of an agent fed from compact journals:
// did some compact journal, earlier in the run, drop a delivered event of this entity because
// its compact content equalled what it had, keeping the older version number? Compact
// journals then number the same content differently, and an agent that asks "everything after
// version N" can be skipped over.
func (w *w7World) compactSkewSig(rep *w7Replica, key w7Key) string {
	if rep.agent && rep.compactClass && w.skipped[key] {
		return "/compact-version-skew"
	}
	return ""
}

func (w *w7World) finalStorage(rep *w7Replica) {
	r := w.r
	src := w.src
	st := rep.st
	kind := w7Kind(rep)
	// enabled user groups
	type grp struct {
		id   int32
		name string
	}
	var groups []grp
	for _, g := range src.groups {
		gv, err := GroupMetaFromEvent(src.cur[w7Key{format.MetricsGroupEvent, g.id}])
		if err != nil {
			panic(err)
		}
		if gv.ID > 0 && !gv.Disable {
			groups = append(groups, grp{gv.ID, gv.Name})
		}
	}
	for _, m := range src.metrics {
		key := w7Key{format.MetricEvent, m.id}
		latest := src.cur[key]
		have := rep.j.journal[journalEventID{typ: key.typ, id: key.id}].Event
		want, err := MetricMetaFromEvent(have) // the journal entry was checked against the source above
		if err != nil {
			panic(err)
		}
		got := st.GetMetaMetric(int32(m.id))
		if got == nil {
			r.Fail(w7Prop, "storage_by_id", kind, "%s: GetMetaMetric(%d) = nil, journal holds %s", rep.name, m.id, w7EvFull(have))
			return
		}
		// group: the enabled user group with the longest matching prefix
		wantGroup := int32(format.BuiltinGroupIDDefault)
		best := -1
		for _, g := range groups {
			if strings.HasPrefix(latest.Name, g.name) && len(g.name) > best {
				best, wantGroup = len(g.name), g.id
			}
		}
		if got.GroupID != wantGroup {
			sig := kind
			if best >= 0 {
				sig += "/user-group"
			} else {
				sig += "/default-group"
			}
			r.Fail(w7Prop, "storage_group_assignment", sig, "%s: metric %d '%s' has group %d, the enabled user group with the longest matching prefix is %d", rep.name, m.id, latest.Name, got.GroupID, wantGroup)
			return
		}
		want.GroupID = got.GroupID
		if got.Version != have.Version || !reflect.DeepEqual(got, want) {
			r.Fail(w7Prop, "storage_by_id", kind, "%s: GetMetaMetric(%d) = %+v differs from the journal's entry %s", rep.name, m.id, *got, w7EvFull(have))
			return
		}
		lv, err := MetricMetaFromEvent(latest)
		if err != nil {
			panic(err)
		}
		lv.GroupID = got.GroupID
		if rep.compactClass {
			if !format.SameCompactMetric(got, lv) {
				r.Fail(w7Prop, "storage_by_id", kind, "%s: GetMetaMetric(%d) is not the compact content of the source's latest %s", rep.name, m.id, w7EvFull(latest))
				return
			}
		} else if !reflect.DeepEqual(got, lv) {
			r.Fail(w7Prop, "storage_by_id", kind, "%s: GetMetaMetric(%d) = %+v is not the source's latest %s", rep.name, m.id, *got, w7EvFull(latest))
			return
		}
	}
	// name lookups: every name any metric ever had
	names := make([]string, 0, len(src.allMetricNames))
	for n := range src.allMetricNames {
		names = append(names, n)
	}
	sort.Strings(names)
	for _, n := range names {
		holder := src.metricByName(n)
		got := st.GetMetaMetricByName(n)
		switch {
		case holder == nil && got != nil:
			r.Fail(w7Prop, "storage_name_lookup", "free-name-resolves", "%s: no metric is named %q, GetMetaMetricByName returns %s", rep.name, n, w7MetricStr(got))
			return
		case holder != nil && got == nil:
			sig := "holder-unreachable"
			if src.freedByRename[n] || w.nameWasHeldByOther(n, holder.id) {
				sig = "holder-unreachable/name-reused-after-rename"
			}
			if w.compactSkipDroppedLatest(rep, w7Key{format.MetricEvent, holder.id}) {
				// ApplyEvent never saw the version that took the name back: the compact journal
				// dropped it (equal compact content, older version kept) - consequence of the
				// compact skip, not of the name index
				sig = "holder-unreachable/compact-skip-dropped-latest"
			}
			r.Fail(w7Prop, "storage_name_lookup", sig, "%s: metric %d holds the name %q, GetMetaMetricByName returns nil", rep.name, holder.id, n)
			return
		case holder != nil && int64(got.MetricID) != holder.id:
			r.Fail(w7Prop, "storage_name_lookup", "wrong-holder", "%s: metric %d holds the name %q, GetMetaMetricByName returns %s", rep.name, holder.id, n, w7MetricStr(got))
			return
		}
	}
	if len(st.metricsByName) != len(src.metrics) || len(st.metricsByID) != len(src.metrics) {
		r.Fail(w7Prop, "storage_name_lookup", "index-size", "%s: %d names and %d ids in the indexes, source has %d metrics", rep.name, len(st.metricsByName), len(st.metricsByID), len(src.metrics))
		return
	}
	// groups, namespaces by id (all journals); dashboards and prom configs (full journals)
	for _, g := range src.groups {
		want, _ := GroupMetaFromEvent(rep.j.journal[journalEventID{typ: format.MetricsGroupEvent, id: g.id}].Event)
		got := st.GetGroup(int32(g.id))
		if got == nil || !reflect.DeepEqual(got, want) {
			r.Fail(w7Prop, "storage_other_entities", kind+"/group", "%s: GetGroup(%d) = %+v, journal holds %+v", rep.name, g.id, got, want)
			return
		}
		if bn := st.GetGroupByName(g.name); bn == nil || int64(bn.ID) != g.id {
			r.Probe("group_name_lookup_wrong_or_missing") // not part of the statement; reported only
		}
	}
	for _, n := range src.nss {
		want, _ := NamespaceMetaFromEvent(rep.j.journal[journalEventID{typ: format.NamespaceEvent, id: n.id}].Event)
		got := st.GetNamespace(int32(n.id))
		if got == nil || !reflect.DeepEqual(got, want) {
			r.Fail(w7Prop, "storage_other_entities", kind+"/namespace", "%s: GetNamespace(%d) = %+v, journal holds %+v", rep.name, n.id, got, want)
			return
		}
		if bn := st.GetNamespaceByName(n.name); bn == nil || int64(bn.ID) != n.id {
			r.Fail(w7Prop, "storage_other_entities", kind+"/namespace-by-name", "%s: GetNamespaceByName(%q) = %+v", rep.name, n.name, bn)
			return
		}
	}
	for _, key := range []w7Key{{format.MetricsGroupEvent, int64(format.BuiltinGroupIDDefault)}, {format.NamespaceEvent, int64(format.BuiltinNamespaceIDDefault)}} {
		if src.builtin[key] == 0 {
			continue
		}
		ev := src.cur[key]
		if key.typ == format.MetricsGroupEvent {
			want, _ := GroupMetaFromEvent(rep.j.journal[journalEventID{typ: key.typ, id: key.id}].Event)
			if got := st.GetGroup(int32(key.id)); got == nil || !reflect.DeepEqual(got, want) {
				r.Fail(w7Prop, "storage_other_entities", kind+"/builtin-group", "%s: GetGroup(%d) = %+v, source's latest is %s", rep.name, key.id, got, w7EvFull(ev))
				return
			}
		} else {
			want, _ := NamespaceMetaFromEvent(rep.j.journal[journalEventID{typ: key.typ, id: key.id}].Event)
			if got := st.GetNamespace(int32(key.id)); got == nil || !reflect.DeepEqual(got, want) {
				r.Fail(w7Prop, "storage_other_entities", kind+"/builtin-namespace", "%s: GetNamespace(%d) = %+v, source's latest is %s", rep.name, key.id, got, w7EvFull(ev))
				return
			}
		}
	}
	if rep.compactClass {
		return
	}
	for _, d := range src.dashes {
		latest := src.cur[w7Key{format.DashboardEvent, d.id}]
		got := st.GetDashboardMeta(int32(d.id))
		want, _ := DashboardMetaFromEvent(latest)
		if got == nil || !reflect.DeepEqual(got, want) {
			r.Fail(w7Prop, "storage_other_entities", kind+"/dashboard", "%s: GetDashboardMeta(%d) = %+v, source's latest is %s", rep.name, d.id, got, w7EvFull(latest))
			return
		}
	}
	proms := []struct {
		id  int64
		got tlmetadata.Event
	}{{format.PrometheusConfigID, st.PromConfig()}, {format.PrometheusGeneratedConfigID, st.PromConfigGenerated()}, {format.KnownTagsConfigID, st.KnownTags()}}
	for _, p := range proms {
		latest, ok := src.cur[w7Key{format.PromConfigEvent, p.id}]
		if ok && p.got != latest {
			r.Fail(w7Prop, "storage_other_entities", kind+"/prom-config", "%s: prom config %d is %s, source's latest is %s", rep.name, p.id, w7EvFull(p.got), w7EvFull(latest))
			return
		}
	}
}

// compactSkipDroppedLatest: the storage is fed by a compact journal (directly, or it is an agent
// behind compact journals), its journal still carries an older version of the entity, and the
// source's latest version was delivered to that compact journal (for agents: to an
// aggregator's compact journal) and dropped by the equal-content skip.
func (w *w7World) compactSkipDroppedLatest(rep *w7Replica, key w7Key) bool {
	if !rep.compactClass {
		return false
	}
	latest := w.src.cur[key]
	have, ok := rep.j.journal[journalEventID{typ: key.typ, id: key.id}]
	if !ok || have.Version >= latest.Version || !w7SameCompact(have.Event, latest) {
		return false
	}
	if rep.compactFlag {
		return w.droppedBy[rep.name][key][latest.Version]
	}
	return w.dropped[key][latest.Version]
}

// nameWasHeldByOther: did a metric other than holder carry this name at some version?
func (w *w7World) nameWasHeldByOther(name string, holder int64) bool {
	for _, key := range w.src.keys {
		if key.typ != format.MetricEvent || key.id == holder {
			continue
		}
		for _, e := range w.src.hist[key] {
			if e.Name == name {
				return true
			}
		}
	}
	return false
}
