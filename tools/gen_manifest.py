#!/usr/bin/env python3
"""Regenerates /verif/MANIFEST.json from harness/*/world.json and tools/manifest_static.json."""
import json, os, sys
V = os.path.dirname(os.path.dirname(os.path.abspath(__file__)))
sys.path.insert(0, os.path.join(V, "harness"))
from worlds import WORLDS, PROPS
st = json.load(open(os.path.join(V, "tools", "manifest_static.json")))
base = json.load(open("/root/.vp/BASELINE.json"))["cmd"]
checks = []
READY = set(st['ready_props'])
for pid in sorted(PROPS):
    if pid not in READY:
        continue
    m = PROPS[pid]
    w = WORLDS[m["world"]]
    checks.append({
        "property_id": pid,
        "quick_cmd": "./check %s --tier quick" % pid,
        "thorough_cmd": "./check %s --tier thorough" % pid,
        "evidence_file": "/verif/evidence/%s.json" % pid,
        "replay_cmd_template": "./check %s --replay {path}" % pid,
        "engine": m["world"],
        "level_claimed": {"category": m["level"], "text": m["level_text"], "design_ref": m.get("design_ref", "DESIGN.md section 3")},
        "level_note": m["level_note"],
        "technique": m.get("technique") or st.get("technique", {}).get(pid, "deterministic simulation with fault injection (seeded schedule/fault search, oracle over recorded history)"),
    })
na = []
for i in range(1, 32):
    pid = "C%02d" % i
    if pid in PROPS and pid in READY:
        continue
    na.append({"property_id": pid, "reason": st["not_applicable"].get(pid) or st["not_built"]})
engines = [{"name": n, "path": "/verif/harness/" + w["dir"], "serves_properties": sorted(p for p in PROPS if PROPS[p]["world"] == n and p in READY),
            "kind_free_text": "simulated world; real: " + "; ".join(w["real"][:3])} for n, w in sorted(WORLDS.items()) if any(PROPS[p]['world'] == n and p in READY for p in PROPS)]
man = {"version": 1, "setup_cmd": "./check build-all",
       "hooks": {"guard": "verif", "enable": "checks build /repo's working tree with `go test -c -tags verif` plus a go build overlay that adds the harness files (nothing in /repo is replaced except the two emptied SQLite amalgamation files)",
                 "baseline_off_cmd": base, "source_commits": st["hook_commits"], "add_only": True},
       "engines": engines, "checks": checks, "notes": st["notes"], "not_applicable": na}
json.dump(man, open(os.path.join(V, "MANIFEST.json"), "w"), indent=1)
print("claimed:", [c["property_id"] for c in checks])
