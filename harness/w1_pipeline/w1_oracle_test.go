//go:build verif

package aggregator

// W1 oracles. Everything here runs on the scheduler goroutine at quiescent points, on records the
// simulator callbacks appended in causal order (one mutex), and logs in sorted order.

import (
	"fmt"
	"path/filepath"
	"sort"
	"strings"
	"time"

	"github.com/VKCOM/statshouse/internal/agent"
	"github.com/VKCOM/statshouse/internal/compress"
	"github.com/VKCOM/statshouse/internal/data_model/gen2/tlstatshouse"
	"github.com/VKCOM/statshouse/internal/format"
)

type w1AT struct {
	a int
	T uint32
}

func (x w1AT) String() string { return fmt.Sprintf("(agent%d,%d)", x.a, x.T) }

// one key's contribution inside one agent bucket, as the TL schema states it
type w1Contribution struct {
	count                float64
	valueSet             bool
	min, max, sum, sumsq float64
	hasUniq              bool
	centroidCount        float64
	// hosts credited for this contribution as the schema restores them: max host = explicit int or string
	// tag, else the sender; min host and max-counter host = explicit, else the max host. Notation w1HostRep.
	maxHost, minHost, cntHost string
}

// w1HostRep: a host argument as (int tag, string tag), the two forms the protocol and the stored
// argMin/argMax states carry.
func w1HostRep(i int32, s string) string { return fmt.Sprintf("%d:%q", i, s) }

type w1Payload struct {
	raw       string
	hasMarker bool
	onWire    bool // registered as the payload of its (agent, second)
	items     map[string]*w1Contribution
	decodeErr string

	// positions in the request's row list (all rows, workload or not), for the handler-pause schedule
	rows          int
	markerIdx     int // index of the marker row
	lastWorkload  int // index of the last workload row
	firstRejected int // index of the first row the aggregator's counter validation rejects (-1: none)
}

type w1Fail struct {
	prop, clause, sig, detail string
}

type w1RepGen struct{ rep, gen int }

// w1SlowKey names one row of the low-resolution metric: the agent that reported it and the number of
// the second (of the run, from 1) in which the workload applied the event. The agent keeps such a row
// in a bucket up to 2*resolution seconds ahead of its clock.
type w1SlowKey struct {
	a   int
	seq int32
}

type w1Oracle struct {
	marker     map[w1AT]int          // workload applied the marker of (a,T) to this agent generation
	uniq       map[w1UniqKey][]int64 // values the workload sent for a unique-kind key, per reporting agent
	wire       map[w1AT]*w1Payload   // the payload carrying the workload rows of (a,T), once seen on the wire
	payloads   map[string]*w1Payload // by content
	acked      map[w1AT]bool
	storedBy   map[w1RepGen]map[w1AT]int // stored bodies holding EVERY row of the second's payload
	storedAny  map[w1AT]int
	partial    map[w1AT]int      // stored bodies that hold the second's marker row but lack other rows of its payload
	crashLost  map[w1AT]bool     // lost with a killed agent, within what the crash model allows
	slow       map[w1SlowKey]int // low-resolution rows applied by the workload -> stored bodies that contain them
	handedOver map[w1AT]bool     // marker seconds a gracefully stopped agent process left on its disk cache for its successor

	// net_corrupt_request (simulator facts only, never the warning text):
	corruptAcked    map[w1AT]bool // a discard answer to a request the simulator damaged reached the live agent: deliberately rejected as undecodable
	intactDelivered map[w1AT]int  // copies of the second's marker payload that reached an aggregator handler undamaged
	intactAccepted  map[w1AT]int  // ... and were accepted into a bucket (long poll started)
	corruptSeen     map[w1AT]int  // damaged copies that reached an aggregator handler

	filed    map[w1RepGen]map[w1AT]map[string]bool // aggregator buckets ("recent:T" / "historic:T") a replica process filed an agent bucket in
	deferred []w1Fail                              // reported at the end of the run, if nothing else failed

	primarySeen map[uint32]int
	spareSeen   [3]map[uint32]int // owner -> second -> receiving replica

	outage    [3]time.Duration // how long each replica was down (single-replica-outage scenario)
	startUnix uint32
}

func (o *w1Oracle) init(w *w1World) {
	o.marker = map[w1AT]int{}
	o.uniq = map[w1UniqKey][]int64{}
	o.wire = map[w1AT]*w1Payload{}
	o.payloads = map[string]*w1Payload{}
	o.acked = map[w1AT]bool{}
	o.storedBy = map[w1RepGen]map[w1AT]int{}
	o.storedAny = map[w1AT]int{}
	o.partial = map[w1AT]int{}
	o.crashLost = map[w1AT]bool{}
	o.handedOver = map[w1AT]bool{}
	o.slow = map[w1SlowKey]int{}
	o.corruptAcked = map[w1AT]bool{}
	o.intactDelivered = map[w1AT]int{}
	o.intactAccepted = map[w1AT]int{}
	o.corruptSeen = map[w1AT]int{}
	o.filed = map[w1RepGen]map[w1AT]map[string]bool{}
	o.primarySeen = map[uint32]int{}
	for i := range o.spareSeen {
		o.spareSeen[i] = map[uint32]int{}
	}
	o.startUnix = uint32(w.start.Unix())
}

func (w *w1World) noteMarkerGen(a int, T uint32, gen int) { w.or.marker[w1AT{a, T}] = gen }

// w1UniqKey: one row key (full tuple: the row's own time, metric, every int and string tag) as
// reported by one agent. The workload reports such a key within one second only, so all its values
// travel in one agent bucket, whichever second that bucket belongs to.
type w1UniqKey struct {
	a   int
	key string
}

func (o *w1Oracle) noteUnique(a int, key string, vals []int64) {
	k := w1UniqKey{a, key}
	o.uniq[k] = append(o.uniq[k], vals...)
}

// noteAckLocked: an answer with discard=true reached the live agent for a request that carried the
// marker payload of (a,T). Whether that answer was legal is clause (1)'s business (response record).
func (w *w1World) noteAckLocked(a int, T uint32, corrupt bool) {
	w.or.acked[w1AT{a, T}] = true
	if corrupt {
		w.or.corruptAcked[w1AT{a, T}] = true
	}
}

func w1KeyString(time uint32, metric int32, tags []int32, stags [][]byte) string {
	var sb strings.Builder
	fmt.Fprintf(&sb, "%d/%d", time, metric)
	for i := 0; i < format.MaxTags; i++ {
		var t int32
		var s string
		if i < len(tags) {
			t = tags[i]
		}
		if i < len(stags) {
			s = string(stags[i])
		}
		if t != 0 || s != "" {
			fmt.Fprintf(&sb, "/%d=%d:%q", i, t, s)
		}
	}
	return sb.String()
}

// noteWireLocked: the payload crosses the wire (first time: it becomes THE payload of its second).
func (w *w1World) noteWireLocked(inst *w1Inst, T uint32, p *w1Payload) {
	if p.onWire || !p.hasMarker {
		return
	}
	p.onWire = true
	at := w1AT{inst.agent, T}
	if w.or.wire[at] != nil {
		w.probeLocked("two_marker_payloads_for_one_second")
	}
	w.or.wire[at] = p
}

// payloadLocked decodes the payload a request carries (generated TL types), once per distinct
// content. A second of an agent can have two payloads: the one a killed process produced (with the
// workload's rows) and an empty one its successor produces for the same second.
func (w *w1World) payloadLocked(inst *w1Inst, args *tlstatshouse.SendSourceBucket3Bytes) *w1Payload {
	at := w1AT{inst.agent, args.Time}
	ck := fmt.Sprintf("%d/%d/", at.a, at.T) + string(args.CompressedData)
	if p := w.or.payloads[ck]; p != nil {
		return p
	}
	p := &w1Payload{raw: string(args.CompressedData), items: map[string]*w1Contribution{}}
	w.or.payloads[ck] = p
	raw, err := compress.Decompress(args.OriginalSize, args.CompressedData)
	if err != nil {
		p.decodeErr = "decompress: " + err.Error()
		return p
	}
	var b tlstatshouse.SourceBucket3Bytes
	if _, err := b.ReadTL1Boxed(raw); err != nil {
		p.decodeErr = "tl: " + err.Error()
		return p
	}
	sender := string(args.Header.HostName)
	p.rows, p.markerIdx, p.lastWorkload, p.firstRejected = len(b.Metrics), -1, -1, -1
	for i := range b.Metrics {
		item := &b.Metrics[i]
		if !w1IsWorkloadMetric(item.Metric) {
			continue
		}
		p.lastWorkload = i
		ts := args.Time
		if item.IsSetT() {
			ts = item.T
		}
		// one contribution per value of the row: the tail, and one per string-top element, whose key carries
		// the element's top tag at the string-top index. A top element may carry an int tag and a string at
		// once; data_model.TagUnion.Normalize is the rule: the int wins, the string is dropped.
		put := func(key string, c *w1Contribution) bool {
			if p.items[key] != nil {
				p.decodeErr = "key twice in one agent bucket: " + key
				return false
			}
			p.items[key] = c
			return true
		}
		for ti := range item.Top {
			el := &item.Top[ti]
			c, rejected := w1DecodeValue(&el.Value, el.FieldsMask, sender)
			if rejected || c.count == 0 {
				// the aggregator stops merging the row at a rejected top element (later elements and the tail are
				// not merged): nothing in this world sends that, and the oracle does not define it
				p.decodeErr = "top element with rejected or zero counter"
				return p
			}
			tags := make([]int32, format.MaxTags)
			stags := make([][]byte, format.MaxTags)
			copy(tags, item.Keys)
			copy(stags, item.Skeys)
			if el.Tag != 0 {
				tags[format.StringTopTagIndexV3] = el.Tag
			} else {
				stags[format.StringTopTagIndexV3] = el.Stag
			}
			if !put(w1KeyString(ts, item.Metric, tags, stags), c) {
				return p
			}
		}
		c, rejected := w1DecodeValue(&item.Tail, item.FieldsMask, sender)
		if rejected {
			// a row the aggregator's validation rejects (only the raw senders produce them) contributes nothing
			if len(item.Top) != 0 {
				p.decodeErr = "rejected tail counter in a row with top elements"
				return p
			}
			if p.firstRejected < 0 {
				p.firstRejected = i
			}
			continue
		}
		if c.count == 0 && len(item.Top) != 0 {
			continue // "tail can have 0 count, while top has some": the tail adds nothing
		}
		if !put(w1KeyString(ts, item.Metric, item.Keys, item.Skeys), c) {
			return p
		}
		if item.Metric == w1MetricMarker {
			p.hasMarker = true
			p.markerIdx = i
		}
	}
	return p
}

// w1DecodeValue reads one value (a row's tail or a string-top element) as the TL schema states it.
func w1DecodeValue(v *tlstatshouse.MultiValueBytes, fm uint32, sender string) (c *w1Contribution, rejected bool) {
	c = &w1Contribution{}
	c.count = v.Counter
	if v.IsSetCounterEq1(fm) {
		c.count = 1
	}
	if w1CounterRejected(c.count) {
		return c, true
	}
	c.maxHost = w1HostRep(0, sender)
	if v.IsSetMaxHostTag(fm) || v.IsSetMaxHostStag(fm) {
		c.maxHost = w1HostRep(v.MaxHostTag, string(v.MaxHostStag))
	}
	c.minHost, c.cntHost = c.maxHost, c.maxHost
	if v.IsSetMinHostTag(fm) || v.IsSetMinHostStag(fm) {
		c.minHost = w1HostRep(v.MinHostTag, string(v.MinHostStag))
	}
	if v.IsSetMaxCounterHostTag(fm) || v.IsSetMaxCounterHostStag(fm) {
		c.cntHost = w1HostRep(v.MaxCounterHostTag, string(v.MaxCounterHostStag))
	}
	if v.IsSetValueSet(fm) {
		c.valueSet = true
		c.min = v.ValueMin
		if v.IsSetValueMax(fm) {
			c.max, c.sum, c.sumsq = v.ValueMax, v.ValueSum, v.ValueSumSquare
		} else { // "simple value (all values identical)"
			c.max, c.sum, c.sumsq = v.ValueMin, v.ValueMin*c.count, v.ValueMin*v.ValueMin*c.count
		}
	}
	c.hasUniq = len(v.Uniques) != 0
	for _, ce := range v.Centroids {
		c.centroidCount += float64(ce.Count)
	}
	if v.IsSetImplicitCentroid(fm) { // "centroid should be restored from the single simple value"
		c.centroidCount += c.count
	}
	return c, false
}

// ---- per-record processing --------------------------------------------------------------------------

func (w *w1World) format(rec *w1Rec) string {
	head := fmt.Sprintf("%s %-10s", w.ms(rec.at), w1RecNames[rec.typ])
	peer := fmt.Sprintf("agent%d.g%d r%d.g%d %s T=%d spare=%v try=%d", rec.agent, rec.agentGen, rec.replica+1, rec.repGen, w1KindNames[rec.kind], rec.T, rec.spare, rec.attempt)
	switch rec.typ {
	case w1RecSend:
		return head + " " + peer
	case w1RecCorrupt:
		// where and how the payload was damaged is not logged: the agent's payload bytes (item order, hence
		// compressed length) are not a function of the choice vector, only the fact of the damage is
		return head + " " + peer + " bucket payload damaged"
	case w1RecNoConn:
		return fmt.Sprintf("%s agent%d.g%d r%d %s T=%d spare=%v try=%d", head, rec.agent, rec.agentGen, rec.replica+1, w1KindNames[rec.kind], rec.T, rec.spare, rec.attempt)
	case w1RecNetDrop:
		return fmt.Sprintf("%s agent%d.g%d r%d %s T=%d try=%d lost=%s", head, rec.agent, rec.agentGen, rec.replica+1, w1KindNames[rec.kind], rec.T, rec.attempt, rec.note)
	case w1RecDeliver:
		return fmt.Sprintf("%s %s dup=%v damaged=%v marker=%v accepted=%v filed=%s bucket=%d window=[%d,%d]", head, peer, rec.dup, rec.corrupt, rec.hasMarker, rec.accepted, rec.where, rec.bucketTime, rec.oldest, rec.newest)
	case w1RecResp:
		return fmt.Sprintf("%s %s dup=%v damaged=%v result=%s discard=%v warning=%s", head, peer, rec.dup, rec.corrupt, rec.note, rec.discard, rec.warn)
	case w1RecAck:
		return fmt.Sprintf("%s agent%d.g%d r%d %s T=%d try=%d result=%s discard=%v", head, rec.agent, rec.agentGen, rec.replica+1, w1KindNames[rec.kind], rec.T, rec.attempt, rec.note, rec.discard)
	case w1RecCH:
		var ms []string
		if rec.body != nil {
			for i := range rec.body.rows {
				row := &rec.body.rows[i]
				if row.metric == w1MetricMarker {
					ms = append(ms, fmt.Sprintf("a%d@%dx%g", row.tags[1]-1, row.time, row.count))
				}
			}
		}
		sort.Strings(ms)
		return fmt.Sprintf("%s r%d.g%d fate=%s stored=%v markers=%v", head, rec.replica+1, rec.repGen, w1FateNames[rec.fate], rec.stored, ms)
	case w1RecPanic:
		return fmt.Sprintf("%s in %s: %s", head, rec.where, rec.note)
	}
	return head
}

func (w *w1World) observe() {
	w.mu.Lock()
	recs := w.recs
	w.recs = nil
	faults := w.faultsSeen
	w.faultsSeen = nil
	probes := w.probesSeen
	w.probesSeen = nil
	w.mu.Unlock()
	for _, f := range faults {
		w.r.Fault(f)
	}
	for _, p := range probes {
		w.r.Probe(p)
	}
	var lines []string
	var fails []w1Fail
	for i := range recs {
		lines = append(lines, w.format(&recs[i]))
		fails = append(fails, w.or.process(w, &recs[i])...)
	}
	sort.Strings(lines)
	for _, l := range lines {
		w.r.Event("sim", "%s", l)
	}
	w.report(fails)
}

func (w *w1World) report(fails []w1Fail) {
	sort.Slice(fails, func(i, j int) bool {
		a, b := fails[i], fails[j]
		if a.prop != b.prop {
			return a.prop < b.prop
		}
		if a.clause != b.clause {
			return a.clause < b.clause
		}
		if a.sig != b.sig {
			return a.sig < b.sig
		}
		return a.detail < b.detail
	})
	for _, f := range fails {
		w.r.Fail(f.prop, f.clause, f.sig, "%s", f.detail)
	}
}

func (o *w1Oracle) process(w *w1World, rec *w1Rec) (fails []w1Fail) {
	fail := func(prop, clause, sig, f string, args ...any) {
		fails = append(fails, w1Fail{prop, clause, sig, fmt.Sprintf(f, args...)})
	}
	at := w1AT{rec.agent, rec.T}
	window := uint32(w.cfg.window)
	switch rec.typ {
	case w1RecPanic:
		// C01 (4). The stack goes into the detail only (it is not replay-stable and never logged).
		fail(w.r.Prop, "panic", "panic:"+strings.SplitN(rec.where, " ", 2)[0], "system code panicked in %s: %s\n%s", rec.where, rec.note, rec.stack)

	case w1RecSend:
		if rec.kind > w1KindHistoric {
			break
		}
		owner := int(rec.T % 3)
		if rec.spare {
			// C10 (ii): a spare request never goes to the replica that owns the second
			if rec.replica == owner {
				fail("C10", "spare_is_owner", w1KindNames[rec.kind], "agent%d sent second %d as SPARE to replica r%d, which owns that second", rec.agent, rec.T, rec.replica+1)
			}
			o.spareSeen[owner][rec.T] = rec.replica
			w.r.Probes["spare_request"]++
		} else if rec.kind == w1KindRecent {
			// C10 (i): every agent picks the same replica for a second
			if prev, ok := o.primarySeen[rec.T]; ok && prev != rec.replica {
				fail("C10", "primary_disagree", "recent", "second %d was sent as non-spare recent to r%d by one agent and to r%d by agent%d", rec.T, prev+1, rec.replica+1, rec.agent)
			}
			o.primarySeen[rec.T] = rec.replica
		}

	case w1RecDeliver:
		if rec.kind <= w1KindHistoric && rec.hasMarker {
			if rec.corrupt {
				o.corruptSeen[at]++
				if rec.accepted {
					// cannot happen while the handler decodes with the decoders w1Undecodable used
					w.r.Probes["damaged_request_accepted_into_bucket"]++
				}
			} else {
				o.intactDelivered[at]++
				if rec.accepted {
					o.intactAccepted[at]++
				}
				if o.corruptSeen[at] > 0 {
					w.r.Probes["intact_copy_delivered_after_damaged_one"]++
				}
			}
		}
		if rec.kind > w1KindHistoric || !rec.accepted {
			if rec.kind <= w1KindHistoric {
				w.r.Probes["answered_without_longpoll"]++
			}
			break
		}
		if rec.where == "recent" || rec.where == "historic" {
			rg := w1RepGen{rec.replica, rec.repGen}
			if o.filed[rg] == nil {
				o.filed[rg] = map[w1AT]map[string]bool{}
			}
			if o.filed[rg][at] == nil {
				o.filed[rg][at] = map[string]bool{}
			}
			o.filed[rg][at][fmt.Sprintf("%s:%d", rec.where, rec.bucketTime)] = true
		}
		switch rec.where {
		case "shutdown_hijack":
			// the aggregator is shutting down (inserts disabled): it keeps the request without filing or answering it
			w.r.Probes["request_held_unanswered_by_aggregator_in_shutdown"]++
		case "answered":
			w.r.Probes["c10_answered_before_read"]++
		case "recent":
			// C10 (iii): bucket the replica will itself insert at most two seconds later
			if rec.bucketTime < rec.T || rec.bucketTime > rec.T+2 || int(rec.bucketTime%3) != rec.replica {
				fail("C10", "filed_in_foreign_bucket", w1KindNames[rec.kind]+fmt.Sprintf(":spare=%v", rec.spare), "replica r%d filed second %d (spare=%v) in recent bucket %d: not its own second within [T,T+2]", rec.replica+1, rec.T, rec.spare, rec.bucketTime)
			}
			// C10 (i): a non-spare recent request is filed under its own second
			if rec.kind == w1KindRecent && !rec.spare && rec.bucketTime != rec.T {
				fail("C10", "primary_not_filed_under_T", "recent", "replica r%d filed the non-spare recent second %d in bucket %d", rec.replica+1, rec.T, rec.bucketTime)
			}
			if rec.bucketTime != rec.T {
				w.r.Probes["c10_rounded_up_to_own_second"]++
			}
		case "historic":
			if rec.bucketTime != rec.T {
				fail("C10", "historic_filed_under_other_second", w1KindNames[rec.kind], "replica r%d filed second %d in the historic map under %d", rec.replica+1, rec.T, rec.bucketTime)
			}
			if rec.kind == w1KindRecent {
				fail("C10", "recent_filed_historic", "recent", "replica r%d filed a recent request for second %d in the historic map", rec.replica+1, rec.T)
			}
			w.r.Probes["c10_filed_historic"]++
		default:
			fail("C10", "accepted_but_not_filed", w1KindNames[rec.kind], "replica r%d started a long poll for second %d of agent%d but no recent or historic bucket holds it (%s)", rec.replica+1, rec.T, rec.agent, rec.where)
		}

	case w1RecResp:
		if rec.kind > w1KindHistoric {
			break
		}
		if rec.note == "undecodable_response" {
			fail("C01", "undecodable_response", w1KindNames[rec.kind], "replica r%d answered second %d of agent%d with bytes that are no sendSourceBucket3Response", rec.replica+1, rec.T, rec.agent)
			break
		}
		switch rec.warn {
		case "late_recent":
			w.r.Probes["late_recent_answered_keep"]++
		case "conveyor_full":
			w.r.Probes["conveyor_full_answered_keep"]++
		case "out_of_window":
			w.r.Probes["out_of_window_discarded"]++
		case "future":
			w.r.Probes["future_discarded"]++
		}
		if rec.corrupt && rec.note == "ok" && !rec.discard {
			w.r.Probes["undecodable_answered_keep"]++
		}
		if rec.note != "ok" || !rec.discard {
			break
		}
		// C01 (1): ack implies stored, or a deliberate rejection the oracle re-derives from simulator facts
		if !rec.hasMarker {
			break // this request's payload carries no marker row (before/after the workload, successor of a killed agent)
		}
		nowUnix := uint32(rec.at.Unix())
		if o.storedBy[w1RepGen{rec.replica, rec.repGen}][at] > 0 {
			break
		}
		switch {
		case rec.corrupt:
			// "undecodable": legal for exactly this (agent, second, attempt) because the simulator damaged
			// the bucket payload of THIS request (fact carried on the call, not read from the warning)
			w.r.Probes["undecodable_rejected"]++
		case rec.T+window < nowUnix:
			w.r.Probes["ack_of_second_outside_window"]++
		case rec.T > nowUnix:
			w.r.Probes["ack_of_future_second"]++
		default:
			sig, what := w1KindNames[rec.kind]+":"+rec.warn, "no body containing that second's marker row"
			if o.partial[at] > 0 {
				sig += ":partial_body"
				what = fmt.Sprintf("only bodies that hold the second's marker row but lack other rows of its payload (%d such bodies stored so far by any replica), no body with all rows of that second", o.partial[at])
			}
			fail("C01", "ack_without_store", sig, "replica r%d.g%d answered discard=true for second %d of agent%d (%s, warning class %q) at %s, but %s was stored by this replica process before, the second is neither outside the historic window (%d s) nor in the future, and the simulator did not damage this request",
				rec.replica+1, rec.repGen, rec.T, rec.agent, w1KindNames[rec.kind], rec.warn, w.ms(rec.at), what, window)
		}

	case w1RecCH:
		if rec.body == nil {
			break
		}
		w.r.Extra["clickhouse_requests"]++
		w.r.Extra["clickhouse_rows_decoded"] += rec.body.rowCount
		fails = append(fails, o.checkBody(w, rec)...)
		if rec.stored {
			w.r.Extra["clickhouse_bodies_stored"]++
			for _, k := range rec.body.slow {
				if _, ok := o.slow[k]; ok {
					o.slow[k]++
				} else {
					w.r.Probes["low_resolution_row_stored_that_the_workload_never_sent"]++
				}
			}
			m := o.storedBy[w1RepGen{rec.replica, rec.repGen}]
			if m == nil {
				m = map[w1AT]int{}
				o.storedBy[w1RepGen{rec.replica, rec.repGen}] = m
			}
			var have map[string]bool // keys of the body's workload rows, built when the first marker row is met
			for i := range rec.body.rows {
				row := &rec.body.rows[i]
				if row.metric == w1MetricMarker {
					x := w1AT{int(row.tags[1]) - 1, row.time}
					// "stored" means the second's data, not only its marker: every row the second's payload
					// carried must be in this body (the handler merges a payload into one bucket, a bucket goes
					// into one body). A body that has the marker row but lacks other rows of the payload stores
					// the second in part only: it neither licenses an ack nor satisfies the liveness clause.
					if p := o.wire[x]; p != nil && p.decodeErr == "" {
						if have == nil {
							have = map[string]bool{}
							for j := range rec.body.rows {
								have[rec.body.rows[j].key()] = true
							}
						}
						missing := 0
						for k := range p.items {
							if !have[k] {
								missing++
							}
						}
						if missing != 0 {
							o.partial[x]++
							w.r.Probes["stored_body_has_marker_but_lacks_rows_of_its_payload"]++
							continue
						}
					}
					m[x]++
					o.storedAny[x]++
					if o.storedAny[x] == 2 {
						w.r.Probes["second_stored_more_than_once"]++
					}
				}
			}
		}
	}
	return fails
}

// checkBody is the C03 oracle for one insert body (stored or not). Rows and wire contributions are
// grouped by the row's OWN timestamp (an event stamped older than the second it is reported in
// travels in a later agent bucket and is inserted with its own time): key = (row time, metric, every
// int and string tag, string-top).
func (o *w1Oracle) checkBody(w *w1World, rec *w1Rec) (fails []w1Fail) {
	where := fmt.Sprintf("body of r%d.g%d at %s: ", rec.replica+1, rec.repGen, w.ms(rec.at))
	fail := func(clause, sig, f string, args ...any) {
		fails = append(fails, w1Fail{"C03", clause, sig, where + fmt.Sprintf(f, args...)})
	}
	b := rec.body
	if b.parseErr != "" {
		fail("undecodable_body", "parse", "the API-side column readers cannot decode the body (%d bytes): %s", rec.bodyLen, b.parseErr)
		return
	}
	if b.uniqChanged != "" {
		fail("unique", "state_changed_by_later_block", "row %s: the uniq state the API-side column reader handed out for this row (copied by value, as the API's result callbacks keep it) changed when later rows were decoded with the same column object (Reset + DecodeColumn per block)", b.uniqChanged)
		return
	}
	if len(b.sampled) != 0 {
		// the premise "the insert budget does not bind" is violated: a configuration problem of the
		// harness (budgets are set so that this cannot happen), never silently skipped
		fail("harness_budget_binds", "sampling", "the aggregator sampled workload metrics %v: the budgets of the world are too small", b.sampled)
		return
	}
	rows := map[string][]*w1Row{}
	for i := range b.rows {
		row := &b.rows[i]
		rows[row.key()] = append(rows[row.key()], row)
	}
	// merge counts per (agent, second): the marker's counter (marker events never carry a skewed timestamp)
	merged := map[w1AT]float64{}
	for k, rs := range rows {
		if rs[0].metric != w1MetricMarker {
			continue
		}
		if len(rs) > 1 {
			fail("duplicate_key", w1MetricNames[w1MetricMarker], "key %s appears %d times", k, len(rs))
			return
		}
		row := rs[0]
		if !w1IsInt(row.count) || row.count < 1 {
			fail("aggregates", "marker", "marker row %s has count %v", row.key(), row.count)
			return
		}
		merged[w1AT{int(row.tags[1]) - 1, row.time}] = row.count
	}
	// expected rows = merge of all contributions the wire carried into this body
	type exp struct {
		count, min, max, sum, sumsq, centroids float64
		valueSet, hasUniq                      bool
		maxHosts, minHosts, cntHosts           map[string]bool
		uniq                                   map[int64]bool
		metric                                 int32
		buckets                                map[string]bool // aggregator buckets of this replica process that received a contribution
	}
	want := map[string]*exp{}
	var ats []w1AT
	for at := range merged {
		ats = append(ats, at)
	}
	sort.Slice(ats, func(i, j int) bool {
		if ats[i].T != ats[j].T {
			return ats[i].T < ats[j].T
		}
		return ats[i].a < ats[j].a
	})
	filed := o.filed[w1RepGen{rec.replica, rec.repGen}]
	for _, at := range ats {
		p := o.wire[at]
		if p == nil {
			fail("unknown_contribution", "marker", "contains the marker of %v, which never crossed the wire", at)
			return
		}
		if strings.HasPrefix(p.decodeErr, "key twice in one agent bucket") {
			// the agent itself kept two items for one key: the aggregator then receives (and may insert) the
			// key's contribution in parts
			fail("duplicate_key_in_agent_bucket", "payload", "payload of %v: %s", at, p.decodeErr)
			return
		}
		if p.decodeErr != "" {
			fail("undecodable_payload", "payload", "payload of %v: %s", at, p.decodeErr)
			return
		}
		n := merged[at]
		for k, c := range p.items {
			e := want[k]
			if e == nil {
				e = &exp{maxHosts: map[string]bool{}, minHosts: map[string]bool{}, cntHosts: map[string]bool{}, uniq: map[int64]bool{}, buckets: map[string]bool{}}
				want[k] = e
			}
			if len(filed[at]) == 0 {
				e.buckets[fmt.Sprintf("unobserved:%v", at)] = true // answered before the white-box read: any bucket
			}
			for bk := range filed[at] {
				e.buckets[bk] = true
			}
			e.count += n * c.count
			if c.valueSet {
				if !e.valueSet || c.min < e.min {
					e.min = c.min
				}
				if !e.valueSet || c.max > e.max {
					e.max = c.max
				}
				e.valueSet = true
				e.sum += n * c.sum
				e.sumsq += n * c.sumsq
			}
			e.centroids += n * c.centroidCount
			e.cntHosts[c.cntHost] = true
			if c.valueSet {
				e.maxHosts[c.maxHost], e.minHosts[c.minHost] = true, true
			}
			if c.hasUniq {
				e.hasUniq = true
				vals, ok := o.uniq[w1UniqKey{at.a, k}]
				if !ok {
					fail("unknown_contribution", "unique", "the payload of %v carries a unique state under key %s, for which the workload sent no unique values", at, k)
					return
				}
				for _, v := range vals {
					e.uniq[v] = true
				}
			}
		}
	}
	var keys []string
	for k := range want {
		keys = append(keys, k)
	}
	for k, rs := range rows {
		if want[k] == nil && rs[0].metric != w1MetricMarker {
			keys = append(keys, k)
		}
	}
	sort.Strings(keys)
	for _, k := range keys {
		e, rs := want[k], rows[k]
		switch {
		case e == nil:
			fail("unexpected_row", w1MetricNames[rs[0].metric], "row %s is in the body but no merged agent bucket carried that key", k)
			continue
		case len(rs) == 0:
			fail("missing_row", "row", "key %s was carried by a merged agent bucket but the body has no row for it", k)
			continue
		}
		name := w1MetricNames[rs[0].metric]
		if len(rs) > 1 {
			// (i) "each key exactly once". One aggregator bucket holds one item per key, so more rows than
			// buckets that received the key means a bucket wrote the key twice. As many rows as buckets or
			// fewer: the contributions sat in several buckets (the recent one and historic ones, possible
			// only for rows that carry an older timestamp than their agent bucket) that went into ONE
			// insert unmerged. Both break (i); the second is kept apart (own clause, reported at the end
			// of the run so that it cannot hide any other failure) because it has one known cause.
			if len(rs) > len(e.buckets) {
				fail("duplicate_key", name, "key %s appears %d times; its contributions were filed in %d bucket(s) of this aggregator: %v", k, len(rs), len(e.buckets), w1SortedSet(e.buckets))
				return
			}
			w.r.Probes["c03_key_in_several_buckets_of_one_insert"]++
			o.deferred = append(o.deferred, w1Fail{"C03", "duplicate_key_across_buckets", "several_buckets_in_one_insert",
				where + fmt.Sprintf("key %s appears %d times: its contributions were filed in %d different buckets of this aggregator %v, all inserted by this one body, each with its own row for the key (partial count/min/max/sum per row)", k, len(rs), len(e.buckets), w1SortedSet(e.buckets))})
		}
		// the rows of the key taken together (one row unless the case above)
		var count, sum, sumsq, centroidWeight float64
		min, max := rs[0].min, rs[0].max
		var uniqSum, uniqMax uint64
		uniqItems, centroids := 0, 0
		for _, row := range rs {
			count += row.count
			sum += row.sum
			sumsq += row.sumsq
			if row.min < min {
				min = row.min
			}
			if row.max > max {
				max = row.max
			}
			centroidWeight += row.centroidWeight
			centroids += row.centroids
			uniqSum += row.uniq
			if row.uniq > uniqMax {
				uniqMax = row.uniq
			}
			uniqItems += row.uniqItems
			if row.maxCount != row.count {
				fail("aggregates", name+":count", "row %s: count=%v but max_count=%v", k, row.count, row.maxCount)
			}
		}
		if count != e.count {
			fail("aggregates", name+":count", "key %s: count=%v (%d row(s)), merge of contributions gives %v", k, count, len(rs), e.count)
		}
		if e.valueSet {
			if min != e.min || max != e.max || sum != e.sum || sumsq != e.sumsq {
				fail("aggregates", name+":value", "key %s: min/max/sum/sumsq = %v/%v/%v/%v (%d row(s)), merge of contributions gives %v/%v/%v/%v", k, min, max, sum, sumsq, len(rs), e.min, e.max, e.sum, e.sumsq)
			}
		} else if min != 0 || max != 0 || sum != 0 || sumsq != 0 {
			fail("aggregates", name+":value", "key %s: counter row carries min/max/sum/sumsq = %v/%v/%v/%v", k, min, max, sum, sumsq)
		}
		for _, row := range rs {
			if e.valueSet {
				if h := w1HostRep(row.minHost.AsInt32, row.minHost.AsString); !e.minHosts[h] {
					fail("hosts", name+":min_host", "row %s: min_host decodes to %s, the min hosts of the contributions are %v", k, h, w1SortedSet(e.minHosts))
				}
				if h := w1HostRep(row.maxHost.AsInt32, row.maxHost.AsString); !e.maxHosts[h] {
					fail("hosts", name+":max_host", "row %s: max_host decodes to %s, the max hosts of the contributions are %v", k, h, w1SortedSet(e.maxHosts))
				}
			}
			if h := w1HostRep(row.maxCountHost.AsInt32, row.maxCountHost.AsString); !e.cntHosts[h] {
				fail("hosts", name+":max_count_host", "row %s: max_count_host decodes to %s, the max-counter hosts of the contributions are %v", k, h, w1SortedSet(e.cntHosts))
			}
		}
		if e.hasUniq {
			// one row: exact. Several rows: every part holds a subset, the parts together hold everything.
			if n := uint64(len(e.uniq)); (len(rs) == 1 && uniqSum != n) || uniqMax > n || uniqSum < n {
				fail("unique", name, "key %s: unique states decode to %d values in %d row(s) (largest %d, %d items), the merged buckets carried %d distinct values", k, uniqSum, len(rs), uniqMax, uniqItems, n)
			}
		} else if uniqItems != 0 {
			fail("unique", name, "key %s: unexpected unique state with %d items", k, uniqItems)
		}
		if e.centroids != 0 {
			if centroidWeight != e.count || centroidWeight != e.centroids {
				fail("percentiles", name, "key %s: centroid weights sum to %v, count is %v (wire centroids %v)", k, centroidWeight, e.count, e.centroids)
			}
		} else if centroids != 0 {
			fail("percentiles", name, "key %s: unexpected %d centroids", k, centroids)
		}
		w.r.Extra["c03_rows_compared"] += len(rs)
		if rs[0].time != 0 && o.rowOlderThanBucket(rs[0].time, ats) {
			w.r.Probes["c03_row_older_than_every_bucket_of_its_body"]++
		}
	}
	return fails
}

// rowOlderThanBucket: no agent bucket merged into the body belongs to the row's own second.
func (o *w1Oracle) rowOlderThanBucket(t uint32, ats []w1AT) bool {
	for _, at := range ats {
		if at.T == t {
			return false
		}
	}
	return true
}

func w1SortedSet(m map[string]bool) []string {
	var out []string
	for k := range m {
		out = append(out, k)
	}
	sort.Strings(out)
	return out
}

// ---- C01 (2): forget only after ack ---------------------------------------------------------------

// held lists what the agent still holds: disk cache (read by the agent's own reader from a copy),
// in-memory historic queue, and seconds inside an outstanding send.
func (w *w1World) heldSeconds(inst *w1Inst, diskDir string) map[uint32]string {
	held := map[uint32]string{}
	for _, t := range w1DiskSeconds(diskDir, filepath.Join(w.dir, "scratch-read")) {
		held[t] = "disk"
	}
	for _, t := range agent.VerifW1HistoricQueue(inst.ag) {
		if held[t] == "" {
			held[t] = "queue"
		}
	}
	w.mu.Lock()
	for call := range inst.calls {
		if call.kind <= w1KindHistoric && held[call.T] == "" {
			held[call.T] = "inflight"
		}
	}
	w.mu.Unlock()
	return held
}

func (o *w1Oracle) checkForgotten(w *w1World, inst *w1Inst, held map[uint32]string, when string) {
	nowUnix := uint32(time.Now().Unix())
	window := uint32(w.cfg.window)
	var fails []w1Fail
	var ats []w1AT
	for at := range o.wire {
		if at.a == inst.agent {
			ats = append(ats, at)
		}
	}
	sort.Slice(ats, func(i, j int) bool { return ats[i].T < ats[j].T })
	for _, at := range ats {
		switch {
		case o.acked[at]:
			if o.corruptAcked[at] && held[at.T] == "" {
				w.r.Probes["second_forgotten_after_undecodable_rejection"]++
			}
		case held[at.T] != "":
			w.r.Extra["c01_seconds_still_held_at_check"]++
		case o.crashLost[at]:
			w.r.Probes["second_lost_with_crashed_agent"]++
		case w.mayAgeOut() && at.T+window < nowUnix:
			w.r.Probes["second_dropped_outside_window"]++
		case w.cfg.diskless:
			// Without a disk cache a historic sender between two attempts (1 s after a failure or a "keep",
			// 10 s without a live replica) holds its second in a local variable: neither queued nor in flight,
			// and no seam shows it. "Not visible now" proves nothing here; the liveness clause decides these runs.
			w.r.Probes["diskless_second_neither_queued_nor_in_flight_at_check"]++
		default:
			fails = append(fails, w1Fail{"C01", "forgotten_without_ack", when, fmt.Sprintf("%s: agent%d no longer holds second %d (not on disk, not queued, not in flight) although no aggregator response with discard=true ever reached it; window %d s, now %d", when, at.a, at.T, window, nowUnix)})
		}
	}
	w.r.Extra["c01_forget_checks"]++
	w.report(fails)
}

// agentCrashed runs at the quiescent instant of an agent kill, before the process is stopped.
func (o *w1Oracle) agentCrashed(w *w1World, inst *w1Inst, image string) {
	// what the crash model allows to lose: seconds whose first (recent) send is still outstanding and
	// that were not saved before sending, and seconds that never reached the wire or the disk
	onDisk := map[uint32]bool{}
	for _, t := range w1DiskSeconds(image, filepath.Join(w.dir, "scratch-read")) {
		onDisk[t] = true
	}
	w.mu.Lock()
	for call := range inst.calls {
		if call.kind == w1KindRecent && !onDisk[call.T] {
			o.crashLost[w1AT{inst.agent, call.T}] = true
		}
	}
	w.mu.Unlock()
	for at, gen := range o.marker {
		if at.a == inst.agent && gen == inst.gen && o.wire[at] == nil && !onDisk[at.T] {
			o.crashLost[at] = true // still in the agent's receive queue / preprocessor
		}
	}
	held := map[uint32]string{}
	for t := range onDisk {
		held[t] = "disk"
	}
	o.checkForgotten(w, inst, held, "agent_restart")
}

// agentStoppedGracefully runs at the quiescent instant at which a gracefully stopping agent process
// exits (after WaitPreprocessor). C01 (2) for a graceful stop: everything the process still buffered
// must be on its disk cache now, also the seconds that never reached the wire (FlushAllData saves the
// whole receive queue, not-yet-due seconds included). The one exception main() itself makes: a recent
// send still outstanding after WaitRecentSenders gave up (10 s) dies with the process, and its second is
// on disk only with SaveSecondsImmediately.
func (o *w1Oracle) agentStoppedGracefully(w *w1World, inst *w1Inst, image string) {
	onDisk := map[uint32]bool{}
	for _, t := range w1DiskSeconds(image, filepath.Join(w.dir, "scratch-read")) {
		onDisk[t] = true
	}
	nowUnix := uint32(time.Now().Unix())
	var fails []w1Fail
	w.mu.Lock()
	var inflight []uint32
	for call := range inst.calls {
		if call.kind == w1KindRecent && !onDisk[call.T] && !o.crashLost[w1AT{inst.agent, call.T}] {
			inflight = append(inflight, call.T)
		}
	}
	w.mu.Unlock()
	sort.Slice(inflight, func(i, j int) bool { return inflight[i] < inflight[j] })
	for _, t := range inflight {
		at := w1AT{inst.agent, t}
		if o.marker[at] == 0 {
			continue // no workload rows in that second
		}
		// The aggregator holds the request and normally stores it, but the exiting process forgets a
		// second nobody acknowledged: reported (recorded in known_findings.json, not repaired).
		w.r.Probes["second_unsaved_and_in_flight_when_graceful_exit_gave_up_waiting"]++
		fails = append(fails, w1Fail{"C01", "forgotten_without_ack", "agent_graceful_stop:recent_in_flight", fmt.Sprintf("agent%d g%d exits gracefully at %d while its recent send of second %d is still outstanding (WaitRecentSenders gave up) and the second is not on the disk cache: the process forgets it without an ack", inst.agent, inst.gen, nowUnix, t)})
		o.crashLost[at] = true
	}
	var ats []w1AT
	for at, gen := range o.marker {
		if at.a == inst.agent && gen == inst.gen {
			ats = append(ats, at)
		}
	}
	sort.Slice(ats, func(i, j int) bool { return ats[i].T < ats[j].T })
	future := 0
	for _, at := range ats {
		if onDisk[at.T] {
			o.handedOver[at] = true
			if at.T >= nowUnix {
				future++
			}
			continue
		}
		if o.wire[at] != nil || o.crashLost[at] {
			continue // crossed the wire: checkForgotten below
		}
		if w.mayAgeOut() && at.T+uint32(w.cfg.window) < nowUnix {
			w.r.Probes["second_dropped_outside_window"]++
			continue
		}
		fails = append(fails, w1Fail{"C01", "forgotten_without_ack", "agent_graceful_stop:never_sent", fmt.Sprintf("agent%d g%d exits gracefully at %d: second %d received workload events, never reached the wire and is not on the disk cache after FlushAllData/WaitPreprocessor", inst.agent, inst.gen, nowUnix, at.T)})
	}
	if future > 0 {
		w.r.Probes["graceful_stop_saved_seconds_not_yet_due"] += future
	}
	w.report(fails)
	if w.r.Failed() {
		return
	}
	held := map[uint32]string{}
	for t := range onDisk {
		held[t] = "disk"
	}
	o.checkForgotten(w, inst, held, "agent_graceful_stop")
}

// mayAgeOut: seconds can legitimately leave the historic window before they are inserted. In a run
// without faults nothing delays a second for long, so nothing may age out; faults can, and so can a
// graceful aggregator stop (up to 30 s of waiting for inserts plus 10 s for its connections, during which
// the requests it holds are not answered, then a restart with empty memory).
func (w *w1World) mayAgeOut() bool { return w.cfg.faulty || w.aggStops > 0 }

func (o *w1Oracle) excused(w *w1World, at w1AT, nowUnix uint32) bool {
	if o.crashLost[at] {
		return true
	}
	// Deliberately rejected as undecodable and the rejection reached the agent, which may then forget
	// the second: nobody holds it any more. Only that releases the second from the liveness clause: a
	// damaged request whose answer was lost (or that was answered "keep") leaves the agent retrying,
	// and the intact retry must end up stored like any other second.
	if o.corruptAcked[at] {
		return true
	}
	return w.mayAgeOut() && at.T+uint32(w.cfg.window) < nowUnix
}

// allStored: nothing more can be gained by draining further.
func (o *w1Oracle) allStored(w *w1World) bool {
	nowUnix := uint32(time.Now().Unix())
	for at := range o.marker {
		if o.storedAny[at] == 0 && !o.excused(w, at, nowUnix) {
			return false
		}
	}
	if !w.mayAgeOut() {
		for _, n := range o.slow {
			if n == 0 {
				return false
			}
		}
	}
	return true
}

func (o *w1Oracle) final(w *w1World) {
	// C01 (2) at the end of the run
	for _, inst := range w.insts {
		if inst != nil {
			o.checkForgotten(w, inst, w.heldSeconds(inst, inst.dir), "end_of_run")
		}
	}
	if w.r.Failed() {
		return
	}
	// C01 (3): liveness after faults_stop + drain
	nowUnix := uint32(time.Now().Unix())
	var fails []w1Fail
	var ats []w1AT
	for at := range o.marker {
		ats = append(ats, at)
	}
	sort.Slice(ats, func(i, j int) bool {
		if ats[i].T != ats[j].T {
			return ats[i].T < ats[j].T
		}
		return ats[i].a < ats[j].a
	})
	missing := 0
	for _, at := range ats {
		if o.storedAny[at] > 0 {
			w.r.Extra["c01_seconds_stored"]++
			continue
		}
		if o.excused(w, at, nowUnix) {
			w.r.Probes["second_legitimately_never_stored"]++
			if o.corruptAcked[at] {
				w.r.Probes["second_never_stored_after_undecodable_rejection"]++
				// legal: an earlier intact copy was refused with "keep" (late for the recent conveyor) or sat in a
				// bucket whose insert failed or whose replica died; the retry was then rejected as undecodable
				if o.intactDelivered[at] > 0 {
					w.r.Probes["never_stored_after_undecodable_rejection_although_intact_copy_delivered"]++
				}
				if o.intactAccepted[at] > 0 {
					w.r.Probes["never_stored_after_undecodable_rejection_although_intact_copy_accepted"]++
				}
			}
			continue
		}
		missing++
		if missing <= 3 {
			why := "it never reached the wire"
			if o.wire[at] != nil {
				why = fmt.Sprintf("it crossed the wire, acked=%v, copies delivered to aggregators: %d intact, %d damaged by the simulator", o.acked[at], o.intactDelivered[at], o.corruptSeen[at])
			}
			if o.partial[at] > 0 {
				why += fmt.Sprintf("; %d stored bodies hold its marker row but lack other rows of its payload", o.partial[at])
			}
			sig := "faulty"
			if !w.cfg.faulty {
				sig = "fault_free"
			}
			fails = append(fails, w1Fail{"C01", "not_stored_after_drain", sig, fmt.Sprintf("second %d of agent%d (second %d of the run) is in no stored insert body %d s after the workload ended and faults stopped (%s); window %d s, now %d",
				at.T, at.a, at.T-o.startUnix, nowUnix-o.startUnix-uint32(w.cfg.runLen), why, w.cfg.window, nowUnix)})
		}
	}
	// C01 (3) for the rows of the low-resolution metric, which wait in buckets up to a minute ahead of the
	// agent's clock (a graceful stop saves those buckets to the disk cache before they are due). Decided
	// in fault-free runs only, where nothing may be lost at all: graceful restarts and handler pauses are
	// no faults. Faulty runs only count.
	var slow []w1SlowKey
	for k, n := range o.slow {
		if n == 0 {
			slow = append(slow, k)
		} else {
			w.r.Extra["c01_low_resolution_rows_stored"]++
		}
	}
	sort.Slice(slow, func(i, j int) bool {
		if slow[i].seq != slow[j].seq {
			return slow[i].seq < slow[j].seq
		}
		return slow[i].a < slow[j].a
	})
	for i, k := range slow {
		if w.mayAgeOut() {
			w.r.Probes["low_resolution_row_never_stored_in_faulty_run"]++
			continue
		}
		if i < 3 {
			fails = append(fails, w1Fail{"C01", "not_stored_after_drain", "fault_free:low_resolution_row", fmt.Sprintf("the low-resolution (%d s) row agent%d reported in second %d of the run is in no stored insert body %d s after the workload ended, in a run without faults (graceful agent stops so far: %d)",
				w1SlowResolution, k.a, k.seq, nowUnix-o.startUnix-uint32(w.cfg.runLen), w.graceful)})
		}
	}
	w.report(fails)
	// C10 (ii): the two remaining replicas share spare traffic
	fails = nil
	for owner := 0; owner < 3; owner++ {
		per := map[int]int{}
		for _, rp := range o.spareSeen[owner] {
			per[rp]++
		}
		total := len(o.spareSeen[owner])
		if w.cfg.spareScenario && total == 0 && o.outage[owner] >= 30*time.Second {
			fails = append(fails, w1Fail{"C10", "no_spare_traffic", "outage", fmt.Sprintf("r%d was down for %v while both other replicas were undisturbed, but no second it owns was ever sent to a spare replica", owner+1, o.outage[owner].Round(time.Second))})
		}
		if total < 6 || !w.cfg.spareScenario {
			continue // the share is decided only where the two other replicas were never disturbed
		}
		w.r.Probes["c10_spare_share_checked"]++
		for rp := 0; rp < 3; rp++ {
			if rp != owner && per[rp]*4 < total {
				fails = append(fails, w1Fail{"C10", "spare_not_shared", "share", fmt.Sprintf("%d distinct seconds owned by r%d were sent as spare, but r%d received only %d of them", total, owner+1, rp+1, per[rp])})
			}
		}
	}
	w.report(fails)
}
