#!/bin/bash
# usage: tools/try_mutant.sh <patch.diff> <PROP> [extra check args...]
# Applies a patch to a scratch copy of /repo (HEAD working tree, no .git) and runs the check
# against it. Exit code is the check's. Scratch copy and its build dir are removed afterwards.
set -u
PATCH=$(readlink -f "$1"); PROP=$2; shift 2
ID=$$
SCR=/dev/shm/mut-$ID
mkdir -p $SCR
rsync -a --exclude .git --exclude statshouse-ui --exclude website --exclude grafana-plugin-ui /repo/ $SCR/repo/
( cd $SCR/repo && patch -p1 --no-backup-if-mismatch -s < "$PATCH" ) || { echo "PATCH FAILED"; rm -rf $SCR; exit 3; }
cd /verif
VERIF_REPO=$SCR/repo VERIF_BUILD=$SCR/build VERIF_NO_EVIDENCE=1 ./check $PROP "$@"
rc=$?
rm -rf $SCR
exit $rc
