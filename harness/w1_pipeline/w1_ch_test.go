//go:build verif

package aggregator

// W1, part "fake ClickHouse": an http.RoundTripper handed to the aggregator through the existing
// seam verifhook.SetOnTransport. No sockets. Bodies are RowBinary rows of statshouse_v3_incoming;
// the aggregate-state columns are decoded by the repository's own readers.

import (
	"bytes"
	"errors"
	"fmt"
	"io"
	"math"
	"net/http"
	"strings"
	"time"

	"github.com/ClickHouse/ch-go/proto"

	"github.com/VKCOM/statshouse/internal/chutil"
	"github.com/VKCOM/statshouse/internal/data_model"
	"github.com/VKCOM/statshouse/internal/format"
)

type w1Row struct {
	metric int32
	time   uint32
	tags   [format.MaxTags]int32
	stags  [format.MaxTags]string

	count, maxCount, min, max, sum, sumsq float64

	centroidWeight float64 // sum of centroid weights as the API-side decoder sees them
	centroids      int
	uniq           uint64 // ChUnique.Size(false) of the decoded state
	uniqItems      int
	uniqState      data_model.ChUnique // the decoded state, copied out of the column by value as the API's result callbacks do
	uniqWire       []byte              // that state re-marshalled right after its own block was decoded
	minHost        data_model.ArgMinStringFloat32
	maxHost        data_model.ArgMaxStringFloat32
	maxCountHost   data_model.ArgMaxStringFloat32
}

// key of a row as the property states it: (time, metric, tags, string-top)
func (r *w1Row) key() string {
	var sb strings.Builder
	fmt.Fprintf(&sb, "%d/%d", r.time, r.metric)
	for i := 0; i < format.MaxTags; i++ {
		if r.tags[i] != 0 || r.stags[i] != "" {
			fmt.Fprintf(&sb, "/%d=%d:%q", i, r.tags[i], r.stags[i])
		}
	}
	return sb.String()
}

type w1Body struct {
	rows     []w1Row     // rows of the workload metrics only
	rowCount int         // all rows
	sampled  []int32     // workload metrics for which the aggregator reported an insert sampling factor
	slow     []w1SlowKey // rows of the low-resolution metric
	parseErr string
	// uniqChanged: key of a row whose retained uniq state no longer marshals to the bytes it marshalled to
	// right after its block was decoded, i.e. decoding a later block changed a state handed out earlier
	uniqChanged string
}

// w1ParseBody walks the RowBinary body column by column in the order of getTableDesc().
func w1ParseBody(body []byte) w1Body {
	var out w1Body
	r := proto.NewReader(bytes.NewReader(body))
	fail := func(what string, err error) w1Body {
		out.parseErr = fmt.Sprintf("row %d: %s: %v", out.rowCount, what, err)
		return out
	}
	var argBuf []byte
	var td chutil.ColTDigest // reused across rows: the decoder resets and refills its digest
	var uq chutil.ColUnique
	for {
		it, err := r.ReadByte()     // index_type
		if errors.Is(err, io.EOF) { // clean end: no byte of a next row
			for i := range out.rows {
				row := &out.rows[i]
				if row.uniqWire != nil && !bytes.Equal(row.uniqState.MarshallAppend(nil), row.uniqWire) && out.uniqChanged == "" {
					out.uniqChanged = row.key()
				}
				row.uniq, row.uniqItems = row.uniqState.Size(false), row.uniqState.ItemsCount()
			}
			return out
		}
		if err != nil {
			return fail("index_type", err)
		}
		if it != 0 {
			return fail("index_type", fmt.Errorf("unexpected value %d", it))
		}
		var row w1Row
		if row.metric, err = r.Int32(); err != nil {
			return fail("metric", err)
		}
		if row.time, err = r.UInt32(); err != nil {
			return fail("time", err)
		}
		for i := 0; i < format.MaxTags; i++ {
			if row.tags[i], err = r.Int32(); err != nil {
				return fail(fmt.Sprintf("tag%d", i), err)
			}
			if row.stags[i], err = r.Str(); err != nil {
				return fail(fmt.Sprintf("stag%d", i), err)
			}
		}
		for _, p := range []*float64{&row.count, &row.maxCount, &row.min, &row.max, &row.sum, &row.sumsq} {
			if *p, err = r.Float64(); err != nil {
				return fail("aggregates", err)
			}
		}
		if err = td.DecodeColumn(r, 1); err != nil {
			return fail("percentiles", err)
		}
		for _, c := range td[0].Centroids() {
			row.centroidWeight += c.Weight
			row.centroids++
		}
		// the uniq column is driven the way ch-go drives it for a SELECT result that arrives in several
		// blocks (here: one block per row): Reset, then DecodeColumn; the row keeps its element by value
		uq.Reset()
		if err = uq.DecodeColumn(r, 1); err != nil {
			return fail("uniq_state", err)
		}
		row.uniqState = uq[0]
		if row.uniqState.ItemsCount() != 0 {
			row.uniqWire = row.uniqState.MarshallAppend(nil)
		}
		if argBuf, err = row.minHost.ReadFrom(r, argBuf); err != nil {
			return fail("min_host", err)
		}
		if argBuf, err = row.maxHost.ReadFrom(r, argBuf); err != nil {
			return fail("max_host", err)
		}
		if argBuf, err = row.maxCountHost.ReadFrom(r, argBuf); err != nil {
			return fail("max_count_host", err)
		}
		out.rowCount++
		if w1IsWorkloadMetric(row.metric) {
			out.rows = append(out.rows, row)
		}
		if row.metric == w1MetricSlow {
			out.slow = append(out.slow, w1SlowKey{int(row.tags[1]) - 1, row.tags[4]})
		}
		if row.metric == format.BuiltinMetricIDAggSamplingFactor && w1IsWorkloadMetric(row.tags[4]) {
			out.sampled = append(out.sampled, row.tags[4])
		}
	}
}

const (
	w1FateStored = iota
	w1Fate500
	w1FateStall
	w1FateStoredLost
	w1FateSlowStored
	w1FateFenced
	w1FateCancelled
)

var w1FateNames = [...]string{"stored", "http500", "stall", "stored_response_lost", "slow_stored", "fenced", "cancelled"}

type w1Transport struct{ w *w1World }

func (t *w1Transport) RoundTrip(req *http.Request) (*http.Response, error) {
	w := t.w
	var idx, gen int
	if _, err := fmt.Sscanf(req.URL.Host, "ch-r%d-g%d:8123", &idx, &gen); err != nil {
		return nil, fmt.Errorf("w1 fake clickhouse: unknown host %q", req.URL.Host)
	}
	idx--
	var body []byte
	if req.Body != nil {
		body, _ = io.ReadAll(req.Body)
		_ = req.Body.Close()
	}
	query := req.URL.Query().Get("query")
	if !strings.Contains(query, "statshouse_v3_incoming(") || !strings.Contains(query, "FORMAT RowBinary") {
		return nil, fmt.Errorf("w1 fake clickhouse: unexpected query %q", query)
	}
	now := time.Now()
	parsed := w1ParseBody(body)

	w.mu.Lock()
	rep := w.reps[idx]
	if rep.gen != gen || !rep.up {
		w.mu.Unlock()
		return nil, errors.New("w1 fake clickhouse: this aggregator process does not exist any more")
	}
	sec := uint32(now.Unix())
	if rep.chSec != sec {
		rep.chSec, rep.chSeq = sec, 0
	}
	seq := rep.chSeq
	rep.chSeq++
	fate := w1FateStored
	f := w.cfg.faults
	if w.faultsOn {
		x := int(w.c.Keyed(1000, w1SaltCH, uint64(idx), uint64(gen), uint64(sec), uint64(seq)))
		switch {
		case x < f.chFail:
			fate = w1Fate500
		case x < f.chFail+f.chStall:
			fate = w1FateStall
		case x < f.chFail+f.chStall+f.chLost:
			fate = w1FateStoredLost
		case x < f.chFail+f.chStall+f.chLost+f.chSlow:
			fate = w1FateSlowStored
		}
	}
	slow := time.Duration(100+w.c.Keyed(2900, w1SaltCHAmt, uint64(idx), uint64(gen), uint64(sec), uint64(seq))) * time.Millisecond
	healed := w.healed
	var armed time.Duration
	if fate == w1FateStored && rep.armSlow > 0 { // scheduling device of a graceful aggregator stop, not a fault
		armed, rep.armSlow, rep.slowTaken = rep.armSlow, 0, true
	}
	w.mu.Unlock()

	record := func(fate int, stored bool) {
		w.mu.Lock()
		if fate != w1FateStored {
			w.faultLocked("ch_" + w1FateNames[fate])
		}
		w.recLocked(w1Rec{typ: w1RecCH, replica: idx, repGen: gen, fate: fate, stored: stored, body: &parsed, at: now, bodyLen: len(body)})
		w.mu.Unlock()
	}
	okResp := func() *http.Response {
		return &http.Response{StatusCode: http.StatusOK, Status: "200 OK", Proto: "HTTP/1.1", ProtoMajor: 1, ProtoMinor: 1,
			Header: http.Header{}, Body: io.NopCloser(strings.NewReader("")), Request: req}
	}
	switch fate {
	case w1Fate500:
		record(fate, false)
		if (uint64(sec)+uint64(seq)+uint64(idx))%3 == 0 {
			// not ClickHouse itself but a proxy in front of it: 502 without the exception header
			return &http.Response{StatusCode: http.StatusBadGateway, Status: "502 Bad Gateway", Proto: "HTTP/1.1", ProtoMajor: 1, ProtoMinor: 1,
				Header: http.Header{}, Body: io.NopCloser(strings.NewReader("<html>502 Bad Gateway (w1 fake proxy)</html>")), Request: req}, nil
		}
		h := http.Header{}
		h.Set("X-ClickHouse-Exception-Code", "241")
		return &http.Response{StatusCode: http.StatusInternalServerError, Status: "500 Internal Server Error", Proto: "HTTP/1.1", ProtoMajor: 1, ProtoMinor: 1,
			Header: h, Body: io.NopCloser(strings.NewReader("Code: 241. DB::Exception: Memory limit (total) exceeded (w1 fake clickhouse)")), Request: req}, nil
	case w1FateStall:
		select {
		case <-req.Context().Done():
		case <-healed:
		}
		record(fate, false)
		if err := req.Context().Err(); err != nil {
			return nil, err
		}
		return nil, errors.New("w1 fake clickhouse: connection reset by peer")
	case w1FateStoredLost:
		record(fate, true)
		return nil, errors.New("w1 fake clickhouse: connection reset by peer after the insert was applied")
	case w1FateSlowStored:
		select {
		case <-req.Context().Done():
			record(w1FateCancelled, false)
			return nil, req.Context().Err()
		case <-time.After(slow):
		}
		w.mu.Lock()
		alive := w.reps[idx].gen == gen && w.reps[idx].up
		w.mu.Unlock()
		if !alive {
			return nil, errors.New("w1 fake clickhouse: this aggregator process does not exist any more")
		}
		record(fate, true)
		return okResp(), nil
	}
	if armed > 0 {
		select {
		case <-req.Context().Done():
			record(w1FateCancelled, false)
			return nil, req.Context().Err()
		case <-time.After(armed):
		}
		w.mu.Lock()
		alive := w.reps[idx].gen == gen && w.reps[idx].up
		w.mu.Unlock()
		if !alive {
			return nil, errors.New("w1 fake clickhouse: this aggregator process does not exist any more")
		}
	}
	if w.cfg.chLatency {
		// not a fault: an insert takes a little time (1-50 ms and a sub-millisecond part that keeps its end
		// off every grid), during which the inserter holds the buckets it took
		lat := time.Duration(1+w.c.Keyed(50, w1SaltCHAmt+1000, uint64(idx), uint64(gen), uint64(sec), uint64(seq)))*time.Millisecond +
			time.Duration(2*(1+w.c.Keyed(400000, w1SaltCHAmt+2000, uint64(idx), uint64(gen), uint64(sec), uint64(seq))))
		select {
		case <-req.Context().Done():
			record(w1FateCancelled, false)
			return nil, req.Context().Err()
		case <-time.After(lat):
		}
		w.mu.Lock()
		alive := w.reps[idx].gen == gen && w.reps[idx].up
		w.mu.Unlock()
		if !alive {
			return nil, errors.New("w1 fake clickhouse: this aggregator process does not exist any more")
		}
	}
	record(w1FateStored, true)
	return okResp(), nil
}

func w1IsInt(v float64) bool { return v == math.Trunc(v) }
