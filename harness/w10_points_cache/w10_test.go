//go:build verif

package api

// W10: API points cache (property C24).
// Real: pointsCache (get / loadCached / invalidate / evictLocked) and invalidatedSecondsCache
// (hierarchical invalidation map with its garbage collection).
// Simulated: the clock (constructor argument `now`) and the loader (constructor argument):
// every getter is a goroutine that the scheduler runs alone and that parks inside the loader,
// so the scheduler decides what happens between "load started" and "rows stored".
// No bubble: each hand-over between scheduler and getter is a synchronous channel hand-shake,
// exactly one goroutine runs at any moment.

import (
	"context"
	"errors"
	"fmt"
	"sort"
	"testing"
	"time"

	"github.com/VKCOM/statshouse/internal/data_model"
	"github.com/VKCOM/statshouse/internal/verifsim"
)

type w10Range struct{ from, to int64 } // seconds, to exclusive (data_model.LOD)

type w10Load struct {
	id       int
	key, rng int
	avoid    bool
	startClk int64 // clock value when the getter entered the loader (== value get() read)
	startSeq uint64
	nrows    int
	finished bool
	failed   bool
	endSeq   uint64
}

type w10Inv struct {
	sec int64
	at  int64 // clock value of the invalidate call
	seq uint64
}

type w10Task struct {
	id       int
	key, rng int
	avoid    bool
	peek     int // load id found in the cache for (key,rng) just before the get, -1 none
	load     *w10Load
	resume   chan w10LoadResult
	rows     []pSelectRow
	err      error
	panicked string
	startSeq uint64
	startClk int64
}

type w10LoadResult struct {
	rows []pSelectRow
	err  error
}

type w10Msg struct {
	task *w10Task
	done bool // false: entered the loader
}

type w10CtxKey struct{}

var errW10Load = errors.New("simulated storage error")

type w10World struct {
	r *verifsim.Run
	c *verifsim.Choices

	cache *pointsCache
	h     *requestHandler
	qs    []*queryBuilder

	now     int64 // simulated clock, unix nanos
	maxNow  int64
	now0    int64
	usedLRU map[int64]bool

	bound     int
	maxRows   int
	clockBack bool
	faulty    bool
	ranges    []w10Range

	evCh   chan w10Msg
	loads  []*w10Load
	invs   []w10Inv
	parked []*w10Task
	nextT  int
}

func (w *w10World) clock() time.Time { return time.Unix(0, w.now) }

// lruTick makes sure that every instant at which the cache may stamp an LRU value is used once,
// so that the eviction victim (minimum LRU) does not depend on map iteration order.
func (w *w10World) lruTick() {
	for w.usedLRU[w.now] {
		w.now++
	}
	w.usedLRU[w.now] = true
	if w.now > w.maxNow {
		w.maxNow = w.now
	}
}

func (w *w10World) loader(ctx context.Context, _ *requestHandler, _ *queryBuilder, _ data_model.LOD) ([]pSelectRow, error) {
	t := ctx.Value(w10CtxKey{}).(*w10Task)
	w.evCh <- w10Msg{task: t}
	res := <-t.resume
	return res.rows, res.err
}

// peekCached reads the cache map directly (the scheduler runs alone: no getter is active).
func (w *w10World) peekCached(key, rng int) int {
	w.cache.cacheMu.RLock()
	defer w.cache.cacheMu.RUnlock()
	e, ok := w.cache.cache[w.qs[key].cacheKey]
	if !ok {
		return -1
	}
	cr, ok := e.rows[timeRange{from: w.ranges[rng].from, to: w.ranges[rng].to}]
	if !ok || len(cr.rows) == 0 {
		return -1
	}
	return int(cr.rows[0].count)
}

func (w *w10World) heldRows() (rows, ranges, keys int) {
	w.cache.cacheMu.RLock()
	defer w.cache.cacheMu.RUnlock()
	for _, e := range w.cache.cache {
		keys++
		for _, cr := range e.rows {
			ranges++
			rows += len(cr.rows)
		}
	}
	return
}

// inWindow: is second s inside the mutable window as of the latest clock value seen.
// invalidateFrom (the width of the mutable window) is the repository's definition of the window
// (used by handler.go for "immutable" as well); it is referenced by name, not copied.
func (w *w10World) inWindow(s int64) bool {
	b := time.Unix(0, w.maxNow).Add(invalidateFrom)
	if w.clockBack {
		// clock fault: a second that once left the window (as seen by any earlier clock value,
		// at the granularity of the coarsest invalidation bucket) is outside it for good
		b = b.Add(time.Hour)
	}
	return !time.Unix(s, 0).Before(b)
}

// staleFor reports an invalidation that makes serving load l for range rg illegal now.
func (w *w10World) staleFor(l *w10Load, rg w10Range) (bad *w10Inv, outside int, before int) {
	for i := range w.invs {
		iv := &w.invs[i]
		if iv.sec < rg.from || iv.sec >= rg.to {
			continue
		}
		if iv.at >= l.startClk {
			if w.inWindow(iv.sec) {
				if bad == nil {
					bad = iv
				}
			} else {
				outside++
			}
		} else if w.inWindow(iv.sec) {
			before++
		}
	}
	return
}

func (w *w10World) startGet() {
	r, c := w.r, w.c
	key := c.Intn(len(w.qs), "key")
	rng := c.Intn(len(w.ranges), "range")
	avoid := c.Intn(8, "avoid_cache") == 7
	w.lruTick()
	t := &w10Task{id: w.nextT, key: key, rng: rng, avoid: avoid, resume: make(chan w10LoadResult), startClk: w.now}
	w.nextT++
	t.peek = w.peekCached(key, rng)
	t.startSeq = r.Seq()
	r.Sched("get", fmt.Sprintf("g%d", len(w.parked)))
	rg := w.ranges[rng]
	lod := data_model.LOD{FromSec: rg.from, ToSec: rg.to, StepSec: 1}
	ctx := context.WithValue(context.Background(), w10CtxKey{}, t)
	go func() {
		defer func() {
			if p := recover(); p != nil {
				t.panicked = fmt.Sprint(p)
			}
			w.evCh <- w10Msg{task: t, done: true}
		}()
		t.rows, t.err = w.cache.get(ctx, w.h, w.qs[key], lod, avoid)
	}()
	m := <-w.evCh
	if m.task != t {
		panic("w10: hand-shake out of order")
	}
	if !m.done {
		l := &w10Load{id: len(w.loads), key: key, rng: rng, avoid: avoid, startClk: w.now, startSeq: r.Seq()}
		w.loads = append(w.loads, l)
		t.load = l
		w.parked = append(w.parked, t)
		r.Event("get", "#%d key=%d range=%d avoid=%v cached=%d -> load %d started at +%dns", t.id, key, rng, avoid, t.peek, l.id, w.now-w.now0)
		w.judgeMiss(t)
		return
	}
	// returned without calling the loader: served from the cache
	w.judgeHit(t)
}

func (w *w10World) judgeMiss(t *w10Task) {
	r := w.r
	if t.avoid || t.peek < 0 {
		return
	}
	l := w.loads[t.peek]
	bad, _, before := w.staleFor(l, w.ranges[t.rng])
	switch {
	case bad != nil && bad.seq < l.endSeq:
		r.Probe("reloaded_invalidated_during_load")
	case bad != nil:
		r.Probe("reloaded_invalidated_after_store")
	case before > 0:
		r.Probe("reloaded_within_replication_linger")
	default:
		r.Probe("reloaded_without_relevant_invalidation")
	}
}

func (w *w10World) judgeHit(t *w10Task) {
	r := w.r
	rg := w.ranges[t.rng]
	if t.panicked != "" {
		r.Fail("C24", "panic", "get", "get panicked: %s", t.panicked)
		return
	}
	if t.avoid {
		r.Fail("C24", "avoid_cache_served", "avoid", "get #%d with avoidCache returned without calling the loader", t.id)
		return
	}
	if t.err != nil {
		r.Fail("C24", "hit_error", "hit", "get #%d returned error %v without calling the loader", t.id, t.err)
		return
	}
	if len(t.rows) == 0 {
		r.Fail("C24", "served_as_loaded", "empty", "get #%d served 0 rows from the cache; no load produces 0 rows", t.id)
		return
	}
	id := int(t.rows[0].count)
	if id < 0 || id >= len(w.loads) {
		r.Fail("C24", "served_as_loaded", "unknown-load", "get #%d served rows of unknown load %d", t.id, id)
		return
	}
	l := w.loads[id]
	ok := l.finished && !l.failed && !l.avoid && l.key == t.key && l.rng == t.rng && len(t.rows) == l.nrows
	for _, row := range t.rows {
		if int(row.count) != id || row.tag[0] != int64(l.key) || row.tag[1] != int64(l.rng) {
			ok = false
		}
	}
	if !ok {
		r.Fail("C24", "served_as_loaded", "foreign-rows", "get #%d key=%d range=%d served %d rows of load %d (key=%d range=%d rows=%d finished=%v failed=%v avoid=%v)",
			t.id, t.key, t.rng, len(t.rows), id, l.key, l.rng, l.nrows, l.finished, l.failed, l.avoid)
		return
	}
	bad, outside, before := w.staleFor(l, rg)
	r.Event("get", "#%d key=%d range=%d -> served from cache: load %d (started +%dns)", t.id, t.key, t.rng, id, l.startClk-w.now0)
	r.Probe("served_from_cache")
	if bad != nil {
		sig := "invalidated_after_store"
		if bad.seq < l.endSeq {
			sig = "invalidated_during_load"
		}
		r.Fail("C24", "stale_served", sig,
			"get #%d at clock +%dns served range [%d,%d) of query %d from load %d that started at +%dns, but second %d (inside the mutable window) was invalidated at +%dns, i.e. at or after the load start",
			t.id, w.now-w.now0, rg.from, rg.to, t.key, id, l.startClk-w.now0, bad.sec, bad.at-w.now0)
		return
	}
	if outside > 0 {
		r.Probe("served_outside_window_despite_later_invalidation")
	}
	if before > 0 {
		r.Probe("served_after_linger_passed")
	}
	if !w.inWindow(rg.to - 1) {
		r.Probe("served_range_wholly_outside_window")
	} else if !w.inWindow(rg.from) {
		r.Probe("served_range_straddling_window_edge")
	}
}

func (w *w10World) finishLoad(idx int, fail bool) {
	r := w.r
	t := w.parked[idx]
	w.parked = append(w.parked[:idx], w.parked[idx+1:]...)
	l := t.load
	w.lruTick()
	n := 1 + w.c.Intn(w.maxRows, "rows")
	var res w10LoadResult
	if fail {
		res.err = errW10Load
		r.Fault("load_error")
	} else {
		res.rows = make([]pSelectRow, n)
		for i := range res.rows {
			res.rows[i].tag[0] = int64(l.key)
			res.rows[i].tag[1] = int64(l.rng)
			res.rows[i].tag[2] = int64(i)
			res.rows[i].count = float64(l.id)
		}
		l.nrows = n
	}
	r.Sched("finish", fmt.Sprintf("g%d", idx))
	before := w.peekCached(t.key, t.rng)
	t.resume <- res
	m := <-w.evCh
	if m.task != t || !m.done {
		r.Fail("C24", "loader_called_twice", "get", "get #%d called the loader a second time", t.id)
		return
	}
	l.finished, l.failed, l.endSeq = true, fail, r.Seq()
	r.Event("load", "%d of get #%d finished fail=%v rows=%d at +%dns", l.id, t.id, fail, l.nrows, w.now-w.now0)
	if t.panicked != "" {
		r.Fail("C24", "panic", "get", "get panicked: %s", t.panicked)
		return
	}
	after := w.peekCached(t.key, t.rng)
	if fail {
		if t.err == nil {
			r.Fail("C24", "error_swallowed", "load-error", "loader of get #%d failed but get returned nil error and %d rows", t.id, len(t.rows))
			return
		}
		if after != before {
			r.Fail("C24", "served_as_loaded", "failed-load-cached", "failed load %d changed the cached rows of its range (%d -> %d)", l.id, before, after)
		}
		return
	}
	if t.err != nil {
		r.Fail("C24", "spurious_error", "load-ok", "loader of get #%d succeeded but get returned %v", t.id, t.err)
		return
	}
	if len(t.rows) != n || int(t.rows[0].count) != l.id {
		r.Fail("C24", "reload_result", "load-ok", "get #%d reloaded (load %d, %d rows) but returned %d rows of load %d", t.id, l.id, n, len(t.rows), int(t.rows[0].count))
		return
	}
	if t.avoid {
		if after != before {
			r.Fail("C24", "served_as_loaded", "avoid-cache-stored", "avoidCache load %d changed the cached rows of its range (%d -> %d)", l.id, before, after)
		}
		return
	}
	// size bound: rows held never exceed the bound by more than the rows of the entry just stored
	rows, ranges, keys := w.heldRows()
	r.Event("cache", "holds rows=%d ranges=%d keys=%d", rows, ranges, keys)
	if rows > w.bound+n {
		r.Fail("C24", "size_bound", "rows", "after storing %d rows the cache holds %d rows in %d ranges of %d queries; configured bound is %d", n, rows, ranges, keys, w.bound)
		return
	}
	if after != l.id {
		r.Probe("stored_then_evicted_or_not_stored")
	}
	if before >= 0 && after != before && w.loads[before].startClk > l.startClk {
		r.Probe("older_load_overwrote_newer")
	}
	if rows+ranges+keys >= w.bound {
		r.Probe("cache_at_bound")
	}
}

func (w *w10World) invalidate() {
	r, c := w.r, w.c
	n := 1 + c.Intn(3, "inv_count")
	secs := make([]int64, 0, n)
	for i := 0; i < n; i++ {
		rg := w.ranges[c.Intn(len(w.ranges), "inv_range")]
		var s int64
		switch c.Intn(8, "inv_pos") {
		case 0:
			s = rg.from + (rg.to-rg.from)/2
		case 1:
			s = rg.from
		case 2:
			s = rg.to - 1
		case 3:
			s = rg.from + int64(c.Intn(int(rg.to-rg.from), "inv_off"))
		case 4:
			s = rg.from - 1 // just outside: must not matter
		case 5:
			s = rg.to // exclusive end: outside
		case 6: // an hour boundary inside the range if there is one
			s = roundTime(rg.from+3600, 3600, w.cache.invalidatedAtNano.utcOffset)
			if s >= rg.to {
				s = rg.to - 1
			}
		default: // a minute boundary inside the range if there is one
			s = roundTime(rg.from+60, 60, w.cache.invalidatedAtNano.utcOffset)
			if s >= rg.to {
				s = rg.to - 1
			}
		}
		secs = append(secs, s)
	}
	r.Sched("invalidate", "inv")
	func() {
		defer func() {
			if p := recover(); p != nil {
				r.Fail("C24", "panic", "invalidate", "invalidate panicked: %v", p)
			}
		}()
		w.cache.invalidate(secs)
	}()
	seq := r.Seq()
	for _, s := range secs {
		w.invs = append(w.invs, w10Inv{sec: s, at: w.now, seq: seq})
	}
	r.Event("inv", "seconds=%v at +%dns parked_loads=%d", secs, w.now-w.now0, len(w.parked))
	if len(w.parked) > 0 {
		r.Probe("invalidate_while_load_in_flight")
	}
}

var w10Steps = []time.Duration{time.Second, 0, 1, time.Millisecond, 14 * time.Second, 16 * time.Second, 61 * time.Second, 3 * time.Second, time.Hour, 5 * time.Minute, 13 * time.Hour, 20 * time.Second}
var w10Back = []time.Duration{-time.Second, -20 * time.Second, -2 * time.Hour}

func (w *w10World) stepClock() {
	r, c := w.r, w.c
	var d time.Duration
	if w.clockBack && c.Intn(4, "clock_dir") == 3 {
		d = w10Back[c.Intn(len(w10Back), "clock_back")]
		r.Fault("clock_backward")
	} else {
		d = w10Steps[c.Intn(len(w10Steps), "clock_step")]
	}
	w.now += int64(d)
	if w.now > w.maxNow {
		w.maxNow = w.now
	}
	r.Sched("clock", "clock")
	r.Event("clock", "%+d ns -> +%dns", int64(d), w.now-w.now0)
}

func w10Exec(t *testing.T, r *verifsim.Run) {
	c := r.C
	w := &w10World{r: r, c: c, usedLRU: map[int64]bool{}, evCh: make(chan w10Msg)}
	// ---- configuration of this run (swarm)
	nKeys := 1 + c.Intn(4, "keys")
	w.bound = []int{1000000, 40, 12, 4, 1}[c.Intn(5, "bound")]
	w.maxRows = []int{3, 1, 10, 30}[c.Intn(4, "max_rows")]
	utc := []int64{0, 3 * 3600, -5*3600 - 1800, 20700}[c.Intn(4, "utc_offset")]
	mode := c.Intn(3, "faults") // 0: none, 1: load errors, 2: load errors + backward clock steps
	w.faulty = mode >= 1
	w.clockBack = mode == 2
	conc := 1 + c.Intn(4, "concurrency")
	opsSpan := 60
	if r.Tier == "thorough" {
		opsSpan = 180 // longer histories: more clock travel, eviction churn, map garbage collection
	}
	ops := 12 + c.Intn(opsSpan, "ops")
	w.now0 = 1_700_000_000*int64(time.Second) + int64(c.Intn(3600, "now_sec"))*int64(time.Second) +
		[]int64{0, 1, 500_000_000, 999_999_999}[c.Intn(4, "now_frac")]
	w.now, w.maxNow = w.now0, w.now0
	nowSec := w.now0 / int64(time.Second)
	nRanges := 1 + c.Intn(5, "ranges")
	backs := []int64{600, 30, 2 * 3600, 26 * 3600, 47*3600 + 1800, 48*3600 - 30, 48 * 3600, 49 * 3600, 60 * 3600, 100 * 3600}
	lens := []int64{30, 1, 5, 59, 61, 300, 3599, 3601, 7300, 30000, 200000}
	for i := 0; i < nRanges; i++ {
		back := backs[c.Intn(len(backs), "range_back")]
		ln := lens[c.Intn(len(lens), "range_len")]
		from := nowSec - back - int64(c.Intn(3600, "range_jitter"))
		dup := false
		for _, x := range w.ranges {
			dup = dup || x == (w10Range{from, from + ln})
		}
		if !dup { // two pool entries must be different ranges: servings are attributed by range index
			w.ranges = append(w.ranges, w10Range{from, from + ln})
		}
	}
	r.Config["keys"] = nKeys
	r.Config["bound"] = w.bound
	r.Config["max_rows"] = w.maxRows
	r.Config["utc_offset"] = utc
	r.Config["faults"] = mode
	r.Config["concurrency"] = conc
	r.Config["ops"] = ops
	rs := make([]string, len(w.ranges))
	for i, rg := range w.ranges {
		rs[i] = fmt.Sprintf("now%+d..%+d", rg.from-nowSec, rg.to-nowSec)
	}
	r.Config["ranges"] = rs
	for i := 0; i < nKeys; i++ {
		w.qs = append(w.qs, &queryBuilder{cacheKey: fmt.Sprintf("q%d", i)})
	}
	w.h = &requestHandler{Handler: &Handler{}}
	w.cache = newPointsCache(w.bound, utc, w.loader, w.clock)
	defer func() { r.SimNanos = w.maxNow - w.now0 }()

	// ---- the schedule
	for op := 0; op < ops && !r.Failed(); op++ {
		// enabled actions; index 0 is the benign continuation
		type act struct {
			kind string
			idx  int
		}
		var acts []act
		for i := range w.parked {
			acts = append(acts, act{"finish", i})
		}
		if len(w.parked) < conc {
			acts = append(acts, act{"get", 0})
		}
		acts = append(acts, act{"inv", 0}, act{"clock", 0})
		if len(w.parked) < conc {
			acts = append(acts, act{"get", 0}) // gets are the most frequent action
		}
		a := acts[c.Intn(len(acts), "action")]
		switch a.kind {
		case "finish":
			fail := w.faulty && c.Intn(6, "load_fails") == 5
			w.finishLoad(a.idx, fail)
		case "get":
			w.startGet()
		case "inv":
			w.invalidate()
		case "clock":
			w.stepClock()
		}
	}
	// ---- wind down: every getter returns
	for len(w.parked) > 0 {
		if r.Failed() {
			// still let the goroutines go
			t := w.parked[0]
			w.parked = w.parked[1:]
			t.resume <- w10LoadResult{err: errW10Load}
			<-w.evCh
			continue
		}
		w.finishLoad(0, false)
	}
	if r.Failed() {
		return
	}
	// final sweep: one sequential get per (query, range), judged like any other
	type kr struct{ k, r int }
	var all []kr
	for k := range w.qs {
		for g := range w.ranges {
			all = append(all, kr{k, g})
		}
	}
	sort.Slice(all, func(i, j int) bool { return all[i].k*100+all[i].r < all[j].k*100+all[j].r })
	for _, x := range all {
		if r.Failed() {
			break
		}
		w.sweepGet(x.k, x.r)
	}
	for len(w.parked) > 0 {
		t := w.parked[0]
		w.parked = w.parked[1:]
		t.resume <- w10LoadResult{err: errW10Load}
		<-w.evCh
	}
}

// sweepGet is startGet with fixed arguments; a miss is completed immediately.
func (w *w10World) sweepGet(key, rng int) {
	r := w.r
	w.lruTick()
	t := &w10Task{id: w.nextT, key: key, rng: rng, resume: make(chan w10LoadResult), startClk: w.now}
	w.nextT++
	t.peek = w.peekCached(key, rng)
	t.startSeq = r.Seq()
	rg := w.ranges[rng]
	lod := data_model.LOD{FromSec: rg.from, ToSec: rg.to, StepSec: 1}
	ctx := context.WithValue(context.Background(), w10CtxKey{}, t)
	go func() {
		defer func() {
			if p := recover(); p != nil {
				t.panicked = fmt.Sprint(p)
			}
			w.evCh <- w10Msg{task: t, done: true}
		}()
		t.rows, t.err = w.cache.get(ctx, w.h, w.qs[key], lod, false)
	}()
	m := <-w.evCh
	if !m.done {
		l := &w10Load{id: len(w.loads), key: key, rng: rng, startClk: w.now, startSeq: r.Seq()}
		w.loads = append(w.loads, l)
		t.load = l
		w.parked = append(w.parked, t)
		r.Event("sweep", "#%d key=%d range=%d cached=%d -> load %d", t.id, key, rng, t.peek, l.id)
		w.judgeMiss(t)
		w.finishLoad(len(w.parked)-1, false)
		return
	}
	w.judgeHit(t)
}

func TestVerifW10(t *testing.T) {
	verifsim.Main(t, &verifsim.World{Name: "w10_points_cache", Props: []string{"C24"}, Exec: w10Exec})
}
