package verifsim

import (
	"fmt"
	"hash/fnv"
	"runtime/debug"
	"sort"
)

// Violation is an oracle failure. Clause names the oracle clause (stable id used for
// minimisation and for known-finding matching); Sig is a short stable description of the
// specific failing pattern (operation kinds, not seeds or ids); Detail is free text.
type Violation struct {
	Property string `json:"property"`
	Clause   string `json:"clause"`
	Sig      string `json:"sig"`
	Detail   string `json:"detail"`
}

func (v *Violation) Error() string {
	return fmt.Sprintf("%s/%s [%s]: %s", v.Property, v.Clause, v.Sig, v.Detail)
}

// Run is the per-execution context handed to a world.
type Run struct {
	C    *Choices
	Prop string // the property this invocation decides
	Tier string

	events    []string
	logHash   uint64
	schedHash uint64
	seq       uint64

	Faults     map[string]int
	Probes     map[string]int
	Steps      int
	SimNanos   int64
	Actors     map[string]bool
	Nontrivial bool
	Config     map[string]any
	Extra      map[string]int // world specific counters (crash images, ops, ...)

	viol *Violation
	Live bool // print events as they happen (debugging)
	// Quiet disables keeping event text (hash still computed) – used during minimisation.
	Quiet bool
}

func newRun(c *Choices, prop, tier string) *Run {
	return &Run{C: c, Prop: prop, Tier: tier, Faults: map[string]int{}, Probes: map[string]int{},
		Actors: map[string]bool{}, Config: map[string]any{}, Extra: map[string]int{},
		logHash: 1469598103934665603, schedHash: 1469598103934665603}
}

func fold(h uint64, s string) uint64 {
	f := fnv.New64a()
	var b [8]byte
	for i := 0; i < 8; i++ {
		b[i] = byte(h >> (8 * i))
	}
	f.Write(b[:])
	f.Write([]byte(s))
	return f.Sum64()
}

// Seq returns the next global event sequence number (total order of simulator events).
func (r *Run) Seq() uint64 { r.seq++; return r.seq }

// Event appends to the event log. No PRNG draws, no wall clock.
func (r *Run) Event(actor string, format string, args ...any) {
	s := fmt.Sprintf("%d %s ", r.Seq(), actor) + fmt.Sprintf(format, args...)
	r.logHash = fold(r.logHash, s)
	if r.Live {
		fmt.Println("   ", s)
	}
	if !r.Quiet || len(r.events) < 200 {
		r.events = append(r.events, s)
	}
}

// Sched folds one scheduling decision (action kind, actor) into the schedule signature.
func (r *Run) Sched(kind, actor string) {
	r.Steps++
	r.schedHash = fold(r.schedHash, kind+"/"+actor)
	r.Actors[actor] = true
}

func (r *Run) Fault(kind string) { r.Faults[kind]++; r.Nontrivial = true }
func (r *Run) Probe(name string) { r.Probes[name]++ }

// Fail records the first violation of the property under check; violations of other
// properties served by the same world are ignored in this invocation.
func (r *Run) Fail(prop, clause, sig, format string, args ...any) {
	if prop != r.Prop || r.viol != nil {
		return
	}
	r.viol = &Violation{Property: prop, Clause: clause, Sig: sig, Detail: fmt.Sprintf(format, args...)}
	r.Event("oracle", "VIOLATION %s/%s [%s]", prop, clause, sig)
}

func (r *Run) Failed() bool          { return r.viol != nil }
func (r *Run) Violation() *Violation { return r.viol }
func (r *Run) LogHash() uint64       { return r.logHash }
func (r *Run) SchedHash() uint64     { return r.schedHash }
func (r *Run) Events() []string      { return r.events }

func (r *Run) Tail(n int) []string {
	if len(r.events) <= n {
		return r.events
	}
	return r.events[len(r.events)-n:]
}

func sortedKeys(m map[string]int) []string {
	ks := make([]string, 0, len(m))
	for k := range m {
		ks = append(ks, k)
	}
	sort.Strings(ks)
	return ks
}

// Guard is deferred at the top of harness goroutines that call into the system under test: a
// panic there is a finding for the property under check, not a crash of the test binary.
func (r *Run) Guard(where string) {
	if p := recover(); p != nil {
		if _, ok := p.(stopRun); ok {
			return
		}
		msg := fmt.Sprint(p)
		if len(msg) > 300 {
			msg = msg[:300]
		}
		r.Fail(r.Prop, "panic", "panic:"+where, "panic in %s: %s\n%s", where, msg, debug.Stack())
	}
}
