package verifsim

import (
	"sort"
	"sync"

	"github.com/VKCOM/statshouse/internal/verifhook"
)

// Points turns verifhook.Point call sites into scheduler decisions: a goroutine that reaches an
// armed point parks (durably blocked on a channel, holding no mutex — all park-able points in
// /repo are placed where no lock is held) until the scheduler releases its ticket.
//
// Usage inside a bubble:
//
//	pts := verifsim.NewPoints(func(name string) bool { return armed[name] })
//	defer pts.Close()
//	... verifsim.Wait(); for _, tk := range pts.Parked() { ... pts.Release(tk.ID) }
type Points struct {
	mu     sync.Mutex
	armed  func(name string) bool
	next   int
	parked map[int]*Ticket
	closed bool
	// OnHit, if set, is called synchronously (on the hitting goroutine, before parking) for every
	// point, armed or not — used for crash images at points that must not park.
	OnHit func(name string)
}

type Ticket struct {
	ID   int
	Name string
	ch   chan struct{}
}

func NewPoints(armed func(name string) bool) *Points {
	p := &Points{armed: armed, parked: map[int]*Ticket{}}
	verifhook.SetOnPoint(p.hit)
	return p
}

func (p *Points) hit(name string) {
	if p.OnHit != nil {
		p.OnHit(name)
	}
	p.mu.Lock()
	if p.closed || p.armed == nil || !p.armed(name) {
		p.mu.Unlock()
		return
	}
	p.next++
	tk := &Ticket{ID: p.next, Name: name, ch: make(chan struct{})}
	p.parked[tk.ID] = tk
	p.mu.Unlock()
	<-tk.ch
}

// Parked lists parked goroutines ordered by ticket id (deterministic if arrival order is).
func (p *Points) Parked() []*Ticket {
	p.mu.Lock()
	defer p.mu.Unlock()
	out := make([]*Ticket, 0, len(p.parked))
	for _, t := range p.parked {
		out = append(out, t)
	}
	sort.Slice(out, func(i, j int) bool { return out[i].ID < out[j].ID })
	return out
}

func (p *Points) Release(id int) {
	p.mu.Lock()
	tk := p.parked[id]
	delete(p.parked, id)
	p.mu.Unlock()
	if tk != nil {
		close(tk.ch)
	}
}

// Close releases everything and removes the hook.
func (p *Points) Close() {
	p.mu.Lock()
	p.closed = true
	var all []*Ticket
	for _, t := range p.parked {
		all = append(all, t)
	}
	p.parked = map[int]*Ticket{}
	p.mu.Unlock()
	for _, t := range all {
		close(t.ch)
	}
	verifhook.SetOnPoint(nil)
}
