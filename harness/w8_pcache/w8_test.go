//go:build verif

package pcache

// W8: persistent caches (property C21).
//
// Real: data_model.ChunkedStorage2 (ReadNext, StartWriteChunk/FinishItem/FinishWriteChunk, chained
// xxh3), pcache.MappingsCache (AddValues, GetValue, GetValueBytes, RemoveByTTL, SetSizeTTL, Stats,
// Save, load). Simulated: the file (a byte slice behind fault-injecting ReadAt/WriteAt/Truncate
// closures), the clock (an explicit "now": the code takes time as an argument), process death.
//
// Three kinds of run: "cache" (MappingsCache on top of the storage; two caller tasks interleave at
// operation granularity), "raw" (ChunkedStorage2 used directly the way metajournal's journal and the
// package's own test use it: read to the end, then append or rewrite; a failed save is followed by a
// rewrite) and "append" (w8_append_test.go: an owner that only ever appends, the way
// metajournal.MappingsStorage.Save does, also after a failed save).
//
// The code under test iterates Go maps (eviction candidates in AddValues, the visited subset in
// RemoveByTTL(maxCount<len), Save order when !deterministic). Outcomes that depend on that order
// are never written to the event log and never feed a draw: in "quiet" runs (size pressure or
// production Save order) only the operations and their drawn arguments are logged; in "loud" runs
// (configuration in which every outcome is order independent) the outcomes are logged as well.

import (
	"bytes"
	"errors"
	"fmt"
	"hash/maphash"
	"io"
	"os"
	"sort"
	"testing"

	pgrand "pgregory.net/rand"

	"github.com/VKCOM/statshouse/internal/data_model"
	"github.com/VKCOM/statshouse/internal/format"
	"github.com/VKCOM/statshouse/internal/verifhook"
	"github.com/VKCOM/statshouse/internal/verifsim"
	"github.com/VKCOM/statshouse/internal/vkgo/basictl"
)

const w8Prop = "C21"

var (
	errW8Dead = errors.New("simulated process is dead")
	errW8IO   = errors.New("simulated I/O error")
	errW8RO   = errors.New("verification reader must not write")
)

var w8HashSeed = maphash.MakeSeed() // only equality of hashes is used, never their values

// ---------------------------------------------------------------------------------------------
// simulated file with write history

// w8Chunk is one WriteAt of a save session: a whole chunk exactly as the storage handed it over.
type w8Chunk struct {
	off  int64
	data []byte
}

func (c w8Chunk) end() int64 { return c.off + int64(len(c.data)) }

type w8Session struct {
	chunks   []w8Chunk
	ops      int   // WriteAt + Truncate calls seen
	firstOff int64 // offset of the first op
}

// w8Read is one chunk returned by ChunkedStorage2.ReadNext: where its bytes came from (observed
// through the ReadAt closure) and the body it returned.
type w8Read struct {
	off   int64
	total int
	body  []byte
}

type w8Disk struct {
	r    *verifsim.Run
	file []byte
	dead bool // the simulated process died: nothing reaches the file any more

	// fault plan of the current save session (op = WriteAt or Truncate, 1-based; 0 = none)
	sess    *w8Session
	opIdx   int
	crashAt int
	failAt  int
	plan    w8Fault
	fired   string

	// read fault plan of the current load (0 = none)
	readIdx    int
	readFailAt int
	readFired  bool

	// history of the file
	expected   []w8Chunk // chunk layout a reload must show if certain
	certain    bool      // a reload shows exactly `expected` (then a reload must be exact)
	clean      bool      // and the file holds no other bytes (no stale tail a torn write could revive)
	expectErr  bool      // a reload of a certain file ends with an error (garbage after the chunks)
	prev       []w8Chunk // layout before the last session
	prevStrict bool      // the file was `clean` with layout `prev` when the last session began
	legit      map[int64]map[uint64]int
	sessions   int
}

func newW8Disk(r *verifsim.Run) *w8Disk {
	return &w8Disk{r: r, certain: true, clean: true, legit: map[int64]map[uint64]int{}}
}

func (d *w8Disk) addLegit(off int64, data []byte) {
	m := d.legit[off]
	if m == nil {
		m = map[uint64]int{}
		d.legit[off] = m
	}
	m[maphash.Bytes(w8HashSeed, data)] = len(data)
}

func (d *w8Disk) isLegit(off int64, raw []byte) bool {
	n, ok := d.legit[off][maphash.Bytes(w8HashSeed, raw)]
	return ok && n == len(raw)
}

func (d *w8Disk) apply(off int64, data []byte) {
	if len(data) == 0 {
		return
	}
	if need := int(off) + len(data); need > len(d.file) {
		d.file = append(d.file, make([]byte, need-len(d.file))...)
	}
	copy(d.file[off:], data)
}

// w8Fault is the drawn fault of one save session.
type w8Fault struct {
	kind int // 0 none, 1 crash, 2 I/O error
	at   int // 1-based index of the WriteAt/Truncate it hits
	tear int // 0: nothing of that write lands, 1: a drawn number of bytes, 2: all but a few trailing bytes, 3: only a few leading bytes
	b    int
}

func w8DrawFault(c *verifsim.Choices, faulty bool) (f w8Fault) {
	if !faulty {
		return
	}
	f.kind = c.Intn(3, "save_fault")
	f.at = 1 + c.Intn(4, "save_fault_op")
	f.tear = c.Intn(4, "save_fault_tear")
	f.b = c.Intn(1<<21, "save_fault_byte")
	return
}

func (f w8Fault) keep(n int) int {
	switch f.tear {
	case 0:
		return 0
	case 1:
		return f.b % (n + 1)
	case 2:
		if k := n - f.b%20; k >= 0 {
			return k
		}
		return n
	default:
		if k := f.b % 12; k <= n {
			return k
		}
		return n
	}
}

func (d *w8Disk) beginSession(f w8Fault) {
	d.sess = &w8Session{}
	d.opIdx, d.crashAt, d.failAt, d.plan, d.fired = 0, 0, 0, f, ""
	switch f.kind {
	case 1:
		d.crashAt = f.at
	case 2:
		d.failAt = f.at
	}
}

func (d *w8Disk) noteOp(off int64) {
	if d.sess == nil {
		panic("w8 harness: storage wrote outside a save session")
	}
	if d.sess.ops == 0 {
		d.sess.firstOff = off
	}
	d.sess.ops++
	d.opIdx++
}

func (d *w8Disk) writeAt(off int64, data []byte) error {
	if d.dead {
		return errW8Dead
	}
	d.noteOp(off)
	cp := append([]byte(nil), data...)
	d.sess.chunks = append(d.sess.chunks, w8Chunk{off, cp})
	d.addLegit(off, cp)
	switch d.opIdx {
	case d.crashAt:
		keep := d.plan.keep(len(data))
		d.apply(off, data[:keep])
		d.dead = true
		d.fired = "crash_in_write"
		if keep == 0 {
			d.fired = "crash_before_write"
		} else if keep == len(data) {
			d.fired = "crash_after_write"
		}
		d.r.Fault(d.fired)
		return errW8Dead
	case d.failAt:
		keep := d.plan.keep(len(data))
		d.apply(off, data[:keep])
		d.fired = "write_error"
		if keep > 0 {
			d.fired = "write_error_partial"
		}
		d.r.Fault(d.fired)
		return errW8IO
	}
	d.apply(off, data)
	return nil
}

func (d *w8Disk) truncate(off int64) error {
	if d.dead {
		return errW8Dead
	}
	d.noteOp(off)
	switch d.opIdx {
	case d.crashAt:
		d.dead = true
		d.fired = "crash_before_truncate"
		d.r.Fault(d.fired)
		return errW8Dead
	case d.failAt:
		d.fired = "truncate_error"
		d.r.Fault(d.fired)
		return errW8IO
	}
	if int(off) <= len(d.file) {
		d.file = d.file[:off]
	} else {
		d.file = append(d.file, make([]byte, int(off)-len(d.file))...)
	}
	return nil
}

// endSession folds the finished session into the file history. ok: the caller was told the save
// succeeded (then a later reload must show exactly what was written, whatever was injected).
func (d *w8Disk) endSession(ok bool) (touched bool) {
	s := d.sess
	d.sess = nil
	if s.ops == 0 {
		return false
	}
	d.sessions++
	var base []w8Chunk
	for _, c := range d.expected {
		if c.end() <= s.firstOff {
			base = append(base, c)
		}
	}
	wasCertain := d.certain
	d.prev, d.prevStrict = d.expected, d.clean
	d.expected = append(base, s.chunks...)
	// a save that reported success ends with a Truncate right behind its last chunk
	d.certain = ok && (len(base) == 0 || wasCertain)
	d.clean = d.certain
	d.expectErr = false
	return true
}

func (d *w8Disk) damaged() { d.certain, d.clean = false, false }

// adopt: a reload happened; whatever it (legitimately) showed is what the unchanged file shows.
func (d *w8Disk) adopt(R []w8Read, err error) {
	if d.certain {
		return
	}
	d.expected = d.expected[:0:0]
	for _, rc := range R {
		d.expected = append(d.expected, w8Chunk{rc.off, append([]byte(nil), d.file[rc.off:rc.off+int64(rc.total)]...)})
	}
	// the reader ended without an error only if the chunks reach the end of the file exactly;
	// otherwise stale bytes follow them
	d.certain, d.clean, d.expectErr = true, err == nil, err != nil
	d.prev, d.prevStrict = nil, false
}

func (d *w8Disk) rawRead(b []byte, off int64) error {
	if off < 0 || off+int64(len(b)) > int64(len(d.file)) {
		return io.ErrUnexpectedEOF
	}
	copy(b, d.file[off:])
	return nil
}

func (d *w8Disk) readAt(b []byte, off int64) error {
	d.readIdx++
	if d.readIdx == d.readFailAt {
		d.readFired = true
		d.r.Fault("read_error")
		return errW8IO
	}
	return d.rawRead(b, off)
}

// readChunks reads the file with a fresh real ChunkedStorage2 until it reports the end or an error.
func (d *w8Disk) readChunks(magic uint32) (st *data_model.ChunkedStorage2, R []w8Read, err error) {
	st = data_model.NewChunkedStorage2Slice(&d.file)
	var lastOff int64
	var lastLen int
	st.ReadAt = func(b []byte, off int64) error {
		lastOff, lastLen = off, len(b)
		return d.rawRead(b, off)
	}
	st.WriteAt = func(int64, []byte) error { return errW8RO }
	st.Truncate = func(int64) error { return errW8RO }
	for len(R) < 100000 {
		chunk, e := st.ReadNext(magic)
		if e != nil {
			return st, R, e
		}
		if len(chunk) == 0 {
			return st, R, nil
		}
		R = append(R, w8Read{lastOff, lastLen, append([]byte(nil), chunk...)})
	}
	return st, R, errors.New("w8 harness: reader does not terminate")
}

// checkChunks is the chunk level oracle. what = stable description of the situation.
func (d *w8Disk) checkChunks(R []w8Read, err error, what string) {
	r := d.r
	raws := make([][]byte, len(R))
	for i, rc := range R {
		if rc.off < 0 || rc.total <= 0 || rc.off+int64(rc.total) > int64(len(d.file)) {
			r.Fail(w8Prop, "chunk_outside_file", what, "%s: chunk #%d reported from [%d,+%d) but the file has %d bytes", what, i, rc.off, rc.total, len(d.file))
			return
		}
		raw := d.file[rc.off : rc.off+int64(rc.total)]
		raws[i] = raw
		if !bytes.Contains(raw, rc.body) {
			r.Fail(w8Prop, "chunk_body_not_in_file", what, "%s: body of chunk #%d (%d bytes) is not what the file holds at %d", what, i, len(rc.body), rc.off)
			return
		}
		if !d.isLegit(rc.off, raw) {
			r.Fail(w8Prop, "chunk_never_written", what, "%s: chunk #%d at offset %d (%d bytes, body %d) was returned by ReadNext but no save ever wrote these bytes there (damaged or invented chunk)", what, i, rc.off, rc.total, len(rc.body))
			return
		}
	}
	if d.certain {
		bad := len(R) != len(d.expected) || (err != nil) != d.expectErr
		for i := 0; !bad && i < len(R); i++ {
			bad = R[i].off != d.expected[i].off || !bytes.Equal(raws[i], d.expected[i].data)
		}
		if bad {
			r.Fail(w8Prop, "reload_not_exact", what, "%s: the file was completely saved and not damaged: expected %d chunks (error=%v), ReadNext gave %d chunks, err=%v", what, len(d.expected), d.expectErr, len(R), err)
		}
		return
	}
	a := 0
	for a < len(R) && a < len(d.expected) && R[a].off == d.expected[a].off && bytes.Equal(raws[a], d.expected[a].data) {
		a++
	}
	for i := a; i < len(R); i++ {
		if !d.prevStrict {
			continue // more than two saves are in play: "written by some save at this offset" was checked above
		}
		ok := false
		for _, p := range d.prev {
			if p.off == R[i].off && bytes.Equal(p.data, raws[i]) {
				ok = true
			}
		}
		if !ok {
			r.Fail(w8Prop, "chunk_not_from_last_two_saves", what, "%s: chunk #%d at %d follows a %d-chunk prefix of the interrupted save but is not a chunk of the previous complete save at that offset", what, i, R[i].off, a)
			return
		}
	}
	switch {
	case a < len(R):
		r.Probe("reload_continued_by_stale_chunks")
	case a == len(d.expected):
		r.Probe("reload_uncertain_file_complete")
	case a == 0:
		r.Probe("reload_uncertain_file_empty_prefix")
	default:
		r.Probe("reload_uncertain_file_proper_prefix")
	}
}

// externalDamage applies the drawn damage to the file before a restart. kind: 1 truncate, 2 bit flip.
func (d *w8Disk) externalDamage(kind, pos, bit int) string {
	switch kind {
	case 1:
		p := pos % (len(d.file) + 1)
		if p == len(d.file) {
			return "truncate_noop"
		}
		d.file = d.file[:p]
		d.damaged()
		d.r.Fault("file_truncated")
		return "truncated"
	case 2:
		if len(d.file) == 0 {
			return "bitflip_noop"
		}
		d.file[pos%len(d.file)] ^= 1 << uint(bit)
		d.damaged()
		d.r.Fault("bit_flip")
		return "bitflip"
	}
	return "none"
}

// ---------------------------------------------------------------------------------------------
// strings and values

var w8StrMemo = map[[2]int]string{} // memo of a pure function

func w8String(class, i int) string {
	key := [2]int{class, i}
	if s, ok := w8StrMemo[key]; ok {
		return s
	}
	var n int
	switch class {
	case 0: // short tag values
		n = 1 + i*7%23
	case 1: // around the TL short/long string boundary, some longer
		n = []int{1, 2, 3, 4, 5, 250, 251, 252, 253, 254, 255, 256, 257, 300, 1000, 4000}[i%16] + i/16
	case 3: // equal lengths (equal sizes): used where at most two entries fit, so eviction is order independent
		n = 8
	default: // large: a save spans several chunks
		n = 15000 + i*7919%45000
	}
	b := make([]byte, n)
	for j := range b {
		b[j] = byte(i*31 + j*7 + j>>8)
	}
	b[0] = byte(i + 1) // distinct first byte: distinct strings
	s := string(b)
	w8StrMemo[key] = s
	return s
}

func w8Value(i int) int32 {
	if i%3 == 1 {
		return int32(-100 - i) // negative values other than the markers are ordinary values
	}
	return int32(1000 + 7*i)
}

func w8IsMarker(v int32) bool {
	return v == 0 || v == format.TagValueIDMappingFlood || v == format.TagValueIDDoesNotExist
}

type w8Entry struct {
	value int32
	ts    uint32
}

// ---------------------------------------------------------------------------------------------
// cache world

type w8World struct {
	r    *verifsim.Run
	c    *verifsim.Choices
	disk *w8Disk
	loud bool // outcomes are map-order independent in this run and may be logged

	strs      []string
	bstrs     [][]byte
	junk      []string
	index     map[string]int
	everAdded []bool

	cache   *MappingsCache
	maxSize int64
	maxTTL  int
	det     bool

	now uint32
	lag [2]uint32

	snap      map[string]w8Entry // contents at the last save/reload that made the file certain
	snapValid bool

	faulty bool

	// concurrent getters (runs with conc): getters run on their own goroutine and may be parked at the
	// hook point between RUnlock and TryLock; exactly one goroutine runs at any time
	conc        bool
	val         []int32          // value last added for each string (changes only inside the race scenario)
	everVals    []map[int32]bool // every value ever added for each string
	gen         []int
	cur         *w8Getter
	parked      []*w8Getter
	lastParkIdx int // string of the last getter that was asked to park (a function of the draws only)

	// a modifier (evicting AddValues or RemoveByTTL) parked between its RUnlock and its Lock. It holds
	// modifyMu there: until it is released only getters run.
	tiny   bool // size pressure with at most two entries in the cache: eviction is order independent
	curMod *w8Mod
	mod    *w8Mod
}

const w8EvictPoint = "pcache.evict.before_upgrade"

type w8Mod struct {
	where    string
	wantPark bool
	parkedCh chan struct{}
	release  chan struct{}
	done     chan struct{}
	seen     map[string]uint32 // access times when it parked
	nowUnix  uint32
	post     func(raced bool)
}

// runModifier runs an AddValues/RemoveByTTL call. In runs with concurrent getters it runs on its own
// goroutine and, if asked, parks at the evict point; post (the checks after the call) then runs when
// the modifier is released.
func (w *w8World) runModifier(actor, where string, nowUnix uint32, f func(), post func(raced bool)) {
	if !w.conc {
		w.call(where, f)
		if !w.r.Failed() {
			post(false)
		}
		return
	}
	c := w.c
	m := &w8Mod{where: where, nowUnix: nowUnix, post: post, parkedCh: make(chan struct{}), release: make(chan struct{}), done: make(chan struct{})}
	// parked only where the outcome is order independent, so that a failure replays
	m.wantPark = c.Intn(2, "mod_park") == 1 && w.loud
	burst := c.Intn(3, "mod_burst")
	w.curMod = m
	go func() {
		defer close(m.done)
		defer w.r.Guard(where + "(concurrent)")
		f()
	}()
	parked := false
	select {
	case <-m.parkedCh:
		parked = true
	case <-m.done:
	}
	w.curMod = nil
	if w.r.Failed() {
		if parked {
			close(m.release)
			<-m.done
		}
		return
	}
	if parked {
		w.mod = m
		m.seen = map[string]uint32{}
		for k, e := range w.cache.cache {
			m.seen[k] = e.accessTS
		}
		w.r.Probe("conc_modifier_parked_" + where)
		w.obs(actor, "%s parked before taking the write lock", where)
	} else {
		post(false)
	}
	// getters right behind the modifier, preferably of strings it is about to evict (the number of
	// draws does not depend on whether it parked)
	for j := 0; j < burst && !w.r.Failed(); j++ {
		cand := c.Intn(2, "burst_cand")
		pick := c.Intn(8, "burst_pick")
		force := -1
		if w.mod != nil && cand == 1 {
			if cs := w.evictCandidates(); len(cs) > 0 {
				force = cs[pick%len(cs)]
			}
		}
		w.now++
		w.getConc(actor, pick >= 4, force)
	}
}

// evictCandidates: strings (by index, ascending) the parked modifier may be about to remove: present
// and last accessed before the modifier's time.
func (w *w8World) evictCandidates() []int {
	var cs []int
	for i, s := range w.strs {
		if e, ok := w.cache.cache[s]; ok && e.accessTS < w.mod.nowUnix {
			cs = append(cs, i)
		}
	}
	return cs
}

// finishModifier releases the parked modifier (if any) and runs its checks.
func (w *w8World) finishModifier() {
	m := w.mod
	if m == nil {
		return
	}
	w.mod = nil
	raced := false
	for k, e := range w.cache.cache {
		if ts, ok := m.seen[k]; ok && ts != e.accessTS {
			raced = true
		}
	}
	close(m.release)
	<-m.done
	if w.r.Failed() {
		return
	}
	w.r.Probe("conc_modifier_released")
	if raced {
		w.r.Probe("conc_modifier_released_after_getter_refreshed_an_entry")
	}
	w.obs("world", "%s released raced=%v", m.where, raced)
	m.post(raced)
}

const w8GetPoint = "pcache.get.before_upgrade"

type w8Getter struct {
	idx                              int
	actor                            string
	ts                               uint32
	bytesAPI                         bool
	wantPark                         bool
	parkedCh                         chan struct{}
	release                          chan struct{}
	done                             chan struct{}
	v                                int32
	ok                               bool
	allowed                          []int32 // values that were "last added" for the string at some time while the getter ran
	seenTS                           uint32
	sawUpdate, sawEvict, sawNewValue bool
}

// onPoint runs on the getter's goroutine, no lock held.
func (w *w8World) onPoint(name string) {
	if name == w8EvictPoint {
		m := w.curMod
		if m == nil || !m.wantPark {
			return
		}
		m.wantPark = false
		m.parkedCh <- struct{}{}
		<-m.release
		return
	}
	g := w.cur
	if g == nil || !g.wantPark || name != w8GetPoint {
		return
	}
	g.wantPark = false
	g.parkedCh <- struct{}{}
	<-g.release
}

// startGetter runs one GetValue on its own goroutine until it finishes or parks at the hook point.
func (w *w8World) startGetter(g *w8Getter) (parked bool) {
	g.parkedCh, g.release, g.done = make(chan struct{}), make(chan struct{}), make(chan struct{})
	cache := w.cache
	w.cur = g
	go func() {
		defer close(g.done)
		defer w.r.Guard("GetValue(concurrent)")
		var s string
		var b []byte
		switch {
		case g.idx < len(w.strs):
			s, b = w.strs[g.idx], w.bstrs[g.idx]
		case g.idx == len(w.strs):
			s, b = "", nil
		default:
			s, b = w.junk[1], []byte(w.junk[1])
		}
		if g.bytesAPI {
			g.v, g.ok = cache.GetValueBytes(g.ts, b)
		} else {
			g.v, g.ok = cache.GetValue(g.ts, s)
		}
	}()
	select {
	case <-g.parkedCh:
		parked = true
	case <-g.done:
	}
	w.cur = nil
	return parked
}

func (w *w8World) finishGetter(g *w8Getter) {
	close(g.release)
	<-g.done
}

// checkGetter: a getter that overlapped other operations returns a miss or a value that was the
// last added one for its string at some time while it ran.
func (w *w8World) checkGetter(g *w8Getter, sig string) bool {
	r := w.r
	if !g.ok {
		return true
	}
	if g.idx >= len(w.strs) {
		r.Fail(w8Prop, "phantom_key", sig, "GetValue of a never added string returned %d", g.v)
		return false
	}
	if w8IsMarker(g.v) {
		r.Fail(w8Prop, "marker_returned", sig, "after %s: GetValue(string #%d) returned marker value %d", sig, g.idx, g.v)
		return false
	}
	for _, a := range g.allowed {
		if a == g.v {
			return true
		}
	}
	r.Fail(w8Prop, "wrong_value", sig, "after %s: GetValue(string #%d) = %d, values last added for it while the call ran: %v", sig, g.idx, g.v, g.allowed)
	return false
}

// noteParked records (for probes) what happened to the strings of parked getters.
func (w *w8World) noteParked() {
	for _, g := range w.parked {
		if e, ok := w.cache.cache[w.strs[g.idx]]; !ok {
			g.sawEvict = true
		} else if e.accessTS != g.seenTS {
			g.sawUpdate = true
		}
	}
}

func (w *w8World) releaseOne(k int, sig string) {
	r := w.r
	g := w.parked[k]
	w.parked = append(w.parked[:k:k], w.parked[k+1:]...)
	w.noteParked()
	if e, ok := w.cache.cache[w.strs[g.idx]]; !ok {
		g.sawEvict = true
	} else if e.accessTS != g.seenTS {
		g.sawUpdate = true
	}
	w.finishGetter(g)
	if r.Failed() {
		return
	}
	r.Probe("conc_getter_released")
	if g.sawUpdate {
		r.Probe("conc_released_after_access_time_update_by_other_getter")
	}
	if g.sawEvict {
		r.Probe("conc_released_after_eviction")
	}
	if g.sawNewValue {
		r.Probe("conc_released_after_readd_with_new_value")
	}
	if len(w.parked) > 0 {
		r.Probe("conc_released_while_others_parked")
	}
	w.obs(g.actor, "released getter #%d -> %d %v", g.idx, g.v, g.ok)
	if !w.checkGetter(g, sig) {
		return
	}
	w.checkState(sig)
}

func (w *w8World) releaseAll(sig string) {
	for len(w.parked) > 0 && !w.r.Failed() {
		w.releaseOne(0, sig)
	}
}

// abandonGetters lets leftover goroutines finish at the end of a failed run.
func (w *w8World) abandonGetters() {
	if m := w.mod; m != nil {
		w.mod = nil
		close(m.release)
		<-m.done
	}
	for _, g := range w.parked {
		w.finishGetter(g)
	}
	w.parked = nil
}

// getConc: GetValue/GetValueBytes on its own goroutine, possibly parked between RUnlock and TryLock.
func (w *w8World) getConc(actor string, bytesAPI bool, force int) {
	r, c := w.r, w.c
	i := c.Intn(len(w.strs)+2, "get_str")
	known := c.Intn(1<<10, "get_known")
	same := c.Intn(2, "get_same_as_parked")
	park := c.Intn(2, "get_park")
	w.now += uint32(c.Intn(3, "get_tick"))
	if known%4 != 0 {
		var added []int
		for j, a := range w.everAdded {
			if a {
				added = append(added, j)
			}
		}
		if len(added) > 0 {
			i = added[(known/4)%len(added)]
		}
	}
	if same == 1 && w.lastParkIdx >= 0 {
		i = w.lastParkIdx
	}
	ts := w.now - w.lag[actorIdx(actor)]
	if force >= 0 {
		i, ts = force, w.now
	}
	g := &w8Getter{idx: i, actor: actor, ts: ts, bytesAPI: bytesAPI, wantPark: park == 1 && i < len(w.strs) && len(w.parked) < 3}
	if park == 1 && i < len(w.strs) {
		w.lastParkIdx = i
	}
	if i < len(w.strs) {
		g.allowed = []int32{w.val[i]}
		g.seenTS = w.cache.cache[w.strs[i]].accessTS
	}
	r.Sched("get", actor)
	r.Event(actor, "Get(conc) bytes=%v #%d t=%d park=%d", bytesAPI, i, ts, park)
	if w.startGetter(g) {
		w.parked = append(w.parked, g)
		r.Probe("conc_getter_parked")
		if len(w.parked) >= 2 {
			r.Probe("conc_two_or_more_getters_parked")
		}
		w.obs(actor, "getter #%d parked", i)
		return
	}
	if r.Failed() {
		return
	}
	if !w.checkGetter(g, "get") {
		return
	}
	w.noteParked()
	w.obs(actor, "Get -> %d %v", g.v, g.ok)
	w.checkState("get")
}

func (w *w8World) obs(actor, format string, args ...any) {
	if w.loud {
		w.r.Event(actor, format, args...)
	}
}

// call runs f (a call into the code under test); a panic becomes a violation.
func (w *w8World) call(where string, f func()) {
	defer w.r.Guard(where)
	f()
}

func (w *w8World) contents(c *MappingsCache) map[string]w8Entry {
	m := make(map[string]w8Entry, len(c.cache))
	for k, v := range c.cache {
		m[k] = w8Entry{v.value, v.accessTS}
	}
	return m
}

func w8SameContents(a, b map[string]w8Entry) (string, bool) {
	var diff []string
	for k, v := range a {
		if x, ok := b[k]; !ok || x != v {
			diff = append(diff, k)
		}
	}
	for k := range b {
		if _, ok := a[k]; !ok {
			diff = append(diff, k)
		}
	}
	if len(diff) == 0 {
		return "", true
	}
	sort.Strings(diff)
	k := diff[0]
	return fmt.Sprintf("%d keys differ, first %q(len %d): %v vs %v", len(diff), w8Short(k), len(k), a[k], b[k]), false
}

func w8Short(s string) string {
	if len(s) > 12 {
		return s[:12]
	}
	return s
}

// checkState: accounting clause + no wrong/marker/phantom value observable. sig = class of the last op.
func (w *w8World) checkState(sig string) {
	r, c := w.r, w.cache
	var size, ts int64
	var unknown []string
	for k, v := range c.cache {
		size += elementSizeMem(k)
		ts += int64(v.accessTS)
		if _, ok := w.index[k]; !ok {
			unknown = append(unknown, k)
		}
	}
	n := len(c.cache)
	var el int
	var sumSize int64
	var avg float64
	w.call("Stats", func() { el, sumSize, avg, _, _, _, _ = c.Stats() })
	if r.Failed() {
		return
	}
	wantAvg := 0.0
	if n != 0 {
		wantAvg = float64(ts) / float64(n)
	}
	// the sums themselves are compared too (white-box): with an empty cache Stats() shows no average,
	// but a sumTS left over from removed entries spoils every later average
	if el != n || sumSize != size || avg != wantAvg || c.sumTS != ts || c.sumSize != size {
		r.Fail(w8Prop, "accounting", sig, "after %s: Stats() says elements=%d sumSize=%d averageTS=%v, recomputed over the map: elements=%d sumSize=%d averageTS=%v (sumTS field %d vs %d)", sig, el, sumSize, avg, n, size, wantAvg, c.sumTS, ts)
		return
	}
	if len(unknown) > 0 {
		sort.Strings(unknown)
		r.Fail(w8Prop, "phantom_key", sig, "after %s: the cache holds %d keys nobody added, first %q (len %d)", sig, len(unknown), w8Short(unknown[0]), len(unknown[0]))
		return
	}
	// observable sweep; access time 0 never updates anything
	for i, s := range w.strs {
		var v int32
		var ok bool
		if i%2 == 0 {
			w.call("GetValue", func() { v, ok = c.GetValue(0, s) })
		} else {
			w.call("GetValueBytes", func() { v, ok = c.GetValueBytes(0, w.bstrs[i]) })
		}
		if r.Failed() {
			return
		}
		if !w.checkGot(i, v, ok, sig) {
			return
		}
	}
	for _, s := range w.junk {
		if v, ok := c.GetValue(0, s); ok {
			r.Fail(w8Prop, "phantom_key", sig, "after %s: GetValue(%q) = %d for a string that was never added with a real value", sig, w8Short(s), v)
			return
		}
	}
}

func (w *w8World) checkGot(i int, v int32, ok bool, sig string) bool {
	if !ok {
		return true
	}
	r := w.r
	switch {
	case w8IsMarker(v):
		r.Fail(w8Prop, "marker_returned", sig, "after %s: GetValue(string #%d) returned marker value %d", sig, i, v)
	case v != w.val[i]:
		r.Fail(w8Prop, "wrong_value", sig, "after %s: GetValue(string #%d) = %d, the value last added for it is %d", sig, i, v, w.val[i])
	case !w.everAdded[i]:
		r.Fail(w8Prop, "phantom_key", sig, "after %s: GetValue(string #%d) hit but the string was never added", sig, i)
	default:
		return true
	}
	return false
}

// itemsOf parses chunk bodies the way the file format defines them; first occurrence wins.
func w8ItemsOf(R []w8Read) (map[string]w8Entry, error) {
	m := map[string]w8Entry{}
	for ci, rc := range R {
		b := rc.body
		for len(b) != 0 {
			var s string
			var e w8Entry
			var err error
			if b, err = basictl.StringRead(b, &s); err != nil {
				return nil, fmt.Errorf("chunk %d: %v", ci, err)
			}
			if b, err = basictl.IntRead(b, &e.value); err != nil {
				return nil, fmt.Errorf("chunk %d: %v", ci, err)
			}
			if b, err = basictl.NatRead(b, &e.ts); err != nil {
				return nil, fmt.Errorf("chunk %d: %v", ci, err)
			}
			if _, ok := m[s]; !ok {
				m[s] = e
			}
		}
	}
	return m, nil
}

func (w *w8World) newCache(st *data_model.ChunkedStorage2) *MappingsCache {
	c := NewMappingsCache(st, w.maxSize, w.maxTTL)
	c.deterministic = w.det
	return c
}

// verifyFile reloads the file with real code: chunk level (ReadNext loop) and cache level (load).
// adopt=false: shadow check, the running process and the file history are left alone.
// adopt=true: process restart; readFailAt injects a read error into the cache's own load.
func (w *w8World) verifyFile(what string, adopt bool, readFailAt int) {
	r, d := w.r, w.disk
	var R []w8Read
	var rerr error
	w.call("ReadNext", func() { _, R, rerr = d.readChunks(data_model.ChunkedMagicMappings) })
	if r.Failed() {
		return
	}
	d.checkChunks(R, rerr, what)
	if r.Failed() {
		return
	}
	st := data_model.NewChunkedStorage2Slice(&d.file)
	d.readIdx, d.readFailAt, d.readFired = 0, readFailAt, false
	st.ReadAt = d.readAt
	if adopt {
		st.WriteAt, st.Truncate = d.writeAt, d.truncate
	} else {
		st.WriteAt = func(int64, []byte) error { return errW8RO }
		st.Truncate = func(int64) error { return errW8RO }
	}
	c := w.newCache(st)
	var lerr error
	w.call("load", func() { lerr = c.load(st) })
	d.readFailAt = 0
	if r.Failed() {
		return
	}
	got := w.contents(c)
	// the loaded contents are exactly the items of the chunks (of a prefix of them after a read error)
	lo := len(R)
	if d.readFired {
		lo = 0
	}
	matched, detail := false, ""
	for j := len(R); j >= lo && !matched; j-- {
		want, perr := w8ItemsOf(R[:j])
		if perr != nil {
			r.Fail(w8Prop, "damaged_item", what, "%s: a chunk that passed ReadNext does not parse as items: %v", what, perr)
			return
		}
		var dd string
		dd, matched = w8SameContents(want, got)
		if j == len(R) {
			detail = dd
		}
	}
	if !matched {
		r.Fail(w8Prop, "load_differs_from_chunks", what, "%s: cache loaded %d entries (err=%v) that are not the items of the %d chunks in the file: %s", what, len(got), lerr, len(R), detail)
		return
	}
	if !d.readFired && (lerr != nil) != (rerr != nil) {
		r.Fail(w8Prop, "load_error_mismatch", what, "%s: load returned %v but reading the chunks returned %v", what, lerr, rerr)
		return
	}
	if d.certain && w.snapValid && !d.readFired {
		if dd, same := w8SameContents(w.snap, got); !same {
			r.Fail(w8Prop, "reload_differs", what, "%s: reload after a complete save: %d entries loaded, %d were saved: %s", what, len(got), len(w.snap), dd)
			return
		}
		r.Probe("reload_equals_saved")
	}
	r.Extra["reloads"]++
	if len(R) >= 2 {
		r.Extra["reloads_multi_chunk"]++
	}
	w.obs("disk", "%s: chunks=%d err=%v entries=%d loaderr=%v", what, len(R), rerr != nil, len(got), lerr != nil)
	if !adopt {
		return
	}
	if d.readFired {
		// the process runs on a partial load of an intact file: the file history is unchanged
		w.cache = c
		return
	}
	if !d.certain {
		d.adopt(R, rerr)
		w.snap, w.snapValid = got, true
	}
	w.cache = c
}

func (w *w8World) save(actor string) {
	r, c, d := w.r, w.c, w.disk
	if w.finishModifier(); r.Failed() {
		return
	}
	plan := w8DrawFault(c, w.faulty)
	r.Sched("save", actor)
	r.Event(actor, "Save fault=%d at=%d tear=%d", plan.kind, plan.at, plan.tear)
	before := w.contents(w.cache)
	d.beginSession(plan)
	var saved bool
	var err error
	w.call("Save", func() { saved, err = w.cache.Save() })
	ok := saved && err == nil
	touched := d.endSession(ok)
	if r.Failed() {
		return
	}
	if saved && err != nil {
		r.Fail(w8Prop, "save_result", "save", "Save returned (true, %v)", err)
		return
	}
	if touched {
		w.snap, w.snapValid = before, ok
	}
	if ok {
		r.Extra["saves_ok"]++
	} else if err != nil {
		r.Extra["saves_failed"]++
	}
	if err == nil && d.fired != "" {
		r.Probe("save_ok_despite_" + d.fired)
	}
	w.obs(actor, "Save -> saved=%v err=%v fired=%q file=%d chunks=%d", saved, err != nil, d.fired, len(d.file), len(d.expected))
	if d.dead {
		w.restart("after-crash", 0, 0, 0, 0)
		return
	}
	if touched {
		what := "after-save"
		if !ok {
			what = "after-failed-save"
		}
		w.verifyFile(what, false, 0)
	}
}

func (w *w8World) restart(what string, dmg, pos, bit, readFailAt int) {
	d := w.disk
	if w.finishModifier(); w.r.Failed() {
		return
	}
	if w.releaseAll("get-released"); w.r.Failed() {
		return
	}
	if d.dead && !w.loud {
		// whether the armed crash point was reached depends on how many writes the Save made, which
		// in a quiet run depends on map order: neither logged nor part of the schedule signature
		w.r.Extra["crash_restarts_unlogged"]++
	} else {
		w.r.Sched("restart", "world")
		w.r.Event("world", "restart %s dmg=%d pos=%d bit=%d readfail=%d", what, dmg, pos, bit, readFailAt)
	}
	d.dead = false
	if res := d.externalDamage(dmg, pos, bit); res != "none" {
		what += "-" + res
	}
	w.verifyFile(what, true, readFailAt)
	if w.r.Failed() {
		return
	}
	if w.conc {
		// the file may hold an older generation of a value than the one re-added since the last save
		// (by design: stale or no mappings after a restart); it must be a value that was added
		for k, e := range w.cache.cache {
			if i, ok := w.index[k]; ok && w.everVals[i][e.value] {
				w.val[i] = e.value
			}
		}
	}
	w.checkState("load")
}

func (w *w8World) addValues(actor string, dups bool) {
	r, c := w.r, w.c
	w.finishModifier()
	n := 1 + c.Intn(6, "batch")
	pairs := make([]MappingPair, 0, n)
	hasDup := false
	desc := make([]string, 0, n)
	fresh := map[int]bool{}
	for j := 0; j < n; j++ {
		kind := c.Intn(8, "pair_kind")
		i := c.Intn(len(w.strs), "pair_str")
		if w.conc && c.Intn(2, "pair_same_as_parked") == 1 && w.lastParkIdx >= 0 {
			i = w.lastParkIdx // meet the getter that was asked to park (a function of the draws only)
		}
		switch {
		case kind == 5: // marker value for a real string
			m := []int32{0, format.TagValueIDMappingFlood, format.TagValueIDDoesNotExist}[c.Intn(3, "marker")]
			pairs = append(pairs, MappingPair{Str: w.strs[i], Value: m})
			desc = append(desc, fmt.Sprintf("#%d=marker(%d)", i, m))
		case kind == 6: // empty string
			v := []int32{w.val[i], 0}[c.Intn(2, "empty_val")]
			pairs = append(pairs, MappingPair{Str: "", Value: v})
			desc = append(desc, fmt.Sprintf("\"\"=%d", v))
		case kind == 7 && dups && len(pairs) > 0: // repeat an earlier pair of this batch
			p := pairs[c.Intn(len(pairs), "dup_of")]
			pairs = append(pairs, p)
			if k, ok := w.index[p.Str]; ok && !w8IsMarker(p.Value) && fresh[k] {
				hasDup = true
			}
			desc = append(desc, "dup")
		default:
			if fresh[i] { // the same string twice in one batch
				if !dups {
					desc = append(desc, "skip")
					continue
				}
				hasDup = true
			}
			if w.conc && c.Intn(2, "new_value") == 1 && w.loud && !fresh[i] {
				// the race scenario: a getter of this string is parked, the string was evicted meanwhile and
				// comes back with another value (the API allows it; production mappings are immutable)
				_, present := w.cache.cache[w.strs[i]]
				waiting := false
				for _, g := range w.parked {
					waiting = waiting || g.idx == i
				}
				if !present && waiting {
					w.gen[i]++
					w.val[i] = w8Value(i) + int32(1_000_000*w.gen[i])
					w.everVals[i][w.val[i]] = true
					for _, g := range w.parked {
						if g.idx == i {
							g.allowed = append(g.allowed, w.val[i])
							g.sawNewValue = true
						}
					}
					r.Probe("conc_readd_with_new_value_while_getter_parked")
				}
			}
			pairs = append(pairs, MappingPair{Str: w.strs[i], Value: w.val[i]})
			desc = append(desc, fmt.Sprintf("#%d", i))
			w.everAdded[i] = true
			fresh[i] = true
		}
	}
	ts := w.now - w.lag[actorIdx(actor)]
	r.Sched("add", actor)
	r.Event(actor, "AddValues t=%d %v", ts, desc)
	var before int64
	w.call("Stats", func() { _, before, _, _, _, _, _ = w.cache.Stats() })
	if r.Failed() {
		return
	}
	w.runModifier(actor, "AddValues", ts, func() { w.cache.AddValues(ts, pairs) }, func(raced bool) {
		w.afterAdd(actor, before, hasDup, raced)
	})
}

func (w *w8World) afterAdd(actor string, before int64, hasDup, raced bool) {
	r := w.r
	var after int64
	w.call("Stats", func() { _, after, _, _, _, _, _ = w.cache.Stats() })
	if r.Failed() {
		return
	}
	sig := "add"
	if hasDup {
		sig = "dup_in_batch"
		r.Probe("batch_with_inner_duplicate")
	}
	if raced {
		sig = "evict-raced-with-getter"
	}
	limit := w.maxSize
	if before > limit {
		limit = before
	}
	if after > limit {
		r.Fail(w8Prop, "size_bound", sig, "AddValues grew the cache to %d; configured size %d, size before the call %d", after, w.maxSize, before)
		return
	}
	if before > w.maxSize {
		r.Probe("add_while_over_lowered_limit")
	}
	if after+elementSizeMem(w.strs[0]) > w.maxSize {
		r.Probe("add_at_size_limit")
	}
	w.obs(actor, "AddValues -> size %d->%d entries=%d", before, after, len(w.cache.cache))
	w.noteParked()
	w.checkState(sig)
}

func actorIdx(a string) int {
	if a == "t1" {
		return 1
	}
	return 0
}

func (w *w8World) get(actor string, bytesAPI bool) {
	r, c := w.r, w.c
	i := c.Intn(len(w.strs)+2, "get_str")
	if known := c.Intn(1<<10, "get_known"); known%4 != 0 {
		// mostly ask for strings that were added at some time (a function of the draws only)
		var added []int
		for j, a := range w.everAdded {
			if a {
				added = append(added, j)
			}
		}
		if len(added) > 0 {
			i = added[(known/4)%len(added)]
		}
	}
	ts := w.now - w.lag[actorIdx(actor)]
	r.Sched("get", actor)
	var s string
	switch {
	case i < len(w.strs):
		s = w.strs[i]
	case i == len(w.strs):
		s = ""
	default:
		s = "\x00never-added"
	}
	r.Event(actor, "Get bytes=%v #%d t=%d", bytesAPI, i, ts)
	var v int32
	var ok bool
	if bytesAPI {
		w.call("GetValueBytes", func() { v, ok = w.cache.GetValueBytes(ts, []byte(s)) })
	} else {
		w.call("GetValue", func() { v, ok = w.cache.GetValue(ts, s) })
	}
	if r.Failed() {
		return
	}
	if i >= len(w.strs) {
		if ok {
			r.Fail(w8Prop, "phantom_key", "get", "GetValue(%q) = %d for a string that was never added with a real value", s, v)
		}
		return
	}
	if !w.checkGot(i, v, ok, "get") {
		return
	}
	if ok {
		r.Probe("get_hit")
	} else {
		r.Probe("get_miss")
	}
	w.obs(actor, "Get -> %d %v", v, ok)
	w.checkState("get")
}

func w8Cache(r *verifsim.Run) {
	c := r.C
	w := &w8World{r: r, c: c, disk: newW8Disk(r)}
	regime := c.Intn(3, "regime") // 0: no size pressure, everything order independent
	w.faulty = c.Intn(3, "faulty") != 0
	w.conc = c.Intn(3, "concurrent_getters") == 1
	w.lastParkIdx = -1
	if w.conc && regime == 2 {
		regime = 0 // more of the concurrent runs without size pressure: there the race scenario may change values
	}
	class := c.Intn(3, "strclass")
	var n int
	switch {
	case w.conc: // few strings, so that getters and modifiers meet on the same one; no storage faults
		n = 2 + c.Intn(5, "nstr")
		w.faulty = false
		if w.tiny = c.Intn(2, "tiny_pressure") == 1; w.tiny {
			// equal sized strings and room for two and a half of them: AddValues evicts, and with at
			// most two entries every entry is an eviction candidate, so the outcome is order independent
			regime, class, n = 0, 3, n+1
		}
	case class == 2:
		n = 16 + c.Intn(30, "nstr")
	default:
		n = 3 + c.Intn(38, "nstr")
	}
	// the same string twice in one batch: only where the outcome does not depend on which entries
	// an earlier eviction happened to pick (regime 0), so that a failure replays
	dups := c.Intn(6, "dups_in_batch") == 1 && regime == 0
	ttl := []int{0, 10, 100}[c.Intn(3, "ttl")]
	if w.conc && ttl == 0 {
		ttl = 5
	}
	w.lag[1] = []uint32{0, 1, 5, 50}[c.Intn(4, "lag")]
	w.now = 1_000_000 + uint32(c.Intn(1000, "t0"))
	start := w.now
	for i := 0; i < n; i++ {
		w.strs = append(w.strs, w8String(class, i))
	}
	w.index = map[string]int{}
	var total int64
	for i, s := range w.strs {
		w.index[s] = i
		w.bstrs = append(w.bstrs, []byte(s))
		total += elementSizeMem(s)
	}
	w.junk = []string{"", "\x00never-added", w.strs[0] + "x"}
	w.everAdded = make([]bool, n)
	for i := 0; i < n; i++ {
		w.val = append(w.val, w8Value(i))
		w.everVals = append(w.everVals, map[int32]bool{w8Value(i): true})
	}
	w.gen = make([]int, n)
	w.maxTTL = ttl
	w.loud = regime == 0
	if regime == 0 {
		w.maxSize = 1 << 40
		w.det = true
	} else {
		w.maxSize = total * int64(1+c.Intn(3, "size_quarters")) / 4
		w.det = c.Intn(2, "production_order") == 0
	}
	if w.tiny {
		w.maxSize = elementSizeMem(w.strs[0]) * 5 / 2
	}
	size0 := w.maxSize
	r.Config["tiny_pressure"] = w.tiny
	r.Config["mode"] = "cache"
	r.Config["regime"] = regime
	r.Config["faulty"] = w.faulty
	r.Config["strclass"] = class
	r.Config["strings"] = n
	r.Config["max_size"] = w.maxSize
	r.Config["ttl"] = ttl
	r.Config["dups_in_batch"] = dups
	r.Config["deterministic_flag"] = w.det
	r.Config["concurrent_getters"] = w.conc
	defer func() { r.SimNanos = int64(w.now-start) * 1e9 }()
	if w.conc {
		verifhook.SetOnPoint(w.onPoint)
		defer func() {
			w.abandonGetters()
			verifhook.SetOnPoint(nil)
		}()
	}

	w.restart("first-start", 0, 0, 0, 0)
	ops := 8 + c.Intn(50, "ops")
	for op := 0; op < ops && !r.Failed(); op++ {
		actor := []string{"t0", "t1"}[c.Intn(2, "task")]
		if w.conc {
			// the number of draws of a step never depends on whether a getter is parked
			if c.Intn(4, "conc_step") == 1 {
				k := c.Intn(8, "release_idx")
				r.Sched("release", actor)
				r.Event(actor, "release parked getter %d", k)
				switch {
				case w.mod != nil && (k%2 == 0 || len(w.parked) == 0):
					w.finishModifier()
				case len(w.parked) > 0:
					w.releaseOne(k%len(w.parked), "get-released")
				}
				continue
			}
		}
		switch k := c.Intn(16, "op"); {
		case k == 11 || (w.conc && (k == 13 || k == 3)):
			if w.finishModifier(); r.Failed() {
				break
			}
			if w.conc && k == 3 && w.maxTTL > 0 {
				// let everything expire, so that the string of a parked getter is evicted under it
				w.now += uint32(w.maxTTL) + 1 + w.lag[1]
				r.Event("clock", "now=%d", w.now)
			}
			maxCount := n + 5
			if !w.loud {
				maxCount = []int{n + 5, 1, 3}[c.Intn(3, "ttl_maxcount")]
			}
			ts := w.now - w.lag[actorIdx(actor)]
			r.Sched("removettl", actor)
			r.Event(actor, "RemoveByTTL max=%d t=%d", maxCount, ts)
			w.runModifier(actor, "RemoveByTTL", ts, func() { w.cache.RemoveByTTL(maxCount, ts) }, func(raced bool) {
				w.noteParked()
				w.obs(actor, "RemoveByTTL -> entries=%d", len(w.cache.cache))
				if raced {
					w.checkState("evict-raced-with-getter")
				} else {
					w.checkState("removettl")
				}
			})
		case k <= 2 || (k == 3 && !w.conc):
			w.addValues(actor, dups)
		case k >= 4 && k <= 6 && w.conc:
			w.getConc(actor, false, -1)
		case k >= 7 && k <= 8 && w.conc:
			w.getConc(actor, true, -1)
		case k <= 6:
			w.get(actor, false)
		case k <= 8:
			w.get(actor, true)
		case k <= 10:
			step := []uint32{1, 2, 10, 100, 0}[c.Intn(5, "tick")]
			w.now += step
			r.Sched("tick", "clock")
			r.Event("clock", "now=%d", w.now)
		case k == 12:
			if w.finishModifier(); r.Failed() {
				break
			}
			// (not with tiny pressure: a cache above a lowered limit frees ~0.1% per call starting from a
			// single entry in map order, which would make outcomes order dependent there)
			if regime != 0 {
				w.maxSize = []int64{size0, size0 / 2, size0 / 4, 1}[c.Intn(4, "newsize")]
			}
			w.maxTTL = []int{ttl, 0, 5, 60}[c.Intn(4, "newttl")]
			r.Sched("setsizettl", actor)
			r.Event(actor, "SetSizeTTL %d %d", w.maxSize, w.maxTTL)
			w.call("SetSizeTTL", func() { w.cache.SetSizeTTL(w.maxSize, w.maxTTL) })
			if !r.Failed() {
				w.checkState("setsizettl")
			}
		case k <= 14:
			w.save(actor)
		default:
			dmg, pos, bit, rf := 0, 0, 0, 0
			if w.faulty {
				dmg = c.Intn(4, "damage") // 0 none 1 truncate 2 bit flip 3 read error
				pos = c.Intn(1<<22, "damage_pos")
				bit = c.Intn(8, "damage_bit")
				if dmg == 3 {
					dmg, rf = 0, 1+c.Intn(6, "read_fail_at")
				}
			}
			w.restart("restart", dmg, pos, bit, rf)
		}
	}
	if !r.Failed() {
		w.finishModifier()
	}
	if !r.Failed() {
		w.releaseAll("get-released")
	}
	if !r.Failed() {
		// end of life: final save and reload, as the binaries do on shutdown
		w.faulty = false
		w.save("t0")
		if !r.Failed() {
			w.restart("final", 0, 0, 0, 0)
		}
	}
}

// ---------------------------------------------------------------------------------------------
// raw world: ChunkedStorage2 driven directly, the way metajournal (rewrite everything) and the
// package's own test (append what is new) use it: a little journal of framed items.

const w8RawMagic = data_model.ChunkedMagicConfig

type w8RawItem struct{ id, n int }

type w8Raw struct {
	r           *verifsim.Run
	c           *verifsim.Choices
	disk        *w8Disk
	st          *data_model.ChunkedStorage2
	items       []w8RawItem // the journal in memory
	saved       int         // how many of them the process believes are in the file
	mustRewrite bool        // the last save failed or the journal was compacted: the next save starts over
	next        int
	made        map[int]int // id -> length of every item ever created
}

// w8Pattern is a fixed pseudo-random byte field (immutable after init); an item's payload is a
// window of it chosen by the item id, so items differ and any damaged byte shows.
var w8Pattern = func() []byte {
	b := make([]byte, 1<<20)
	x := uint32(977)
	for i := range b {
		x = x*1664525 + 1013904223
		b[i] = byte(x >> 24)
	}
	return b
}()

func w8Payload(id, n int) []byte {
	start := id * 104729 % (len(w8Pattern) - n)
	return w8Pattern[start : start+n]
}

// item: [n][id][n pattern bytes]
func w8Item(dst []byte, id, n int) []byte {
	dst = append(dst, byte(n), byte(n>>8), byte(n>>16), byte(n>>24), byte(id), byte(id>>8), byte(id>>16), byte(id>>24))
	return append(dst, w8Payload(id, n)...)
}

func (w *w8Raw) call(where string, f func()) {
	defer w.r.Guard(where)
	f()
}

// parse checks that every item of every chunk is, byte for byte, an item that was created.
func (w *w8Raw) parse(R []w8Read, what string) (items []w8RawItem, ok bool) {
	for ci, rc := range R {
		b := rc.body
		for len(b) != 0 {
			if len(b) < 8 {
				w.r.Fail(w8Prop, "damaged_item", what, "%s: chunk #%d ends with a %d byte fragment", what, ci, len(b))
				return nil, false
			}
			n := int(b[0]) | int(b[1])<<8 | int(b[2])<<16 | int(b[3])<<24
			id := int(b[4]) | int(b[5])<<8 | int(b[6])<<16 | int(b[7])<<24
			if mn, made := w.made[id]; !made || mn != n || len(b) < 8+n || !bytes.Equal(b[8:8+n], w8Payload(id, n)) {
				w.r.Fail(w8Prop, "damaged_item", what, "%s: chunk #%d holds an item (id=%d len=%d) that was never saved in this form", what, ci, id, n)
				return nil, false
			}
			items = append(items, w8RawItem{id, n})
			b = b[8+n:]
		}
	}
	return items, true
}

func (w *w8Raw) reload(what string, adopt bool) {
	r, d := w.r, w.disk
	var st *data_model.ChunkedStorage2
	var R []w8Read
	var err error
	w.call("ReadNext", func() { st, R, err = d.readChunks(w8RawMagic) })
	if r.Failed() {
		return
	}
	d.checkChunks(R, err, what)
	if r.Failed() {
		return
	}
	items, ok := w.parse(R, what)
	if !ok {
		return
	}
	if d.certain && !adopt {
		same := len(items) == w.saved
		for i := 0; same && i < len(items); i++ {
			same = items[i] == w.items[i]
		}
		if !same {
			r.Fail(w8Prop, "reload_not_exact", what, "%s: %d items were saved, the reload shows %d items or other items", what, w.saved, len(items))
			return
		}
	}
	r.Extra["reloads"]++
	if len(R) >= 2 {
		r.Extra["reloads_multi_chunk"]++
	}
	r.Event("disk", "%s: chunks=%d items=%d err=%v file=%d", what, len(R), len(items), err != nil, len(d.file))
	if adopt {
		d.adopt(R, err)
		st.WriteAt, st.Truncate = d.writeAt, d.truncate
		w.st = st
		w.items, w.saved, w.mustRewrite = items, len(items), false
	}
}

func (w *w8Raw) save(actor string, faulty bool) {
	r, c, d := w.r, w.c, w.disk
	rewrite := c.Intn(3, "rewrite") == 1 || w.mustRewrite
	plan := w8DrawFault(c, faulty)
	r.Sched("save", actor)
	d.beginSession(plan)
	var err error
	from := w.saved
	if rewrite {
		from = 0
	}
	w.call("save", func() {
		if rewrite {
			w.st.ResetToStartOfFile()
		}
		chunk := w.st.StartWriteChunk(w8RawMagic, 0)
		for _, it := range w.items[from:] {
			chunk = w8Item(chunk, it.id, it.n)
			if chunk, err = w.st.FinishItem(chunk); err != nil {
				return
			}
		}
		err = w.st.FinishWriteChunk(chunk)
	})
	touched := d.endSession(err == nil)
	if r.Failed() {
		return
	}
	if err == nil {
		w.saved = len(w.items)
		r.Extra["saves_ok"]++
	} else {
		r.Extra["saves_failed"]++
	}
	w.mustRewrite = err != nil
	r.Event(actor, "save rewrite=%v items=%d fault=%d -> err=%v fired=%q touched=%v file=%d", rewrite, len(w.items)-from, plan.kind, err != nil, d.fired, touched, len(d.file))
	if err == nil && d.fired != "" {
		r.Probe("save_ok_despite_" + d.fired)
	}
	if d.dead {
		d.dead = false
		r.Sched("restart", "world")
		w.reload("after-crash", true)
		return
	}
	if touched {
		what := "after-save"
		if err != nil {
			what = "after-failed-save"
		}
		w.reload(what, false)
	}
}

func w8RawRun(r *verifsim.Run) {
	c := r.C
	w := &w8Raw{r: r, c: c, disk: newW8Disk(r), made: map[int]int{}}
	faulty := c.Intn(3, "faulty") != 0
	big := c.Intn(3, "itemclass")
	r.Config["mode"] = "raw"
	r.Config["faulty"] = faulty
	r.Config["itemclass"] = big
	w.reload("first-start", true)
	ops := 4 + c.Intn(40, "ops")
	for op := 0; op < ops && !r.Failed(); op++ {
		actor := []string{"t0", "t1"}[c.Intn(2, "task")]
		switch k := c.Intn(10, "op"); {
		case k <= 4: // new journal entries
			cnt := 1 + c.Intn(3, "items")
			total := 0
			for _, it := range w.items {
				total += it.n
			}
			if total > 2<<20 {
				cnt = 0 // the journal is full (keeps a run cheap); compaction makes room
			}
			for j := 0; j < cnt; j++ {
				var n int
				switch big {
				case 0:
					n = c.Intn(300, "item_len")
				case 1:
					n = []int{0, 200, 5000, 120000, 300000, 500000}[c.Intn(6, "item_len")]
				default:
					n = 100000 + c.Intn(400000, "item_len")
				}
				w.items = append(w.items, w8RawItem{w.next, n})
				w.made[w.next] = n
				w.next++
			}
			r.Sched("append", actor)
			r.Event(actor, "add %d items, journal=%d", cnt, len(w.items))
		case k <= 7:
			w.save(actor, faulty)
		case k == 8: // compaction: the journal loses its oldest entries; only a rewrite can store that
			drop := c.Intn(len(w.items)+1, "drop")
			w.items = append([]w8RawItem(nil), w.items[drop:]...)
			w.saved, w.mustRewrite = 0, true
			r.Sched("compact", actor)
			r.Event(actor, "compact drop=%d", drop)
		default:
			dmg, pos, bit := 0, 0, 0
			if faulty {
				dmg = c.Intn(3, "damage")
				pos = c.Intn(1<<22, "damage_pos")
				bit = c.Intn(8, "damage_bit")
			}
			r.Sched("restart", "world")
			res := w.disk.externalDamage(dmg, pos, bit)
			r.Event("world", "restart dmg=%d pos=%d bit=%d", dmg, pos, bit)
			w.reload("restart-"+res, true)
		}
	}
	if !r.Failed() {
		r.Sched("restart", "world")
		w.reload("final", true)
	}
}

func w8Exec(t *testing.T, r *verifsim.Run) {
	src := verifsim.NewSplitMix(r.C.Seed ^ 0x77383838)
	pgrand.SetSimSource(src.Next)
	defer pgrand.SetSimSource(nil)
	defer func() {
		if os.Getenv("W8_DUMP") != "" {
			fmt.Println("CONFIG", r.Config)
			for _, e := range r.Events() {
				fmt.Println("EV", e)
			}
		}
	}()
	// values 0..3 keep their earlier meaning (0-2 cache, 3 raw), so that older replay files still replay
	switch r.C.Intn(5, "mode") {
	case 3:
		w8RawRun(r)
	case 4:
		w8AppendRun(r)
	default:
		w8Cache(r)
	}
}

func TestVerifW8(t *testing.T) {
	verifsim.Main(t, &verifsim.World{Name: "w8_pcache", Props: []string{w8Prop}, Exec: w8Exec})
}
