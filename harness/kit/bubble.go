package verifsim

import (
	"fmt"
	"strings"
	"testing"
	"testing/synctest"
	"time"
)

// Bubble runs f inside a testing/synctest bubble (fake clock, quiescence detection).
// Goroutines the system under test leaks (e.g. sqlite txLoop, which Close never stops) make
// synctest panic with a deadlock message when the bubble's main goroutine returns; exactly that
// panic is swallowed. Any other panic is re-raised to the caller (execOnce turns it into a
// "panic" violation).
func Bubble(t *testing.T, f func(t *testing.T)) {
	var inner any
	func() {
		defer func() {
			if p := recover(); p != nil {
				msg := fmt.Sprint(p)
				if strings.Contains(msg, "deadlock: main bubble goroutine has exited") {
					return
				}
				inner = p
			}
		}()
		synctest.Test(t, func(t *testing.T) {
			defer func() {
				if p := recover(); p != nil {
					inner = p
				}
			}()
			f(t)
		})
	}()
	if inner != nil {
		panic(inner)
	}
}

// Wait is synctest.Wait: returns when every other goroutine in the bubble is durably blocked.
func Wait() { synctest.Wait() }

// Epoch is the fake clock's start inside a bubble.
var Epoch = time.Date(2000, 1, 1, 0, 0, 0, 0, time.UTC)
