//go:build verif

package agent

// W3: agent disk cache (property C09).
//
// Real: DiskBucketStorage / diskCacheShard (PutBucket, GetBucket, EraseBucket, ReadNextTailBucket,
// TotalFileSize, Close, reopening, file naming by time.Now, rotation by age) on a real scratch
// directory (tmpfs). Simulated: the clock (synctest bubble), the callers (two tasks driven by the
// scheduler at operation granularity), process death (directory copy taken while no operation is
// in flight + truncation of the last put's record at EVERY byte offset), media corruption (bit
// flips inside stored bodies).
//
// Model: per shard the ordered list of seconds ever written, each live / erased / torn / dropped
// after detected corruption. The oracle is evaluated after every operation (sizes, files) and by
// a full audit of every reopened image (tail order, bytes, sizes, files, erase-everything).

import (
	"bytes"
	"encoding/binary"
	"fmt"
	"os"
	"path/filepath"
	"sort"
	"strconv"
	"sync/atomic"
	"testing"
	"time"

	"github.com/VKCOM/statshouse/internal/verifsim"
)

const w3Prop = "C09"

const (
	w3Live = iota
	w3Erased
	w3Torn    // the crash tore its write; it is allowed to be missing (and must not come back half)
	w3Dropped // a Get detected its corrupted body; the cache erased it
)

type w3Sec struct {
	shard   int
	seq     int
	time    uint32
	body    []byte
	file    string // base name of the file holding the record
	pos     int64  // offset of the record header in that file
	state   int
	flipped bool  // one bit of the stored body was flipped on disk
	id      int64 // id in the current lifetime, 0 = not handed out (still on the tail)
	prev    bool  // written in an earlier lifetime
}

func (s *w3Sec) recLen() int64 { return headerSize + int64(len(s.body)) }

type w3Shard struct {
	secs    []*w3Sec
	drained bool           // ReadNextTailBucket returned id 0 in the current lifetime
	ids     map[int64]bool // ids handed out in the current lifetime
}

type w3Caller struct {
	ch      chan func()
	scratch []byte
}

type w3World struct {
	r        *verifsim.Run
	c        *verifsim.Choices
	root     string // scratch root of this run
	dir      string // directory of the current lineage
	gen      int
	d        *DiskBucketStorage
	shards   []*w3Shard
	seq      int
	lastPut  *w3Sec // most recent put of the current lifetime
	warnings atomic.Int64
	callers  [2]*w3Caller
	sizeMode int
	start    time.Time
}

var w3RunCounter atomic.Int64

func (w *w3World) logf(format string, args ...interface{}) { w.warnings.Add(1) }

func w3Body(seq, n int) []byte {
	b := make([]byte, n)
	x := uint32(seq)*2654435761 + 97
	for i := range b {
		x = x*1664525 + 1013904223
		b[i] = byte(x >> 24)
	}
	if n >= 4 {
		binary.LittleEndian.PutUint32(b, uint32(seq)|0x5a000000)
	}
	return b
}

// settle lets fake time pass so that no two simulator events share an instant.
func w3Settle() { time.Sleep(time.Microsecond) }

func (w *w3World) open(dir string) *DiskBucketStorage {
	time.Sleep(time.Millisecond) // file names carry the time: never (re)open within the same millisecond
	d, err := MakeDiskBucketStorage(dir, len(w.shards), w.logf)
	if err != nil {
		w.r.Fail(w3Prop, "reopen_failed", "open", "MakeDiskBucketStorage failed on an intact (at most torn) directory: %v", err)
		return nil
	}
	return d
}

// do runs fn on caller k's goroutine and waits until it has finished.
func (w *w3World) do(k int, fn func()) {
	w.callers[k].ch <- fn
	verifsim.Wait()
}

func (w *w3World) diskFiles(dir string, sh int) (names []string, sizes map[string]int64) {
	sizes = map[string]int64{}
	des, err := os.ReadDir(filepath.Join(dir, strconv.Itoa(sh)))
	if err != nil {
		panic(err)
	}
	for _, de := range des {
		st, err := os.Stat(filepath.Join(dir, strconv.Itoa(sh), de.Name()))
		if err != nil {
			panic(err)
		}
		names = append(names, de.Name())
		sizes[de.Name()] = st.Size()
	}
	sort.Strings(names)
	return
}

// whiteBox reads where the cache believes the bucket with this id lives.
func w3Where(d *DiskBucketStorage, sh int, id int64) (file string, pos int64, ok bool) {
	s := d.shards[sh]
	s.mu.Lock()
	defer s.mu.Unlock()
	b, ok := s.knownBuckets[id]
	if !ok || b.file == nil {
		return "", 0, false
	}
	return filepath.Base(b.file.name), b.pos, true
}

func w3WritingName(d *DiskBucketStorage, sh int) string {
	s := d.shards[sh]
	s.mu.Lock()
	defer s.mu.Unlock()
	if s.writingFile == nil {
		return ""
	}
	return filepath.Base(s.writingFile.name)
}

func w3ReadingName(d *DiskBucketStorage, sh int) string {
	s := d.shards[sh]
	s.mu.Lock()
	defer s.mu.Unlock()
	if s.readingFileTail == nil {
		return ""
	}
	return filepath.Base(s.readingFileTail.name)
}

// checkSizesFiles is the per-step invariant: reported sizes match the disk, files of live seconds
// exist, fully erased files are gone once the cache neither writes nor still reads them.
func (w *w3World) checkSizesFiles(d *DiskBucketStorage, dir string, sh int, secs []*w3Sec, drained bool, what string) {
	r := w.r
	if r.Failed() {
		return
	}
	names, sizes := w.diskFiles(dir, sh)
	var disk, live int64
	for _, n := range names {
		disk += sizes[n]
	}
	liveIn := map[string]int{}
	for _, s := range secs {
		if s.state == w3Live {
			live += s.recLen()
			liveIn[s.file]++
		}
	}
	total, unsent := d.TotalFileSize(sh)
	if total != disk {
		r.Fail(w3Prop, "size_total", what, "%s: shard %d reports total size %d, files on disk sum to %d (%v)", what, sh, total, disk, names)
		return
	}
	if unsent < live || unsent > total || (drained && unsent != live) {
		r.Fail(w3Prop, "size_unsent", what, "%s: shard %d reports unsent %d; live seconds occupy %d bytes, total %d, tail drained=%v", what, sh, unsent, live, total, drained)
		return
	}
	for _, s := range secs {
		if s.state == w3Live {
			if sz, ok := sizes[s.file]; !ok || sz < s.pos+s.recLen() {
				r.Fail(w3Prop, "file_missing", what, "%s: shard %d: file %s of live second #%d (time %d) is missing or too short (size %d, need %d)", what, sh, s.file, s.seq, s.time, sz, s.pos+s.recLen())
				return
			}
		}
	}
	if !drained {
		// Strict reading of "deleted once the cache no longer writes to it": a fully erased file
		// that the tail reader still holds open lingers until the next ReadNextTailBucket call.
		// Counted, not failed: the reader's reference is part of "the cache still uses the file".
		writing, reading := w3WritingName(d, sh), w3ReadingName(d, sh)
		for _, n := range names {
			if liveIn[n] == 0 && n != writing && n == reading {
				r.Probe("erased_file_kept_until_tail_reader_moves")
			}
		}
	}
	if drained {
		writing := w3WritingName(d, sh)
		for _, n := range names {
			if liveIn[n] == 0 && n != writing {
				r.Fail(w3Prop, "file_not_removed", what, "%s: shard %d: file %s holds no live second, is not being written and the tail was read to its end, but it still exists", what, sh, n)
				return
			}
		}
	}
}

// classify explains an unexpected record coming back from the tail.
func w3Classify(secs []*w3Sec, file string, pos int64) (string, *w3Sec) {
	for _, s := range secs {
		if s.file == file && s.pos == pos {
			switch s.state {
			case w3Erased, w3Dropped:
				return "erased_reappeared", s
			case w3Torn:
				return "torn_reappeared", s
			default:
				return "tail_order", s
			}
		}
	}
	return "tail_unknown_record", nil
}

// audit reopens nothing itself: it takes a freshly opened instance over dir and checks it against
// secs (per shard, write order), where the second `torn` (may be nil) must be absent.
// The audit consumes the instance (it erases everything at the end).
func (w *w3World) audit(d *DiskBucketStorage, dir string, what string, torn *w3Sec) {
	r := w.r
	var scratch []byte
	for sh, ms := range w.shards {
		if r.Failed() {
			return
		}
		// expectation: copies, because the audit of a throw-away image must not touch the model
		var view []*w3Sec
		for _, s := range ms.secs {
			cp := *s
			cp.id = 0
			if s == torn {
				cp.state = w3Torn
			}
			view = append(view, &cp)
		}
		var exp []*w3Sec
		for _, s := range view {
			if s.state == w3Live {
				exp = append(exp, s)
			}
		}
		w.checkSizesFiles(d, dir, sh, view, false, what+"/opened")
		if r.Failed() {
			return
		}
		type got struct {
			time uint32
			id   int64
		}
		var gots []got
		for i := 0; ; i++ {
			tm, id := d.ReadNextTailBucket(sh)
			if id == 0 {
				break
			}
			if i > len(view)+2 {
				r.Fail(w3Prop, "tail_endless", what, "%s: shard %d: tail keeps producing seconds (%d so far, %d were ever written)", what, sh, i, len(view))
				return
			}
			file, pos, _ := w3Where(d, sh, id)
			if i >= len(exp) || exp[i].file != file || exp[i].pos != pos {
				clause, s := w3Classify(view, file, pos)
				if clause == "tail_order" {
					// a live second came out of order: some earlier live second was skipped
					r.Fail(w3Prop, "second_lost", what, "%s: shard %d: tail returned second #%d (time %d, %s@%d) while live second #%d (time %d, %s@%d) written before it was not returned",
						what, sh, s.seq, s.time, file, pos, exp[i].seq, exp[i].time, exp[i].file, exp[i].pos)
				} else if s != nil {
					r.Fail(w3Prop, clause, what, "%s: shard %d: tail returned second #%d (time %d, %s@%d) which was %s", what, sh, s.seq, s.time, file, pos,
						[]string{"live", "erased", "torn by the crash", "dropped as corrupt"}[s.state])
				} else {
					r.Fail(w3Prop, clause, what, "%s: shard %d: tail returned a second (time %d) at %s@%d where no second was ever written", what, sh, tm, file, pos)
				}
				return
			}
			if tm != exp[i].time {
				r.Fail(w3Prop, "tail_wrong_time", what, "%s: shard %d: second #%d has time %d, tail says %d", what, sh, exp[i].seq, exp[i].time, tm)
				return
			}
			exp[i].id = id
			gots = append(gots, got{tm, id})
		}
		if len(gots) < len(exp) {
			s := exp[len(gots)]
			r.Fail(w3Prop, "second_lost", what, "%s: shard %d: live second #%d (time %d, %d bytes, %s@%d) was not returned by the tail (%d of %d returned)", what, sh, s.seq, s.time, len(s.body), s.file, s.pos, len(gots), len(exp))
			return
		}
		for _, s := range exp {
			data, err := d.GetBucket(sh, s.id, s.time, &scratch)
			switch {
			case s.flipped && err == nil:
				r.Fail(w3Prop, "corruption_undetected", what, "%s: shard %d: second #%d had a bit of its body flipped on disk, GetBucket returned %d bytes without error (identical=%v)", what, sh, s.seq, len(data), bytes.Equal(data, s.body))
				return
			case s.flipped:
				s.state = w3Dropped
				r.Probe("corruption_detected_after_reopen")
			case err != nil:
				r.Fail(w3Prop, "get_failed", what, "%s: shard %d: GetBucket of intact live second #%d (time %d, %d bytes) failed: %v", what, sh, s.seq, s.time, len(s.body), err)
				return
			case !bytes.Equal(data, s.body):
				r.Fail(w3Prop, "get_wrong_bytes", what, "%s: shard %d: GetBucket of second #%d returned different bytes (%d vs %d written)", what, sh, s.seq, len(data), len(s.body))
				return
			}
		}
		w.checkSizesFiles(d, dir, sh, view, true, what+"/read")
		if r.Failed() {
			return
		}
		// erase everything: every file must disappear (this instance writes nothing)
		for _, s := range exp {
			if s.state != w3Live {
				continue
			}
			if err := d.EraseBucket(sh, s.id); err != nil {
				r.Fail(w3Prop, "erase_failed", what, "%s: shard %d: EraseBucket of second #%d failed: %v", what, sh, s.seq, err)
				return
			}
			s.state = w3Erased
		}
		w.checkSizesFiles(d, dir, sh, view, true, what+"/erased-all")
	}
}

func w3CopyDir(src, dst string, nShards int) {
	if err := os.MkdirAll(dst, 0o777); err != nil {
		panic(err)
	}
	for sh := 0; sh < nShards; sh++ {
		sd := filepath.Join(src, strconv.Itoa(sh))
		dd := filepath.Join(dst, strconv.Itoa(sh))
		if err := os.MkdirAll(dd, 0o777); err != nil {
			panic(err)
		}
		des, err := os.ReadDir(sd)
		if err != nil {
			panic(err)
		}
		for _, de := range des {
			b, err := os.ReadFile(filepath.Join(sd, de.Name()))
			if err != nil {
				panic(err)
			}
			if err := os.WriteFile(filepath.Join(dd, de.Name()), b, 0o666); err != nil {
				panic(err)
			}
		}
	}
}

// restart closes the instance cleanly and opens a new one over the same directory.
func (w *w3World) restart() {
	r := w.r
	r.Sched("restart", "process")
	if err := w.d.Close(); err != nil {
		r.Fail(w3Prop, "close_failed", "close", "Close failed: %v", err)
		return
	}
	w.newLifetime(w.dir)
	r.Event("process", "clean restart")
}

func (w *w3World) newLifetime(dir string) {
	w.dir = dir
	w.d = w.open(dir)
	w.lastPut = nil
	for _, ms := range w.shards {
		ms.drained = false
		ms.ids = map[int64]bool{}
		for _, s := range ms.secs {
			s.id = 0
			s.prev = true
		}
	}
	if w.d == nil {
		return
	}
	for sh, ms := range w.shards {
		w.checkSizesFiles(w.d, w.dir, sh, ms.secs, false, "after-open")
	}
}

// crash: the process dies while no operation is in flight. The directory is copied; for the last
// put of this lifetime every prefix of its record (header and body are two writes) is tried as
// the surviving content. Every image is reopened and audited. One image is adopted.
func (w *w3World) crash() {
	r, c := w.r, w.c
	r.Sched("crash", "process")
	r.Fault("crash")
	base := filepath.Join(w.root, fmt.Sprintf("base%d", w.gen))
	w3CopyDir(w.dir, base, len(w.shards))
	lp := w.lastPut
	full := int64(-1)
	adoptCut := int64(-1) // -1: adopt the complete image
	if lp != nil {
		full = lp.recLen()
		r.Event("process", "crash; last put #%d shard %d %s@%d len %d state %d", lp.seq, lp.shard, lp.file, lp.pos, full, lp.state)
		if k := c.Intn(int(full)+1, "adopt_cut"); k > 0 {
			adoptCut = full - int64(k) // k=1: one byte short ... k=full: nothing of the record
		}
	} else {
		r.Event("process", "crash; no put in this lifetime")
	}
	// the complete image (kill after the write completed)
	w.auditImage(base, "crash-full", nil, -1, nil)
	if lp != nil && !r.Failed() {
		for cut := int64(0); cut < full && !r.Failed(); cut++ {
			var torn *w3Sec
			if lp.state == w3Live {
				torn = lp
			}
			what := "crash-torn-body"
			switch {
			case cut == 0:
				what = "crash-before-write"
			case cut < headerSize:
				what = "crash-torn-header"
			case cut == headerSize:
				what = "crash-between-header-and-body"
				r.Probe("crash_between_header_and_body")
			}
			w.auditImage(base, what, lp, cut, torn)
			r.Extra["truncation_offsets"]++
		}
	}
	if r.Failed() {
		return
	}
	// adopt: the old process is gone (its descriptors are closed by the OS)
	_ = w.d.Close()
	next := filepath.Join(w.root, fmt.Sprintf("gen%d", w.gen+1))
	w.gen++
	if err := os.Rename(base, next); err != nil {
		panic(err)
	}
	if adoptCut >= 0 {
		if err := os.Truncate(filepath.Join(next, strconv.Itoa(lp.shard), lp.file), lp.pos+adoptCut); err != nil {
			panic(err)
		}
		if lp.state == w3Live {
			lp.state = w3Torn
		}
		r.Fault("torn_write_adopted")
		r.Event("process", "continue on the image with the last record cut to %d of %d bytes", adoptCut, full)
	} else {
		r.Event("process", "continue on the complete image")
	}
	old := w.dir
	w.newLifetime(next)
	_ = os.RemoveAll(old)
}

// auditImage builds one crash image from base (optionally truncating the record of lp to cut
// bytes), reopens it, audits it and removes it.
func (w *w3World) auditImage(base, what string, lp *w3Sec, cut int64, torn *w3Sec) {
	img := filepath.Join(w.root, "img")
	_ = os.RemoveAll(img)
	w3CopyDir(base, img, len(w.shards))
	if lp != nil {
		if err := os.Truncate(filepath.Join(img, strconv.Itoa(lp.shard), lp.file), lp.pos+cut); err != nil {
			panic(err)
		}
	}
	d := w.open(img)
	if d == nil {
		return
	}
	w.r.Extra["crash_images"]++
	w.audit(d, img, what, torn)
	if w.r.Failed() && lp != nil {
		w.r.Event("oracle", "failing image: record of last put #%d (%d bytes at %s@%d) cut to %d bytes", lp.seq, lp.recLen(), lp.file, lp.pos, cut)
	}
	_ = d.Close()
	_ = os.RemoveAll(img)
}

func w3Exec(t *testing.T, r *verifsim.Run) {
	verifsim.Bubble(t, func(t *testing.T) { w3Run(t, r) })
}

func w3Run(t *testing.T, r *verifsim.Run) {
	c := r.C
	w := &w3World{r: r, c: c, start: time.Now()}
	base := os.Getenv("VERIF_TMP")
	if base == "" {
		base = "/dev/shm"
	}
	w.root = filepath.Join(base, fmt.Sprintf("w3-%d-%d", os.Getpid(), w3RunCounter.Add(1)))
	_ = os.RemoveAll(w.root)
	defer os.RemoveAll(w.root)
	defer func() { r.SimNanos = int64(time.Since(w.start)) }()

	// ---- configuration ----
	nShards := 1 + c.Intn(3, "shards")
	faulty := c.Intn(3, "faulty") != 0 // 1/3 of the runs: clean restarts only
	w.sizeMode = c.Intn(10, "sizes")   // 0-6 tiny bodies, 7-8 medium, 9 large
	ops := 15 + c.Intn(60, "ops")
	maxCrashes := 1 + c.Intn(3, "max_crashes")
	if w.sizeMode == 9 {
		ops = 10 + ops/3
		maxCrashes = 1
	}
	r.Config["shards"] = nShards
	r.Config["faulty"] = faulty
	r.Config["size_mode"] = w.sizeMode
	r.Config["ops"] = ops
	r.Config["max_crashes"] = maxCrashes
	for i := 0; i < nShards; i++ {
		w.shards = append(w.shards, &w3Shard{ids: map[int64]bool{}})
	}
	w.dir = filepath.Join(w.root, "gen0")
	if err := os.MkdirAll(w.dir, 0o777); err != nil {
		panic(err)
	}
	for k := range w.callers {
		cl := &w3Caller{ch: make(chan func())}
		w.callers[k] = cl
		go func() {
			for fn := range cl.ch {
				func() {
					defer r.Guard("disk cache call")
					fn()
				}()
			}
		}()
	}
	defer func() {
		for _, cl := range w.callers {
			close(cl.ch)
		}
		verifsim.Wait()
	}()
	w.d = w.open(w.dir)
	if w.d == nil {
		return
	}
	crashes := 0

	for op := 0; op < ops && !r.Failed(); op++ {
		w3Settle()
		k := c.Intn(20, "op")
		caller := c.Intn(2, "caller")
		actor := fmt.Sprintf("caller%d", caller)
		sh := c.Intn(nShards, "shard")
		switch {
		case k <= 5:
			w.opPut(caller, actor, sh)
		case k <= 8:
			w.opGet(caller, actor, sh, false)
		case k <= 10:
			w.opErase(caller, actor, sh)
		case k <= 12:
			w.opTail(caller, actor, sh)
		case k == 13:
			w.opGet(caller, actor, sh, true)
		case k == 14:
			d := []time.Duration{time.Millisecond, time.Second, 10 * time.Minute, fileRotateInterval, fileRotateInterval + 7*time.Second}[c.Intn(5, "sleep")]
			r.Sched("sleep", "clock")
			time.Sleep(d)
			r.Event("clock", "advance %v", d)
		case k == 15:
			w.restart()
		case k == 16:
			if !faulty || crashes >= maxCrashes {
				w.opPut(caller, actor, sh)
				continue
			}
			crashes++
			w.crash()
		case k == 17:
			if !faulty {
				w.opGet(caller, actor, sh, false)
				continue
			}
			w.opFlip(sh)
		case k == 18:
			// two callers at once on different shards (shards are independent: own directory, own mutex)
			if nShards < 2 {
				w.opTail(caller, actor, sh)
				continue
			}
			sh2 := (sh + 1 + c.Intn(nShards-1, "shard2")) % nShards
			w.opPutPair(sh, sh2)
		default:
			w.opErase(caller, actor, sh)
		}
		if w.d == nil || r.Failed() {
			break
		}
		for s, ms := range w.shards {
			w.checkSizesFiles(w.d, w.dir, s, ms.secs, ms.drained, "after-op")
		}
	}
	if r.Failed() || w.d == nil {
		if w.d != nil {
			_ = w.d.Close()
		}
		return
	}
	// ---- end of run: one more crash enumeration in faulty runs, then clean restart + full audit ----
	if faulty && crashes == 0 && w.lastPut != nil {
		w.crash()
		if r.Failed() || w.d == nil {
			if w.d != nil {
				_ = w.d.Close()
			}
			return
		}
	}
	if err := w.d.Close(); err != nil {
		r.Fail(w3Prop, "close_failed", "close", "Close failed: %v", err)
		return
	}
	r.Sched("restart", "process")
	d := w.open(w.dir)
	if d == nil {
		return
	}
	w.audit(d, w.dir, "final", nil)
	_ = d.Close()
	r.Event("process", "final audit done, warnings logged by the cache: %d", w.warnings.Load())
}

func (w *w3World) bodyLen() int {
	c := w.c
	switch {
	case w.sizeMode <= 6:
		return c.Intn(17, "len")
	case w.sizeMode <= 8:
		return []int{0, 1, 3, 4, 19, 20, 21, 64, 300}[c.Intn(9, "len")]
	default:
		return []int{5, 100, 1000, 1500, 2000}[c.Intn(5, "len")]
	}
}

func (w *w3World) newSec(sh int) *w3Sec {
	w.seq++
	tm := uint32(946684800 + w.seq)
	switch w.c.Intn(4, "time") {
	case 1:
		tm = 946684800 // the same second many times
	case 2:
		tm = uint32(w.c.Intn(1<<16, "time_any")) * 65537
	}
	return &w3Sec{shard: sh, seq: w.seq, time: tm, body: w3Body(w.seq, w.bodyLen())}
}

// afterPut validates the result of one PutBucket and records it in the model.
func (w *w3World) afterPut(actor string, s *w3Sec, id int64, err error) {
	r := w.r
	ms := w.shards[s.shard]
	prevWriting := ""
	for i := len(ms.secs) - 1; i >= 0; i-- {
		if !ms.secs[i].prev {
			prevWriting = ms.secs[i].file
			break
		}
	}
	if err != nil {
		r.Fail(w3Prop, "put_failed", "put", "PutBucket(shard %d, time %d, %d bytes) failed: %v", s.shard, s.time, len(s.body), err)
		return
	}
	if id == 0 || ms.ids[id] {
		r.Fail(w3Prop, "put_id", "put", "PutBucket returned id %d (zero or already handed out in this lifetime)", id)
		return
	}
	ms.ids[id] = true
	s.id = id
	file, pos, ok := w3Where(w.d, s.shard, id)
	if !ok {
		r.Fail(w3Prop, "put_id", "put", "PutBucket returned id %d that the cache does not know", id)
		return
	}
	s.file, s.pos = file, pos
	if prevWriting != "" && prevWriting != file {
		r.Probe("file_rotated")
	}
	ms.secs = append(ms.secs, s)
	w.lastPut = s
	r.Event(actor, "put shard=%d #%d time=%d len=%d -> id=%d %s@%d", s.shard, s.seq, s.time, len(s.body), id, file, pos)
}

func (w *w3World) opPut(caller int, actor string, sh int) {
	s := w.newSec(sh)
	var id int64
	var err error
	w.r.Sched("put", actor)
	w.do(caller, func() { id, err = w.d.PutBucket(sh, s.time, s.body) })
	if w.r.Failed() {
		return
	}
	w.afterPut(actor, s, id, err)
}

func (w *w3World) opPutPair(sh1, sh2 int) {
	s1, s2 := w.newSec(sh1), w.newSec(sh2)
	var id1, id2 int64
	var err1, err2 error
	w.r.Sched("put2", "caller0")
	w.r.Sched("put2", "caller1")
	w.callers[0].ch <- func() { id1, err1 = w.d.PutBucket(sh1, s1.time, s1.body) }
	w.callers[1].ch <- func() { id2, err2 = w.d.PutBucket(sh2, s2.time, s2.body) }
	verifsim.Wait()
	if w.r.Failed() {
		return
	}
	w.r.Probe("parallel_puts")
	w.afterPut("caller0", s1, id1, err1)
	if !w.r.Failed() {
		w.afterPut("caller1", s2, id2, err2)
	}
}

// known lists the seconds of a shard that have an id in this lifetime.
func (w *w3World) known(sh int, state int) []*w3Sec {
	var out []*w3Sec
	for _, s := range w.shards[sh].secs {
		if s.id != 0 && s.state == state {
			out = append(out, s)
		}
	}
	return out
}

func (w *w3World) opGet(caller int, actor string, sh int, odd bool) {
	r, c := w.r, w.c
	cl := w.callers[caller]
	live := w.known(sh, w3Live)
	r.Sched("get", actor)
	if odd || len(live) == 0 {
		// requests that must fail: erased id, never issued id, right id with the wrong second
		gone := append(w.known(sh, w3Erased), w.known(sh, w3Dropped)...)
		kind := c.Intn(3, "odd_get")
		var id int64
		var tm uint32
		what := ""
		switch {
		case kind == 1 && len(gone) > 0:
			s := gone[c.Intn(len(gone), "gone")]
			id, tm, what = s.id, s.time, "erased id"
		case kind == 2 && len(live) > 0:
			s := live[c.Intn(len(live), "live")]
			id, tm, what = s.id, s.time+1, "wrong second"
		default:
			id, tm, what = 1000000+int64(c.Intn(5, "bogus")), 946684800, "unknown id"
		}
		var data []byte
		var err error
		w.do(caller, func() { data, err = w.d.GetBucket(sh, id, tm, &cl.scratch) })
		r.Event(actor, "get shard=%d id=%d (%s) -> err=%v", sh, id, what, err != nil)
		if err == nil && !r.Failed() {
			r.Fail(w3Prop, "get_should_fail", what, "GetBucket(shard %d, id %d, time %d) for %s returned %d bytes without error", sh, id, tm, what, len(data))
		}
		return
	}
	s := live[c.Intn(len(live), "live")]
	var data []byte
	var err error
	w.do(caller, func() { data, err = w.d.GetBucket(sh, s.id, s.time, &cl.scratch) })
	if r.Failed() {
		return
	}
	r.Event(actor, "get shard=%d #%d id=%d flipped=%v -> len=%d err=%v", sh, s.seq, s.id, s.flipped, len(data), err != nil)
	switch {
	case s.flipped && err == nil:
		r.Fail(w3Prop, "corruption_undetected", "get", "second #%d had a bit of its body flipped on disk, GetBucket returned %d bytes without error (identical=%v)", s.seq, len(data), bytes.Equal(data, s.body))
	case s.flipped:
		s.state = w3Dropped // the cache erases what it cannot read; it must never come back
		r.Probe("corruption_detected")
	case err != nil:
		r.Fail(w3Prop, "get_failed", "get", "GetBucket of intact live second #%d (shard %d, time %d, %d bytes) failed: %v", s.seq, sh, s.time, len(s.body), err)
	case !bytes.Equal(data, s.body):
		r.Fail(w3Prop, "get_wrong_bytes", "get", "GetBucket of second #%d returned different bytes (%d vs %d written)", s.seq, len(data), len(s.body))
	}
}

func (w *w3World) opErase(caller int, actor string, sh int) {
	r, c := w.r, w.c
	live := w.known(sh, w3Live)
	r.Sched("erase", actor)
	if len(live) == 0 || c.Intn(8, "erase_odd") == 7 {
		id := 1000000 + int64(c.Intn(5, "bogus"))
		if gone := w.known(sh, w3Erased); len(gone) > 0 {
			id = gone[c.Intn(len(gone), "gone")].id
		}
		var err error
		w.do(caller, func() { err = w.d.EraseBucket(sh, id) })
		r.Event(actor, "erase shard=%d id=%d (not live) -> err=%v", sh, id, err != nil)
		if err != nil && !r.Failed() {
			r.Fail(w3Prop, "erase_failed", "erase-nop", "EraseBucket of id %d that holds nothing failed: %v", id, err)
		}
		return
	}
	s := live[c.Intn(len(live), "live")]
	var err error
	w.do(caller, func() { err = w.d.EraseBucket(sh, s.id) })
	if r.Failed() {
		return
	}
	r.Event(actor, "erase shard=%d #%d id=%d -> err=%v", sh, s.seq, s.id, err != nil)
	if err != nil {
		r.Fail(w3Prop, "erase_failed", "erase", "EraseBucket of live second #%d failed: %v", s.seq, err)
		return
	}
	s.state = w3Erased
}

func (w *w3World) opTail(caller int, actor string, sh int) {
	r := w.r
	ms := w.shards[sh]
	var next *w3Sec
	for _, s := range ms.secs {
		if s.prev && s.id == 0 && s.state == w3Live {
			next = s
			break
		}
	}
	var tm uint32
	var id int64
	r.Sched("tail", actor)
	w.do(caller, func() { tm, id = w.d.ReadNextTailBucket(sh) })
	if r.Failed() {
		return
	}
	r.Event(actor, "tail shard=%d -> time=%d id=%d", sh, tm, id)
	if id == 0 {
		if next != nil {
			r.Fail(w3Prop, "second_lost", "tail", "shard %d: tail is finished but live second #%d (time %d, %s@%d) from an earlier lifetime was never returned", sh, next.seq, next.time, next.file, next.pos)
			return
		}
		ms.drained = true
		return
	}
	if ms.ids[id] {
		r.Fail(w3Prop, "put_id", "tail", "ReadNextTailBucket returned id %d that was already handed out in this lifetime", id)
		return
	}
	ms.ids[id] = true
	file, pos, _ := w3Where(w.d, sh, id)
	if next == nil || next.file != file || next.pos != pos {
		clause, s := w3Classify(ms.secs, file, pos)
		switch {
		case clause == "tail_order" && next != nil:
			r.Fail(w3Prop, "second_lost", "tail", "shard %d: tail returned second #%d (%s@%d) while live second #%d (%s@%d) written before it was not returned", sh, s.seq, file, pos, next.seq, next.file, next.pos)
		case s != nil:
			r.Fail(w3Prop, clause, "tail", "shard %d: tail returned second #%d (time %d, %s@%d) which is %s", sh, s.seq, s.time, file, pos,
				[]string{"live but already handed out or written in this lifetime", "erased", "torn by the crash", "dropped as corrupt"}[s.state])
		default:
			r.Fail(w3Prop, clause, "tail", "shard %d: tail returned a second (time %d) at %s@%d where no second was ever written", sh, tm, file, pos)
		}
		return
	}
	if tm != next.time {
		r.Fail(w3Prop, "tail_wrong_time", "tail", "shard %d: second #%d has time %d, tail says %d", sh, next.seq, next.time, tm)
		return
	}
	next.id = id
	r.Probe("tail_second_read")
}

// opFlip flips one bit inside the stored body of a live second (media corruption).
func (w *w3World) opFlip(sh int) {
	r, c := w.r, w.c
	var cands []*w3Sec
	for _, s := range w.shards[sh].secs {
		if s.state == w3Live && !s.flipped && len(s.body) > 0 {
			cands = append(cands, s)
		}
	}
	r.Sched("bitflip", "media")
	if len(cands) == 0 {
		return
	}
	s := cands[c.Intn(len(cands), "flip_sec")]
	off := c.Intn(len(s.body), "flip_byte")
	bit := c.Intn(8, "flip_bit")
	path := filepath.Join(w.dir, strconv.Itoa(sh), s.file)
	f, err := os.OpenFile(path, os.O_RDWR, 0)
	if err != nil {
		panic(err)
	}
	var b [1]byte
	at := s.pos + headerSize + int64(off)
	if _, err := f.ReadAt(b[:], at); err != nil {
		panic(err)
	}
	if b[0] != s.body[off] {
		f.Close()
		r.Fail(w3Prop, "disk_content", "flip", "shard %d: byte %d of the stored body of second #%d is %#x on disk, %#x was written", sh, off, s.seq, b[0], s.body[off])
		return
	}
	b[0] ^= 1 << uint(bit)
	if _, err := f.WriteAt(b[:], at); err != nil {
		panic(err)
	}
	f.Close()
	s.flipped = true
	r.Fault("bitflip")
	r.Event("media", "flip shard=%d #%d byte=%d bit=%d known=%v", sh, s.seq, off, bit, s.id != 0)
}

func TestVerifW3(t *testing.T) {
	verifsim.Main(t, &verifsim.World{Name: "w3_disk_cache", Props: []string{w3Prop}, Exec: w3Exec})
}
