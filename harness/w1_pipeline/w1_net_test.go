//go:build verif

package aggregator

// W1, part "network": SimClient (rpc.Client) used by the real agents and simConn
// (rpc.HandlerContextConnection) handed to the real aggregator handlers. No sockets. Every
// per-message decision is a keyed hash of (seed, agent, replica, kind, second, attempt#).

import (
	"bytes"
	"context"
	"encoding/binary"
	"errors"
	"fmt"
	"net"
	"runtime"
	"strings"
	"sync"
	"time"
	"unsafe"

	"github.com/VKCOM/tl/pkg/rpc"

	"github.com/VKCOM/statshouse/internal/agent"
	"github.com/VKCOM/statshouse/internal/compress"
	"github.com/VKCOM/statshouse/internal/data_model/gen2/tlstatshouse"
	"github.com/VKCOM/statshouse/internal/verifsim"
)

const (
	w1KindRecent = iota
	w1KindHistoric
	w1KindKeepAlive
	w1KindTest
	w1KindOther
)

var w1KindNames = [...]string{"recent", "historic", "keepalive", "testconn", "other"}

// salts of the keyed decisions
const (
	w1SaltDropReq = 101 + iota
	w1SaltDropResp
	w1SaltDelayReq
	w1SaltDelayReqAmt
	w1SaltDelayResp
	w1SaltDelayRespAmt
	w1SaltDup
	w1SaltDupAmt
	w1SaltDetect
	w1SaltCH
	w1SaltCHAmt
	w1SaltPartitionMode
	w1SaltCorrupt
	w1SaltCorruptAmt
	w1SaltPause
	w1SaltPauseMode
	w1SaltPauseYields
)

type w1Result struct {
	body []byte
	err  error
}

type w1Call struct {
	inst    *w1Inst
	replica int
	repGen  int
	kind    int
	T       uint32
	spare   bool
	attempt int
	body    []byte
	qid     int64
	ch      chan w1Result
	conn    *w1Conn
	dup     bool // duplicate copy of a request: its response goes nowhere
	payload *w1Payload
	corrupt bool     // the simulator damaged the compressed bucket payload of this request (a duplicate carries the same bytes)
	pause   *w1Pause // handler-pause schedule of this request (nil: the handler runs through), see w1_pause_test.go

	// under w.mu
	respPending bool // the aggregator's response is on its way to the client
	done        bool // the client-side outcome is decided
	cancelled   bool // the client gave up (ctx) before an outcome
	respDrop    bool
	respDelay   time.Duration
}

type w1Client struct {
	w       *w1World
	inst    *w1Inst
	replica int
}

var _ rpc.Client = (*w1Client)(nil)

func (c *w1Client) GetRequest() *rpc.Request                { return &rpc.Request{} }
func (c *w1Client) PutResponse(*rpc.Response)               {}
func (c *w1Client) ResetReconnectDelay(address rpc.NetAddr) {}
func (c *w1Client) Logf(format string, args ...any)         {}
func (c *w1Client) Close() error                            { return nil }
func (c *w1Client) Multi(n int) *rpc.Multi                  { panic("w1 SimClient: Multi is not used by the agent") }
func (c *w1Client) DoCallback(ctx context.Context, network string, address string, req *rpc.Request, cb rpc.ClientCallback, userData any) (rpc.CallbackContext, error) {
	panic("w1 SimClient: DoCallback is not used by the agent")
}
func (c *w1Client) DoMulti(ctx context.Context, addresses []rpc.NetAddr, prepareRequest func(addr rpc.NetAddr, req *rpc.Request) error, processResponse func(addr rpc.NetAddr, resp *rpc.Response, err error) error) error {
	panic("w1 SimClient: DoMulti is not used by the agent")
}

// w1Classify decodes what the generated client put on the wire (generated TL types only).
func w1Classify(body []byte) (kind int, T uint32, spare bool, args *tlstatshouse.SendSourceBucket3Bytes) {
	if len(body) < 4 {
		return w1KindOther, 0, false, nil
	}
	switch binary.LittleEndian.Uint32(body) {
	case tlstatshouse.SendSourceBucket3{}.TLTag():
		var a tlstatshouse.SendSourceBucket3Bytes
		if _, err := a.ReadTL1(body[4:]); err != nil {
			return w1KindOther, 0, false, nil
		}
		kind = w1KindRecent
		if a.IsSetHistoric() {
			kind = w1KindHistoric
		}
		return kind, a.Time, a.IsSetSpare(), &a
	case tlstatshouse.SendKeepAlive3{}.TLTag():
		return w1KindKeepAlive, 0, false, nil
	case tlstatshouse.TestConnection2{}.TLTag():
		return w1KindTest, 0, false, nil
	}
	return w1KindOther, 0, false, nil
}

// Attempts are numbered per (agent, replica, kind, second, payload class). The class matters: after a
// restart an agent process can hold two different buckets for one second (its killed predecessor's,
// with the workload's rows, and its own nearly empty one) and two of its historic senders then send
// them in the same instant. Which goroutine asks first is not a function of the choice vector, so the
// two must not draw their numbers (and with them their fault decisions) from one counter.
type w1AttemptKey struct {
	agent, replica, kind int
	T                    uint32
	marker               bool
}

var errW1ConnReset = errors.New("w1 sim: connection reset")

func (c *w1Client) Do(ctx context.Context, network string, address string, req *rpc.Request) (*rpc.Response, error) {
	w, inst := c.w, c.inst
	kind, T, spare, args := w1Classify(req.Body)
	if inst.dead.Load() {
		return c.deadExit(ctx, kind)
	}
	if err := ctx.Err(); err != nil {
		return nil, err
	}
	if kind == w1KindKeepAlive || kind == w1KindTest {
		T = uint32(time.Now().Unix())
	}
	var call *w1Call
	for {
		w.mu.Lock()
		var payload *w1Payload
		if kind <= w1KindHistoric && args != nil {
			payload = w.payloadLocked(inst, args)
		}
		key := w1AttemptKey{inst.agent, c.replica, kind, T, payload != nil && payload.hasMarker}
		rep := w.reps[c.replica]
		reachable := rep.up && !rep.rpcClosed && !w.partition[inst.agent][c.replica]
		if !reachable {
			if req.FailIfNoConnection {
				attempt := w.attempts[key]
				w.attempts[key]++
				w.recLocked(w1Rec{typ: w1RecNoConn, agent: inst.agent, agentGen: inst.gen, replica: c.replica, kind: kind, T: T, spare: spare, attempt: attempt})
				w.mu.Unlock()
				// a failed connect is not instantaneous either; the unique jitter keeps the agent's retry
				// timers from landing on the very instant of its next periodic send
				time.Sleep(time.Duration(1000 + w.c.Keyed(899000, w1SaltDelayReqAmt+2000, uint64(inst.agent), uint64(c.replica), uint64(kind), uint64(T), uint64(attempt))))
				return nil, rpc.ErrClientConnClosedNoSideEffect
			}
			changed := w.netChanged
			w.mu.Unlock()
			select { // the library's client would keep reconnecting with backoff
			case <-ctx.Done():
				return nil, ctx.Err()
			case <-changed:
			}
			if inst.dead.Load() {
				return c.deadExit(ctx, kind)
			}
			continue
		}
		attempt := w.attempts[key]
		w.attempts[key]++
		w.nextQID++
		call = &w1Call{inst: inst, replica: c.replica, repGen: rep.gen, kind: kind, T: T, spare: spare, attempt: attempt,
			body: append([]byte(nil), req.Body...), qid: w.nextQID, ch: make(chan w1Result, 2)}
		call.conn = &w1Conn{w: w, call: call}
		inst.calls[call] = struct{}{}
		if payload != nil {
			call.payload = payload
			w.noteWireLocked(inst, args.Time, payload)
		}
		w.recLocked(w1Rec{typ: w1RecSend, agent: inst.agent, agentGen: inst.gen, replica: c.replica, repGen: rep.gen, kind: kind, T: T, spare: spare, attempt: attempt})
		break
	}
	// fault decisions of this message (w.mu held)
	f := w.cfg.faults
	on := w.faultsOn
	hit := func(salt uint64, permille int) bool {
		return on && permille > 0 && int(w.c.Keyed(1000, salt, uint64(inst.agent), uint64(c.replica), uint64(kind), uint64(T), uint64(call.attempt))) < permille
	}
	amount := func(salt uint64, n uint64) uint64 {
		return w.c.Keyed(n, salt, uint64(inst.agent), uint64(c.replica), uint64(kind), uint64(T), uint64(call.attempt))
	}
	// a unique sub-millisecond jitter per message keeps simulator events off second boundaries and
	// off each other's instants
	// Request/response latencies are an EVEN number of nanoseconds; the moment at which a client-side
	// deadline takes effect is shifted by an ODD number (see below), so the two can never share an instant.
	jitter := time.Duration(2 * (500 + amount(w1SaltDelayReqAmt+1000, 450000))) // nanoseconds
	cancelJitter := time.Duration(1001 + 2*amount(w1SaltDelayReqAmt+3000, 450000))
	dropReq := hit(w1SaltDropReq, f.dropReq)
	reqDelay := jitter
	if hit(w1SaltDelayReq, f.delay) {
		reqDelay += w1DelayAmount(amount(w1SaltDelayReqAmt, 1000))
		w.faultLocked("net_delay_request")
	}
	call.respDelay = (jitter / 4) * 2
	if hit(w1SaltDelayResp, f.delay) {
		call.respDelay += w1DelayAmount(amount(w1SaltDelayRespAmt, 1000))
		w.faultLocked("net_delay_response")
	}
	call.respDrop = hit(w1SaltDropResp, f.dropResp)
	if !dropReq && kind <= w1KindHistoric && args != nil && hit(w1SaltCorrupt, f.corrupt) {
		// net_corrupt_request: the bytes of the compressed bucket payload are damaged on the way (one byte
		// changed, or the payload cut short) such that they no longer decode to a source bucket
		if body, how := w1CorruptRequest(call.body, args, amount(w1SaltCorruptAmt, 1<<40)); body != nil {
			call.body, call.corrupt = body, true
			w.faultLocked("net_corrupt_request")
			w.recLocked(w1Rec{typ: w1RecCorrupt, agent: inst.agent, agentGen: inst.gen, replica: c.replica, repGen: call.repGen, kind: kind, T: T, spare: spare, attempt: call.attempt, note: how})
		} else {
			w.probeLocked("harness_corruption_candidates_all_decodable")
		}
	}
	if !dropReq && !call.corrupt && kind == w1KindHistoric && w.cfg.handlerPause != 0 {
		// handler-pause schedule (not a fault): the request arrives in the second before the boundary at
		// which this replica's ticker next hands a bucket of its own to an inserter, and its handler
		// pauses between two rows until that boundary
		if p, extra := w.planPause(c.replica, call.payload, time.Now().Add(reqDelay), amount); p != nil {
			call.pause = p
			reqDelay += extra
		}
	}
	if inst.raw && !dropReq && !call.corrupt && kind == w1KindRecent && call.payload != nil && call.payload.decodeErr == "" &&
		call.payload.firstRejected >= 0 && amount(w1SaltPause, 4) != 0 {
		// a raw request with a row the aggregator rejects: its handler pauses right after that row (until the
		// next second boundary, then a few yields), the window in which other handlers meet the rejected key
		call.pause = &w1Pause{target: call.payload.firstRejected + 1, yields: int(amount(w1SaltPauseYields, 4))}
	}
	dup := !dropReq && kind <= w1KindHistoric && hit(w1SaltDup, f.dup)
	var dupCall *w1Call
	if dup {
		w.nextQID++
		dupCall = &w1Call{inst: inst, replica: c.replica, repGen: call.repGen, kind: kind, T: T, spare: spare, attempt: call.attempt,
			body: call.body, qid: w.nextQID, ch: make(chan w1Result, 2), dup: true, payload: call.payload, corrupt: call.corrupt}
		dupCall.conn = &w1Conn{w: w, call: dupCall}
		w.faultLocked("net_duplicate_request")
	}
	detect := time.Duration(2000+amount(w1SaltDetect, 13000))*time.Millisecond + jitter
	if dropReq {
		w.faultLocked("net_drop_request")
		w.recLocked(w1Rec{typ: w1RecNetDrop, agent: inst.agent, agentGen: inst.gen, replica: c.replica, kind: kind, T: T, attempt: call.attempt, note: "request"})
	}
	w.mu.Unlock()

	if dropReq {
		// the connection died with the request in it; the client notices after its ping timeout
		go func() {
			time.Sleep(detect)
			w.finish(call, w1Result{err: rpc.ErrClientConnClosedSideEffect})
		}()
	} else {
		go w.deliver(call, reqDelay)
		if dupCall != nil {
			go w.deliver(dupCall, reqDelay+w1DelayAmount(amount(w1SaltDupAmt, 1000)))
		}
	}

	var res w1Result
	select {
	case res = <-call.ch:
	case <-ctx.Done():
		// Client deadlines lie on the agent's own grid: a keep-alive's deadline is an exact second
		// boundary, the very instant at which the aggregators' tickers finish inserts and answer long
		// polls. Whether the answer or the cancellation wins there would be a goroutine race. The
		// cancellation therefore takes effect a unique odd number of nanoseconds later (what a cancel
		// packet's latency does in reality); by then everything of the boundary instant has settled.
		time.Sleep(cancelJitter)
		w.mu.Lock()
		if call.done { // an outcome was decided earlier in fake time: it wins
			w.mu.Unlock()
			res = <-call.ch
			break
		}
		call.done = true
		call.cancelled = true
		delete(inst.calls, call)
		w.recLocked(w1Rec{typ: w1RecAck, agent: inst.agent, agentGen: inst.gen, replica: c.replica, kind: kind, T: T, attempt: call.attempt, note: "ctx:" + w1CtxClass(ctx.Err())})
		w.mu.Unlock()
		call.conn.clientGone() // what rpcCancelReq does on the server
		return nil, ctx.Err()
	}
	w.mu.Lock()
	delete(inst.calls, call)
	rec := w1Rec{typ: w1RecAck, agent: inst.agent, agentGen: inst.gen, replica: c.replica, kind: kind, T: T, attempt: call.attempt, corrupt: call.corrupt}
	if res.err != nil {
		rec.note = "err:" + w1ErrClass(res.err)
	} else if kind <= w1KindKeepAlive {
		var ssb3 tlstatshouse.SendSourceBucket3
		var resp tlstatshouse.SendSourceBucket3Response
		if _, err := ssb3.ReadResultTL1(res.body, &resp); err != nil {
			rec.note = "undecodable_response"
		} else {
			rec.discard = resp.IsSetDiscard()
			rec.note = "ok"
			if kind <= w1KindHistoric && rec.discard && !inst.dead.Load() && call.payload != nil && call.payload.hasMarker {
				w.noteAckLocked(inst.agent, T, call.corrupt)
			}
		}
	} else {
		rec.note = "ok"
	}
	w.recLocked(rec)
	w.mu.Unlock()
	if inst.dead.Load() { // killed while the call was outstanding
		return c.deadExit(ctx, kind)
	}
	if res.err != nil {
		return nil, res.err
	}
	return &rpc.Response{Body: res.body}, nil
}

// deadExit is reached by goroutines of a killed agent process. Loops that never end on their own
// (live checker, test-connection loop, historic senders) are terminated here so that they neither
// leak nor keep the fake clock busy; the others get an error and run into their closed channels.
func (c *w1Client) deadExit(ctx context.Context, kind int) (*rpc.Response, error) {
	if c.inst.raw { // no agent goroutines behind a raw sender: its one-shot goroutine just returns
		return nil, rpc.ErrClientClosed
	}
	switch kind {
	case w1KindKeepAlive, w1KindTest:
		runtime.Goexit()
	case w1KindHistoric:
		c.inst.histExits.Add(1)
		agent.VerifW1ExitHistoricSender(c.inst.ag, 0)
	}
	if err := ctx.Err(); err != nil {
		return nil, err
	}
	return nil, rpc.ErrClientClosed
}

// w1Undecodable: the bytes are no source bucket for the repository's own decompressor and generated
// TL reader (the two decoders every receiver of this payload uses). A decoder that panics on them
// counts as "cannot decode" here; the same bytes then reach the aggregator, where the panic is caught
// and reported.
func w1Undecodable(originalSize uint32, compressed []byte) (bad bool) {
	defer func() {
		if p := recover(); p != nil {
			bad = true
		}
	}()
	raw, err := compress.Decompress(originalSize, compressed)
	if err != nil {
		return true
	}
	var b tlstatshouse.SourceBucket3Bytes
	_, err = b.ReadTL1Boxed(raw)
	return err != nil
}

// w1CorruptRequest damages the compressed bucket payload of a SendSourceBucket3 request: one byte
// changed or the payload cut short, position and value taken from x. Candidates that still decode
// (a changed literal byte inside the lz4 block can go unnoticed: the protocol carries no checksum of
// its own, the transport's CRC is outside this world) are skipped; nil if none of 16 is undecodable.
// The payload bytes of a second are not replay-stable (item order inside the agent's bucket), so
// nothing about position or kind of the damage may reach the event log or a decision; only the
// outcome "these bytes do not decode" does, and that is the same for every execution.
func w1CorruptRequest(orig []byte, args *tlstatshouse.SendSourceBucket3Bytes, x uint64) (body []byte, how string) {
	data := args.CompressedData
	if len(data) == 0 {
		return nil, ""
	}
	if !bytes.Equal(args.WriteTL1Boxed(nil), orig) {
		panic("w1 harness: re-encoding the decoded SendSourceBucket3 request does not give the bytes the client wrote")
	}
	rng := verifsim.NewSplitMix(x)
	for try := 0; try < 16; try++ {
		h := rng.Next()
		mutated := append([]byte(nil), data...)
		pos := int((h >> 1) % uint64(len(data)))
		if h&1 == 0 && try < 8 { // the later candidates are all cuts: a cut payload practically never decodes
			mutated[pos] ^= byte(1 + (h>>41)%255)
			how = fmt.Sprintf("byte_changed@%d/%d", pos, len(data))
		} else {
			mutated = mutated[:pos]
			how = fmt.Sprintf("cut@%d/%d", pos, len(data))
		}
		if !w1Undecodable(args.OriginalSize, mutated) {
			continue
		}
		a := *args
		a.CompressedData = mutated
		return a.WriteTL1Boxed(nil), how
	}
	return nil, ""
}

func w1DelayAmount(x uint64) time.Duration { // x in [0,1000): 1 ms .. 8 s, skewed to small values
	switch {
	case x < 500:
		return time.Duration(1+x) * time.Millisecond // up to 0.5 s
	case x < 800:
		return time.Duration(500+(x-500)*5) * time.Millisecond // 0.5 .. 2 s
	default:
		return time.Duration(2000+(x-800)*30) * time.Millisecond // 2 .. 8 s
	}
}

func w1CtxClass(err error) string {
	if errors.Is(err, context.DeadlineExceeded) {
		return "deadline"
	}
	return "canceled"
}

func w1ErrClass(err error) string {
	var re *rpc.Error
	switch {
	case errors.Is(err, rpc.ErrClientConnClosedSideEffect):
		return "conn_closed_side_effect"
	case errors.Is(err, rpc.ErrClientConnClosedNoSideEffect):
		return "conn_closed_no_side_effect"
	case errors.Is(err, rpc.ErrClientClosed):
		return "client_closed"
	case errors.As(err, &re):
		return fmt.Sprintf("rpc_error:%d", re.Code)
	}
	return "other"
}

// finish decides the client-side outcome of a call (first decision wins).
func (w *w1World) finish(call *w1Call, res w1Result) {
	w.mu.Lock()
	if call.done {
		w.mu.Unlock()
		return
	}
	call.done = true
	w.mu.Unlock()
	call.ch <- res
}

// deliver runs on a fresh goroutine: the request reaches the aggregator.
func (w *w1World) deliver(call *w1Call, delay time.Duration) {
	where := "aggregator handler"
	if call.corrupt {
		where = "aggregator handler given a request with a damaged bucket payload"
	}
	defer w.guard(where)
	time.Sleep(delay)
	a, r := call.inst.agent, call.replica
	w.mu.Lock()
	rep := w.reps[r]
	ok := rep.up && !rep.rpcClosed && rep.gen == call.repGen && !w.partition[a][r] && !call.inst.dead.Load()
	agg := rep.agg
	w.mu.Unlock()
	if !ok {
		w.finish(call, w1Result{err: rpc.ErrClientConnClosedSideEffect})
		return
	}
	hctx := &rpc.HandlerContext{}
	hctx.ResetTo(call.conn, call.qid)
	hctx.Request = append([]byte(nil), call.body...)
	now := time.Now()
	w1SetRequestTime(hctx, now)
	pause := call.pause
	if pause != nil && !w.pauseBegin(pause, r, agg) {
		pause = nil
		w.mu.Lock()
		w.probeLocked("handler_pause_skipped_replica_has_a_paused_handler")
		w.mu.Unlock()
	}
	var err error
	func() {
		if pause != nil {
			defer w.pauseEnd(r)
		}
		err = agg.handleClient(context.Background(), hctx)
	}()
	rec := w1Rec{typ: w1RecDeliver, agent: a, agentGen: call.inst.gen, replica: r, repGen: call.repGen, kind: call.kind, T: call.T, spare: call.spare, attempt: call.attempt, dup: call.dup, at: now, corrupt: call.corrupt}
	rec.hasMarker = call.payload != nil && call.payload.hasMarker
	if hctx.LongpollStarted() {
		lh := rpc.LongpollHandle{QueryID: call.qid, CommonConn: call.conn}
		rec.accepted = true
		paused := pause != nil && pause.paused
		taken := false
		if paused {
			// The handler paused between two rows. Its bucket may have been taken by the ticker or an inserter
			// while it was in flight (they wait for the handler, then insert and answer), so the look after
			// the handler returned races with the answer. The bucket the handler was merging into (the one
			// whose read lock it held) was identified at the pause, on the handler's own goroutine.
			rec.where, rec.bucketTime, rec.oldest, rec.newest = pause.where, pause.bucketTime, pause.oldest, pause.newest
			taken = w1BucketTaken(agg, pause.bucket)
		} else {
			rec.where, rec.bucketTime, rec.oldest, rec.newest = w1FindLongpoll(agg, lh)
			if rec.where == "none" && call.conn.isPending() && w1InsertsDisabled(agg) {
				rec.where = "shutdown_hijack"
			}
		}
		w.mu.Lock()
		if !paused && rec.where == "none" && !call.conn.isPending() {
			rec.where = "answered" // inserted (or cancelled) before we could look: nothing to read
		}
		if pause != nil && pause.skip != "" {
			w.probeLocked("handler_pause_skipped_" + pause.skip)
		}
		if paused {
			w.probeLocked("handler_paused_between_rows_until_second_boundary")
			if taken {
				w.probeLocked("paused_handler_overlapped_taking_of_its_" + pause.where + "_bucket")
			}
		}
		w.recLocked(rec)
		// a paused handler is in flight for up to a second: the client side of the call may have ended
		// meanwhile (partition, crash of either side), and the connection with it
		gone := call.cancelled || call.dup || (paused && call.done)
		w.mu.Unlock()
		if gone && !call.dup {
			call.conn.clientGone()
		}
		return
	}
	w.mu.Lock()
	w.recLocked(rec)
	w.mu.Unlock()
	w.serverResponse(call, hctx.Response, err)
}

// serverResponse: the aggregator produced a response for this call (immediately or by finishing a
// long poll). Recorded before the network decides the response's fate.
func (w *w1World) serverResponse(call *w1Call, body []byte, err error) {
	body = append([]byte(nil), body...)
	rec := w1Rec{typ: w1RecResp, agent: call.inst.agent, agentGen: call.inst.gen, replica: call.replica, repGen: call.repGen, kind: call.kind, T: call.T, spare: call.spare, attempt: call.attempt, dup: call.dup, at: time.Now(), corrupt: call.corrupt}
	rec.hasMarker = call.payload != nil && call.payload.hasMarker
	if err != nil {
		rec.note = "err:" + w1ErrClass(w1ToRPCError(err))
	} else if call.kind <= w1KindKeepAlive {
		var ssb3 tlstatshouse.SendSourceBucket3
		var resp tlstatshouse.SendSourceBucket3Response
		if _, e := ssb3.ReadResultTL1(body, &resp); e != nil {
			rec.note = "undecodable_response"
		} else {
			rec.discard = resp.IsSetDiscard()
			rec.note = "ok"
			rec.warn = w1WarnClass(resp.Warning)
		}
	} else {
		rec.note = "ok"
	}
	w.mu.Lock()
	w.recLocked(rec)
	if call.dup || call.done {
		w.mu.Unlock()
		return
	}
	res := w1Result{body: body, err: w1ToRPCError(err)}
	if call.respDrop {
		res = w1Result{err: rpc.ErrClientConnClosedSideEffect}
		w.faultLocked("net_drop_response")
		w.recLocked(w1Rec{typ: w1RecNetDrop, agent: call.inst.agent, agentGen: call.inst.gen, replica: call.replica, kind: call.kind, T: call.T, attempt: call.attempt, note: "response"})
	}
	d := call.respDelay
	call.respPending = true
	w.mu.Unlock()
	go func() {
		time.Sleep(d)
		w.finish(call, res)
	}()
}

func w1ToRPCError(err error) error {
	if err == nil {
		return nil
	}
	var re *rpc.Error
	if errors.As(err, &re) {
		return re
	}
	return &rpc.Error{Code: -32000, Description: err.Error()}
}

func w1WarnClass(s string) string {
	switch {
	case s == "":
		return ""
	case strings.Contains(s, "too far in the past for recent"):
		return "late_recent"
	case strings.Contains(s, "too far in the future"):
		return "future"
	case strings.Contains(s, "beyond historic window"), strings.Contains(s, "before historic window"):
		return "out_of_window"
	case strings.Contains(s, "insert conveyor is full"):
		return "conveyor_full"
	case strings.Contains(s, "failed to deserialize"), strings.Contains(s, "lz4"):
		return "undecodable"
	case strings.Contains(s, "misconfiguration"):
		return "wrong_shard"
	case strings.Contains(s, "agent is too old"):
		return "too_old"
	case strings.Contains(s, "could not post to clickhouse"), strings.Contains(s, "clickhouse"), strings.Contains(s, "w1 fake clickhouse"):
		return "insert_error"
	}
	if len(s) > 40 {
		s = s[:40]
	}
	return "other:" + s
}

// ---- server side connection ---------------------------------------------------------------------

type w1Conn struct {
	w    *w1World
	call *w1Call

	mu        sync.Mutex
	pending   bool
	canceller rpc.LongpollCanceller
}

var _ rpc.HandlerContextConnection = (*w1Conn)(nil)

func (c *w1Conn) StartLongpoll(hctx *rpc.HandlerContext, canceller rpc.LongpollCanceller) (rpc.LongpollHandle, error) {
	c.mu.Lock()
	defer c.mu.Unlock()
	if c.pending {
		return rpc.LongpollHandle{}, errors.New("w1 sim: long poll query id collision")
	}
	c.pending = true
	c.canceller = canceller
	w1SetLongpollStarted(hctx) // the library's connections do this; the handlers test it
	return rpc.LongpollHandle{QueryID: hctx.QueryID(), CommonConn: c}, nil
}

func (c *w1Conn) take() rpc.LongpollCanceller {
	c.mu.Lock()
	defer c.mu.Unlock()
	if !c.pending {
		return nil
	}
	c.pending = false
	cn := c.canceller
	c.canceller = nil
	return cn
}

func (c *w1Conn) isPending() bool {
	c.mu.Lock()
	defer c.mu.Unlock()
	return c.pending
}

func (c *w1Conn) CancelLongpoll(queryID int64) (rpc.LongpollCanceller, int64) {
	return c.take(), 0
}

func (c *w1Conn) FinishLongpoll(lh rpc.LongpollHandle) (*rpc.HandlerContext, error) {
	if c.take() == nil {
		return nil, nil
	}
	hctx := &rpc.HandlerContext{}
	hctx.ResetTo(c, lh.QueryID)
	return hctx, nil
}

// clientGone: the client cancelled the request or its connection went away; the library's server
// then removes the long poll and tells its owner (the aggregator bucket).
func (c *w1Conn) clientGone() {
	if cn := c.take(); cn != nil {
		cn.CancelLongpoll(rpc.LongpollHandle{QueryID: c.call.qid, CommonConn: c})
	}
}

func (c *w1Conn) SendResponse(hctx *rpc.HandlerContext, err error) {
	c.w.serverResponse(c.call, hctx.Response, err)
}

func (c *w1Conn) SendEmptyResponse(lh rpc.LongpollHandle) {
	cn := c.take()
	if cn == nil {
		return
	}
	hctx := &rpc.HandlerContext{}
	hctx.ResetTo(c, lh.QueryID)
	err := cn.WriteEmptyResponse(lh, hctx)
	if err == nil && len(hctx.Response) == 0 {
		err = rpc.ErrLongpollNoEmptyResponse
	}
	c.SendResponse(hctx, err)
}

func (c *w1Conn) DebugName() string { return "w1conn" }
func (c *w1Conn) AccountResponseMem(hctx *rpc.HandlerContext, respBodySizeEstimate int) error {
	return nil
}
func (c *w1Conn) ListenAddr() net.Addr {
	return &net.TCPAddr{IP: net.IPv4(10, 0, 1, byte(1+c.call.replica)), Port: 13336}
}
func (c *w1Conn) LocalAddr() net.Addr { return c.ListenAddr() }
func (c *w1Conn) RemoteAddr() net.Addr {
	return &net.TCPAddr{IP: net.IPv4(10, 0, 0, byte(1+c.call.inst.agent)), Port: 40000 + c.call.inst.gen}
}
func (c *w1Conn) KeyID() [4]byte            { return [4]byte{} }
func (c *w1Conn) ProtocolVersion() uint32   { return rpc.LatestProtocolVersion }
func (c *w1Conn) ProtocolTransportID() byte { return 0 }
func (c *w1Conn) ConnectionID() uintptr     { return uintptr(unsafe.Pointer(c)) }
