//go:build verif

package queue

import (
	"fmt"
	"strings"
)

// Round-robin queue episode. The oracle is stated on observations only (Observe(), which
// Acquire calls returned what, the capacity the scheduler set); no round-robin order is assumed
// beyond the fairness clause of the property.

type w11Q struct {
	*w11Base
	q           *Queue
	cap         int64
	nUsers      int
	prevActive  int64
	prevPending int64
	// capacity-change context, used only to classify a failure (sig), never to excuse one
	raisedWithWaiters bool // AdjustCapacity raised the capacity while queries were queued
	shrunk            bool // AdjustCapacity lowered the capacity below the number of active queries
	// fairness bookkeeping, per user
	liveSince []int // step after which the user has continuously had a non-cancelled waiting query; -1 none
	lastGrant []int // step of the last grant that went, or may have gone, to the user
	lastKnown []int // step of the last grant known to have gone to the user
}

func (w *w11Q) userName(u int) string { return fmt.Sprintf("u%d", u) }

func (w *w11Q) fail(clause, sig, format string, args ...any) {
	w.r.Fail(w11Prop, clause, sig, format, args...)
}

// after: quiescence, collect outcomes, check every clause. rel = number of Release calls of the step.
func (w *w11Q) after(kind string, rel int64) {
	r := w.r
	w.settle()
	var newNil []*w11Task
	limboNil := 0
	cancelledErr := false
	for _, t := range w.tasks {
		if t.state != w11Live && t.state != w11Limbo && t.state != w11Cancelling {
			continue
		}
		ret, err, pm := t.poll()
		if pm != "" {
			w.fail("panic", "panic:queue.Acquire", "panic in Queue.Acquire of %s: %s", t.name, pm)
			return
		}
		if !ret {
			if t.state == w11Cancelling {
				w.fail("queue.cancel-stuck", "cancelled-acquire-did-not-return", "%s: context cancelled, Acquire neither returned nor reached the hook point", t.name)
				return
			}
			continue
		}
		wasLimbo := t.relocking
		t.relocking = false
		if err == nil {
			t.state = w11Holder
			if wasLimbo {
				limboNil++
				r.Probe("queue.cancel_raced_with_grant")
			} else {
				newNil = append(newNil, t)
				if t.cancelled {
					r.Probe("queue.precancelled_granted")
				}
			}
			r.Event(t.name, "acquired user=%s", w.userName(t.user))
		} else {
			t.state = w11Failed
			r.Event(t.name, "failed user=%s err=%v", w.userName(t.user), err)
			if !t.cancelled {
				w.fail("queue.spurious-error", "error-without-cancel", "%s: Acquire returned %v but its context was never cancelled", t.name, err)
				return
			}
			if err != t.ctx.err {
				w.fail("queue.spurious-error", "wrong-error", "%s: Acquire returned %v, ctx.Err() is %v", t.name, err, t.ctx.err)
				return
			}
			cancelledErr = true
			if wasLimbo {
				r.Probe("queue.cancel_parked_then_removed")
			}
		}
	}
	active, _ := w.q.Observe()
	H, L, live := int64(w.count(w11Holder)), int64(w.count(w11Limbo)), w.count(w11Live)
	pending := active - H // grants that went to parked (limbo) tasks which have not returned yet
	g := active - w.prevActive + rel
	limboGrants := pending - w.prevPending + int64(limboNil)
	r.Event("obs", "%s active=%d cap=%d holders=%d waiting=%d parked=%d", kind, active, w.cap, H, live, L)

	// accounting: granted - released == active; cancelled+error holds nothing, cancelled+nil holds one
	if pending < 0 {
		w.fail("queue.accounting", "more-holders-than-active", "after %s: Observe()=%d but %d tasks hold a grant", kind, active, H)
		return
	}
	if pending > L {
		sig := "active-above-holders"
		if cancelledErr {
			sig = "cancelled-task-kept-capacity"
		}
		w.fail("queue.leak", sig, "after %s: Observe()=%d, holders=%d, cancelled-and-parked=%d: %d unit(s) of capacity held by nobody", kind, active, H, L, pending-L)
		return
	}
	if g < 0 {
		w.fail("queue.accounting", "active-dropped-without-release", "after %s: active %d -> %d with %d release(s)", kind, w.prevActive, active, rel)
		return
	}
	if (kind == "cancel" || kind == "ticket") && g != 0 {
		w.fail("queue.cancel-unchanged", "cancel-changed-active", "after %s: active %d -> %d", kind, w.prevActive, active)
		return
	}
	// capacity: a grant must leave active <= capacity (capacity as of this grant)
	if g > 0 && active > w.cap {
		sig := "grant-over-capacity"
		if w.shrunk {
			sig = "grant-while-over-lowered-capacity"
		}
		w.fail("queue.capacity", sig, "after %s: %d new grant(s) with active=%d > capacity=%d", kind, g, active, w.cap)
		return
	}
	if active <= w.cap {
		w.shrunk = false
	}
	// no lost wakeup: a non-cancelled waiter and free capacity cannot coexist at quiescence
	if live > 0 && active < w.cap {
		sig := "after-" + kind
		if w.raisedWithWaiters {
			sig = "after-capacity-raise"
		}
		var ws []string
		for _, t := range w.tasks {
			if t.state == w11Live {
				ws = append(ws, t.name+"/"+w.userName(t.user))
			}
		}
		w.fail("queue.lost-wakeup", sig, "after %s: active=%d < capacity=%d while %s wait(s)", kind, active, w.cap, strings.Join(ws, ","))
		return
	}
	// fairness
	hasLive := make([]bool, w.nUsers)
	for _, t := range w.tasks {
		if t.state == w11Live {
			hasLive[t.user] = true
		}
	}
	for u := 0; u < w.nUsers; u++ {
		if !hasLive[u] {
			w.liveSince[u] = -1
		} else if w.liveSince[u] < 0 {
			w.liveSince[u] = w.step
		}
	}
	var grantedUsers []int
	for _, t := range newNil {
		grantedUsers = append(grantedUsers, t.user)
	}
	if limboGrants > 0 {
		cand := map[int]bool{}
		one := -1
		for _, t := range w.tasks {
			if t.state == w11Limbo {
				cand[t.user] = true
				one = t.user
			}
		}
		if len(cand) == 1 && limboGrants == 1 {
			grantedUsers = append(grantedUsers, one)
		} else {
			r.Probe("queue.unattributed_parked_grant")
			for u := 0; u < w.nUsers; u++ { // unattributable: may have gone to any of them
				if cand[u] {
					w.lastGrant[u] = w.step
				}
			}
		}
	}
	// grants of one step are unordered for the observer: every user granted in this step counts
	// as served before the re-grant check below
	for _, u := range grantedUsers {
		w.lastGrant[u] = w.step
	}
	for _, u := range grantedUsers {
		s1 := w.lastKnown[u]
		if s1 >= 0 {
			checked := false
			for v := 0; v < w.nUsers; v++ {
				if v == u || w.liveSince[v] < 0 || w.liveSince[v] >= s1 {
					continue
				}
				checked = true
				if w.lastGrant[v] < s1 {
					sig := "plain"
					if w.raisedWithWaiters {
						sig = "after-capacity-raise"
					}
					w.fail("queue.fairness", sig, "user %s granted at step %d and again at step %d while user %s has been waiting since step %d without a grant",
						w.userName(u), s1, w.step, w.userName(v), w.liveSince[v])
					return
				}
			}
			if checked {
				r.Probe("queue.regrant_while_other_user_waits_checked")
			}
		}
		w.lastKnown[u] = w.step
	}
	w.prevActive, w.prevPending = active, pending
}

func (w *w11Q) acquire(user int, precancel, park bool, errKind int) {
	t := w.newTask(user, 1)
	w.r.Sched("acquire", t.name)
	w.r.Extra["queue.acquires"]++
	if precancel {
		t.cancelled = true
		t.state = w11Cancelling
		t.ctx.cancel(w11CancelErr(errKind))
		w.arm = park
		w.r.Fault("acquire-with-cancelled-ctx")
	}
	w.r.Event("sched", "acquire %s user=%s precancelled=%v park=%v", t.name, w.userName(user), precancel, park)
	name := w.userName(user)
	w.spawn(t, func() error { return w.q.Acquire(t.ctx, name) })
	w.after("acquire", 0)
}

func (w *w11Q) cancel(t *w11Task, park bool, errKind int) {
	w.r.Sched("cancel", t.name)
	w.r.Fault("cancel")
	w.r.Event("sched", "cancel %s park=%v err=%v", t.name, park, w11CancelErr(errKind))
	t.cancelled = true
	t.state = w11Cancelling
	w.arm = park
	t.ctx.cancel(w11CancelErr(errKind))
	w.after("cancel", 0)
}

func (w *w11Q) ticket(t *w11Task) {
	w.r.Sched("relock", t.name)
	w.r.Event("sched", "let %s re-lock", t.name)
	t.state = w11Cancelling
	t.relocking = true
	w.pts.Release(t.ticket)
	w.after("ticket", 0)
}

func (w *w11Q) release(t *w11Task) {
	w.r.Sched("release", t.name)
	w.r.Event("sched", "release by %s", t.name)
	t.state = w11Released
	w.q.Release()
	w.after("release", 1)
}

func (w *w11Q) adjust(n int64) {
	w.r.Sched("adjust", "sched")
	w.r.Fault("adjust-capacity")
	queued := w.count(w11Live) + w.count(w11Limbo)
	if n > w.cap && queued > 0 {
		w.raisedWithWaiters = true
		w.r.Probe("queue.capacity_raised_with_waiters")
	}
	if n < w.prevActive {
		w.shrunk = true
		w.r.Probe("queue.capacity_lowered_below_active")
	}
	w.r.Event("sched", "AdjustCapacity %d -> %d", w.cap, n)
	w.cap = n
	w.q.AdjustCapacity(uint64(n))
	w.after("adjust", 0)
}

func w11QueueEpisode(b *w11Base, ep int) {
	r, c := b.r, b.c
	w := &w11Q{w11Base: b}
	faulty := c.Intn(3, "q.faulty") != 0
	w.nUsers = c.Range(1, 4, "q.users")
	w.cap = int64(c.Range(1, 3, "q.cap"))
	maxTasks := c.Range(3, 14, "q.tasks")
	maxSteps := c.Range(10, 70, "q.steps")
	cancelOn, hookOn, adjustOn := false, false, false
	if faulty {
		cancelOn = c.Intn(4, "q.cancel_on") != 0
		hookOn = cancelOn && c.Intn(3, "q.hook_on") != 0
		adjustOn = b.adjustRun
	}
	b.hooks["queue.acquire.cancelled"] = hookOn
	r.Config[fmt.Sprintf("ep%d", ep)] = fmt.Sprintf("queue users=%d cap=%d tasks=%d steps=%d cancel=%v hook=%v adjust=%v",
		w.nUsers, w.cap, maxTasks, maxSteps, cancelOn, hookOn, adjustOn)
	r.Extra["episodes.queue"]++
	r.Event("sched", "episode %d: queue users=%d cap=%d cancel=%v hook=%v adjust=%v", ep, w.nUsers, w.cap, cancelOn, hookOn, adjustOn)
	w.q = NewQueue(w.cap)
	w.liveSince, w.lastGrant, w.lastKnown = make([]int, w.nUsers), make([]int, w.nUsers), make([]int, w.nUsers)
	for u := 0; u < w.nUsers; u++ {
		w.liveSince[u], w.lastGrant[u], w.lastKnown[u] = -1, -1, -1
	}
	const (
		aAcquire = iota
		aRelease
		aTicket
		aCancel
		aAdjust
	)
	startStep := w.step
	for w.step-startStep < maxSteps && !r.Failed() {
		var opts []int
		add := func(a, weight int) {
			for i := 0; i < weight; i++ {
				opts = append(opts, a)
			}
		}
		if len(w.tasks) < maxTasks {
			add(aAcquire, 4)
		}
		if w.count(w11Holder) > 0 {
			add(aRelease, 3)
		}
		if w.count(w11Limbo) > 0 {
			add(aTicket, 2)
		}
		if cancelOn && w.count(w11Live) > 0 {
			add(aCancel, 2)
		}
		if len(opts) == 0 {
			break // nothing but capacity changes left
		}
		if adjustOn {
			add(aAdjust, 1)
		}
		switch opts[c.Intn(len(opts), "q.action")] {
		case aAcquire:
			user := c.Intn(w.nUsers, "q.user")
			pre, park, ek := false, false, 0
			// an already cancelled context is used only when no grant can coincide with it
			if cancelOn && w.prevActive == w.cap && c.Chance(1, 10, "q.precancel") {
				pre = true
				park = hookOn && c.Chance(1, 2, "q.park")
				ek = c.Intn(2, "q.errkind")
			}
			w.acquire(user, pre, park, ek)
		case aRelease:
			w.release(w.first(w11Holder))
		case aTicket:
			w.ticket(w.pick(w11Limbo, "q.ticket"))
		case aCancel:
			t := w.pick(w11Live, "q.cancel")
			park := hookOn && c.Chance(1, 2, "q.park")
			w.cancel(t, park, c.Intn(2, "q.errkind"))
		case aAdjust:
			w.adjust(int64(1 + c.Intn(4, "q.newcap")))
		}
	}
	// drain: let parked tasks re-lock, release every holder (which must admit the waiters), then
	// cancel whoever legitimately still waits; everything must return and nothing may stay held
	for guard := 0; guard < 200 && !r.Failed(); guard++ {
		if t := w.first(w11Limbo); t != nil {
			w.ticket(t)
		} else if t := w.first(w11Holder); t != nil {
			w.release(t)
		} else if t := w.first(w11Live); t != nil {
			w.cancel(t, false, 0)
		} else {
			break
		}
	}
	if r.Failed() {
		return
	}
	active, _ := w.q.Observe()
	if active != 0 {
		w.fail("queue.leak", "active-nonzero-when-idle", "everything released and returned but Observe()=%d", active)
		return
	}
	w.q.mx.Lock()
	byName, byPrio := len(w.q.waitingUsersByName), w.q.waitingUsersByPriority.Len()
	w.q.mx.Unlock()
	if byName != 0 || byPrio != 0 {
		w.fail("queue.residue", "waiting-users-left-when-idle", "idle queue still lists %d/%d waiting users", byName, byPrio)
		return
	}
	r.Event("sched", "episode %d done", ep)
}
