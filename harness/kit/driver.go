package verifsim

import (
	"encoding/json"
	"fmt"
	"os"
	"runtime"
	"runtime/debug"
	"strconv"
	"strings"
	"sync/atomic"
	"syscall"
	"testing"
	"time"
)

// World is one simulated world. Exec performs one complete run driven by r.C and records
// oracle failures with r.Fail. It must be a deterministic function of r.C (and the code).
type World struct {
	Name  string
	Props []string
	Exec  func(t *testing.T, r *Run)
}

type replayFile struct {
	Property  string   `json:"property"`
	World     string   `json:"world"`
	Seed      uint64   `json:"seed"`
	Tier      string   `json:"tier"`
	Choices   []int    `json:"choices"`
	Labels    []string `json:"labels,omitempty"`
	Clause    string   `json:"clause"`
	Sig       string   `json:"sig"`
	Detail    string   `json:"detail"`
	LogHash   string   `json:"log_hash"`
	LogTail   []string `json:"event_log_tail"`
	Config    any      `json:"config,omitempty"`
	Minimised bool     `json:"minimised"`
	OrigLen   int      `json:"original_choice_count"`
}

type knownFinding struct {
	Property string `json:"property"`
	Clause   string `json:"clause"`
	Sig      string `json:"sig"`
	What     string `json:"what"`
	Status   string `json:"status"` // "known" or "fixed"
}

type partial struct {
	Property      string         `json:"property"`
	World         string         `json:"world"`
	Tier          string         `json:"tier"`
	Seed          uint64         `json:"seed"`
	Worker        string         `json:"worker"`
	Runs          int            `json:"runs"`
	Steps         int            `json:"steps"`
	SimSeconds    float64        `json:"sim_seconds"`
	WallS         float64        `json:"wall_s"`
	Faults        map[string]int `json:"faults"`
	Probes        map[string]int `json:"probes"`
	Extra         map[string]int `json:"extra"`
	Sigs          []string       `json:"nontrivial_sigs"` // distinct schedule signatures of non-trivial runs
	Samples       []any          `json:"samples"`
	DetPairs      int            `json:"determinism_pairs"`
	DetMismatches int            `json:"determinism_mismatches"`
	Violations    int            `json:"violations"`
	KnownHits     map[string]int `json:"known_hits"`
	ReplayPath    string         `json:"replay_path,omitempty"`
	Trouble       string         `json:"trouble,omitempty"`
}

func envInt(name string, def int) int {
	if s := os.Getenv(name); s != "" {
		if v, err := strconv.Atoi(s); err == nil {
			return v
		}
	}
	return def
}

var watchdogDeadline atomic.Int64 // unix nanos (real); 0 = disarmed
var watchdogInfo atomic.Value

func startWatchdog() {
	go func() {
		// a thread-locked blocking nanosleep instead of a Go timer: timer wake-ups of an extra goroutine
		// can take the scheduler's run-next slot in the middle of a burst inside a bubble and perturb
		// the (otherwise stable) order in which just-woken goroutines run
		runtime.LockOSThread()
		for {
			ts := syscall.Timespec{Sec: 2}
			_ = syscall.Nanosleep(&ts, nil)
			d := watchdogDeadline.Load()
			if d != 0 && time.Now().UnixNano() > d {
				info, _ := watchdogInfo.Load().(string)
				fmt.Printf("WATCHDOG: run exceeded real-time limit: %s\n", info)
				buf := make([]byte, 1<<20)
				n := runtime.Stack(buf, true)
				os.Stderr.Write(buf[:n])
				os.Exit(2)
			}
		}
	}()
}

// execOnce runs the world once with a recover for panics on the run goroutine.
func execOnce(t *testing.T, w *World, c *Choices, prop, tier string, quiet bool, limit time.Duration) *Run {
	r := newRun(c, prop, tier)
	r.Quiet = quiet
	r.Live = os.Getenv("VERIF_LIVE") != ""
	watchdogInfo.Store(fmt.Sprintf("world=%s prop=%s seed=%d prefix=%d", w.Name, prop, c.Seed, len(c.Prefix)))
	watchdogDeadline.Store(time.Now().Add(limit).UnixNano())
	func() {
		defer func() {
			if p := recover(); p != nil {
				if se, ok := p.(stopRun); ok {
					_ = se
					return
				}
				msg := fmt.Sprint(p)
				st := string(debug.Stack())
				r.Fail(prop, "panic", "panic", "panic in run: %s\n%s", msg, st)
			}
		}()
		w.Exec(t, r)
	}()
	watchdogDeadline.Store(0)
	return r
}

type stopRun struct{}

// Stop aborts the current run from the run goroutine (after a violation was recorded).
func (r *Run) Stop() { panic(stopRun{}) }

// Main is the entry point called by each world's Test function.
func Main(t *testing.T, w *World) {
	prop := os.Getenv("VERIF_PROP")
	ok := false
	for _, p := range w.Props {
		if p == prop {
			ok = true
		}
	}
	if !ok {
		t.Skipf("VERIF_PROP=%q not served by world %s", prop, w.Name)
		return
	}
	tier := os.Getenv("VERIF_TIER")
	if tier == "" {
		tier = "quick"
	}
	seed := uint64(envInt("VERIF_SEED", 1))
	runs := envInt("VERIF_RUNS", 50)
	budget := time.Duration(envInt("VERIF_BUDGET_S", 60)) * time.Second
	runLimit := time.Duration(envInt("VERIF_RUN_LIMIT_S", 240)) * time.Second
	wk, wn := 0, 1
	if s := os.Getenv("VERIF_WORKER"); s != "" {
		fmt.Sscanf(s, "%d/%d", &wk, &wn)
	}
	out := os.Getenv("VERIF_OUT")
	replayDir := os.Getenv("VERIF_REPLAY_DIR")
	if replayDir == "" {
		replayDir = "/verif/replays"
	}
	known := loadKnown(os.Getenv("VERIF_KNOWN"), prop)
	startWatchdog()

	if rp := os.Getenv("VERIF_REPLAY"); rp != "" {
		os.Exit(doReplay(t, w, rp, runLimit))
	}

	if rs := os.Getenv("VERIF_RUN_SEED"); rs != "" {
		// debugging aid: execute exactly one run seed in search mode and print its event log
		v, _ := strconv.ParseUint(rs, 10, 64)
		c := NewChoices(v)
		go func() {
			time.Sleep(time.Duration(envInt("VERIF_RUN_SEED_DUMP_S", 20)) * time.Second)
			fmt.Println("RUN_SEED: still running, choices so far:", c.Values())
		}()
		r := execOnce(t, w, c, prop, tier, false, runLimit)
		for _, e := range r.Events() {
			fmt.Println("   ", e)
		}
		fmt.Println("choices:", c.Values())
		if v := r.Violation(); v != nil {
			fmt.Println("violation:", v.Error())
		}
		os.Exit(0)
	}
	res := partial{Property: prop, World: w.Name, Tier: tier, Seed: seed, Worker: fmt.Sprintf("%d/%d", wk, wn),
		Faults: map[string]int{}, Probes: map[string]int{}, Extra: map[string]int{}, KnownHits: map[string]int{}}
	sigs := map[uint64]bool{}
	start := time.Now()
	exit := 0
	detChecks := envInt("VERIF_DET_CHECKS", 3)
	worldID := HashStr(w.Name)
	for i := wk; i < runs; i += wn {
		if time.Since(start) > budget {
			break
		}
		rs := Mix(seed, worldID, uint64(i))
		c := NewChoices(rs)
		r := execOnce(t, w, c, prop, tier, false, runLimit)
		res.Runs++
		if os.Getenv("VERIF_DUMP_HASHES") != "" {
			fmt.Printf("RUNHASH %d %x %x\n", i, r.LogHash(), r.SchedHash())
		}
		res.Steps += r.Steps
		res.SimSeconds += float64(r.SimNanos) / 1e9
		for k, v := range r.Faults {
			res.Faults[k] += v
		}
		for k, v := range r.Probes {
			res.Probes[k] += v
		}
		for k, v := range r.Extra {
			res.Extra[k] += v
		}
		if r.Nontrivial || len(r.Actors) >= 2 {
			sigs[r.SchedHash()] = true
		}
		if len(res.Samples) < 3 {
			res.Samples = append(res.Samples, map[string]any{"run_seed": rs, "config": r.Config,
				"choices": len(c.Trace), "first_events": head(r.Events(), 40)})
		}
		// determinism self-check on the first few runs of each worker
		if res.DetPairs < detChecks {
			c2 := NewReplay(rs, c.Values())
			r2 := execOnce(t, w, c2, prop, tier, false, runLimit)
			res.DetPairs++
			if r2.LogHash() != r.LogHash() {
				// One isolated mismatch is recorded (evidence: determinism_mismatches) and printed, but
				// does not fail the check: residual scheduler noise of about 1e-5 per run was measured
				// under heavy machine load. A violation found in such a run would still be refused as
				// NONREPLAYABLE. Two mismatches in one worker mean the world is broken: exit 2.
				res.DetMismatches++
				fmt.Printf("NONDETERMINISM world=%s run_seed=%d: log hash %x vs %x\n", w.Name, rs, r.LogHash(), r2.LogHash())
				dumpDiff(r.Events(), r2.Events())
				if res.DetMismatches >= 2 {
					res.Trouble = fmt.Sprintf("NONDETERMINISM world=%s: %d of %d re-executed runs differ", w.Name, res.DetMismatches, res.DetPairs)
					exit = 2
					break
				}
			}
		}
		if v := r.Violation(); v != nil {
			if kf := matchKnown(known, v); kf != nil {
				res.KnownHits[kf.Clause+"|"+kf.Sig]++
				continue
			}
			res.Violations++
			if os.Getenv("VERIF_VERBOSE") != "" {
				fmt.Printf("violating run seed=%d: %s\n", rs, v.Error())
				for _, e := range r.Tail(80) {
					fmt.Println("   ", e)
				}
			}
			path, trouble := report(t, w, r, rs, tier, replayDir, runLimit)
			if trouble != "" {
				res.Trouble = trouble
				fmt.Println(trouble)
				exit = 2
			} else {
				res.ReplayPath = path
				fmt.Printf("VIOLATION property=%s replay=%s\n", prop, path)
				fmt.Printf("  clause=%s sig=%s\n  %s\n", v.Clause, v.Sig, firstLine(v.Detail))
				exit = 1
			}
			break
		}
	}
	for _, k := range sortedKeys(res.KnownHits) {
		_ = k
	}
	res.WallS = time.Since(start).Seconds()
	for s := range sigs {
		res.Sigs = append(res.Sigs, strconv.FormatUint(s, 16))
	}
	if out != "" {
		b, _ := json.MarshalIndent(res, "", " ")
		if err := os.WriteFile(out, b, 0644); err != nil {
			fmt.Println("cannot write partial result:", err)
			os.Exit(2)
		}
	}
	fmt.Printf("world=%s prop=%s worker=%d/%d runs=%d steps=%d wall=%.1fs violations=%d known=%v\n",
		w.Name, prop, wk, wn, res.Runs, res.Steps, res.WallS, res.Violations, res.KnownHits)
	if exit != 0 {
		os.Exit(exit)
	}
}

func head(s []string, n int) []string {
	if len(s) > n {
		return s[:n]
	}
	return s
}

func firstLine(s string) string {
	if i := strings.IndexByte(s, '\n'); i >= 0 {
		return s[:i]
	}
	return s
}

func dumpDiff(a, b []string) {
	for i := 0; i < len(a) && i < len(b); i++ {
		if a[i] != b[i] {
			lo := i - 5
			if lo < 0 {
				lo = 0
			}
			for j := lo; j <= i; j++ {
				fmt.Printf("  A[%d] %s\n", j, a[j])
			}
			fmt.Printf("  B[%d] %s\n", i, b[i])
			return
		}
	}
	fmt.Printf("  logs differ in length: %d vs %d\n", len(a), len(b))
}

func loadKnown(path, prop string) []knownFinding {
	if path == "" {
		path = "/verif/known_findings.json"
	}
	b, err := os.ReadFile(path)
	if err != nil {
		return nil
	}
	var all struct {
		Findings []knownFinding `json:"findings"`
	}
	if err := json.Unmarshal(b, &all); err != nil {
		fmt.Println("cannot parse known findings:", err)
		os.Exit(2)
	}
	var out []knownFinding
	for _, k := range all.Findings {
		if k.Property == prop && k.Status == "known" {
			out = append(out, k)
		}
	}
	return out
}

func matchKnown(known []knownFinding, v *Violation) *knownFinding {
	for i := range known {
		if known[i].Clause == v.Clause && known[i].Sig == v.Sig {
			return &known[i]
		}
	}
	return nil
}

// report minimises, writes the replay file and verifies that it replays.
func report(t *testing.T, w *World, r *Run, runSeed uint64, tier, dir string, limit time.Duration) (string, string) {
	v := r.Violation()
	orig := r.C.Values()
	best := orig
	same := func(vals []int) *Run {
		c := NewReplay(runSeed, vals)
		rr := execOnce(t, w, c, v.Property, tier, true, limit)
		if x := rr.Violation(); x != nil && x.Clause == v.Clause {
			return rr
		}
		return nil
	}
	// the full vector must reproduce first
	base := same(orig)
	if base == nil {
		return "", fmt.Sprintf("NONREPLAYABLE world=%s prop=%s run_seed=%d clause=%s (failure did not reproduce from its own choice vector)", w.Name, v.Property, runSeed, v.Clause)
	}
	minimised := false
	if os.Getenv("VERIF_NO_MINIMISE") == "" {
		best = minimise(orig, func(vals []int) bool { return same(vals) != nil }, envInt("VERIF_MIN_EXECS", 400), time.Duration(envInt("VERIF_MIN_S", 120))*time.Second)
		minimised = true
	}
	c := NewReplay(runSeed, best)
	final := execOnce(t, w, c, v.Property, tier, false, limit)
	fv := final.Violation()
	if fv == nil || fv.Clause != v.Clause {
		return "", fmt.Sprintf("NONREPLAYABLE world=%s prop=%s run_seed=%d clause=%s (minimised vector did not reproduce)", w.Name, v.Property, runSeed, v.Clause)
	}
	// trim trailing zeros: replay mode supplies zeros anyway
	vals := final.C.Values()
	for len(vals) > 0 && vals[len(vals)-1] == 0 {
		vals = vals[:len(vals)-1]
	}
	labels := make([]string, 0, len(vals))
	for i := range vals {
		labels = append(labels, final.C.Trace[i].Label)
	}
	rf := replayFile{Property: v.Property, World: w.Name, Seed: runSeed, Tier: tier, Choices: vals, Labels: labels,
		Clause: fv.Clause, Sig: fv.Sig, Detail: fv.Detail, LogHash: strconv.FormatUint(final.LogHash(), 16),
		LogTail: final.Tail(60), Config: final.Config, Minimised: minimised, OrigLen: len(orig)}
	os.MkdirAll(dir, 0755)
	path := fmt.Sprintf("%s/%s-%s-%d.json", dir, v.Property, w.Name, runSeed)
	b, _ := json.MarshalIndent(rf, "", " ")
	if err := os.WriteFile(path, b, 0644); err != nil {
		return "", "cannot write replay file: " + err.Error()
	}
	// verify: replay from the file contents in this process (a fresh process is used by --replay)
	c3 := NewReplay(runSeed, vals)
	r3 := execOnce(t, w, c3, v.Property, tier, true, limit)
	if x := r3.Violation(); x == nil || x.Clause != fv.Clause || r3.LogHash() != final.LogHash() {
		return "", fmt.Sprintf("NONREPLAYABLE world=%s prop=%s run_seed=%d clause=%s (replay file did not reproduce identically)", w.Name, v.Property, runSeed, v.Clause)
	}
	return path, ""
}

func doReplay(t *testing.T, w *World, path string, limit time.Duration) int {
	b, err := os.ReadFile(path)
	if err != nil {
		fmt.Println("cannot read replay file:", err)
		return 2
	}
	var rf replayFile
	if err := json.Unmarshal(b, &rf); err != nil {
		fmt.Println("cannot parse replay file:", err)
		return 2
	}
	if rf.World != w.Name {
		return 0 // not ours (several worlds live in one binary)
	}
	c := NewReplay(rf.Seed, rf.Choices)
	r := execOnce(t, w, c, rf.Property, rf.Tier, false, limit)
	v := r.Violation()
	if v == nil {
		fmt.Printf("REPLAY: no violation reproduced (property=%s world=%s)\n", rf.Property, rf.World)
		return 0
	}
	for _, e := range r.Tail(60) {
		fmt.Println("  ", e)
	}
	same := v.Clause == rf.Clause && strconv.FormatUint(r.LogHash(), 16) == rf.LogHash
	fmt.Printf("VIOLATION property=%s replay=%s\n  clause=%s sig=%s identical_to_recorded=%v\n  %s\n", rf.Property, path, v.Clause, v.Sig, same, firstLine(v.Detail))
	return 1
}

// minimise is ddmin-like over the choice vector: shorten, delete chunks, zero entries, halve.
func minimise(orig []int, fails func([]int) bool, maxExec int, maxWall time.Duration) []int {
	best := append([]int(nil), orig...)
	execs := 0
	start := time.Now()
	try := func(cand []int) bool {
		if execs >= maxExec || time.Since(start) > maxWall {
			return false
		}
		execs++
		if fails(cand) {
			best = append([]int(nil), cand...)
			return true
		}
		return false
	}
	// 1. shortest failing prefix (zeros after it), binary search
	lo, hi := 0, len(best)
	for lo < hi && execs < maxExec {
		mid := (lo + hi) / 2
		if try(best[:mid]) {
			hi = mid
		} else {
			lo = mid + 1
		}
		if hi > len(best) {
			hi = len(best)
		}
	}
	// 2. zero chunks, then delete chunks
	for pass := 0; pass < 2; pass++ {
		for size := len(best) / 2; size >= 1; size /= 2 {
			for i := 0; i+size <= len(best); {
				if execs >= maxExec || time.Since(start) > maxWall {
					return best
				}
				allZero := true
				for _, x := range best[i : i+size] {
					if x != 0 {
						allZero = false
					}
				}
				var cand []int
				if pass == 0 {
					if allZero {
						i += size
						continue
					}
					cand = append([]int(nil), best...)
					for j := i; j < i+size; j++ {
						cand[j] = 0
					}
				} else {
					cand = append(append([]int(nil), best[:i]...), best[i+size:]...)
				}
				if !try(cand) {
					i += size
				}
			}
		}
	}
	// 3. halve / decrement single entries
	for i := 0; i < len(best); i++ {
		for best[i] > 0 {
			if execs >= maxExec || time.Since(start) > maxWall {
				return best
			}
			cand := append([]int(nil), best...)
			cand[i] = best[i] / 2
			if !try(cand) {
				break
			}
		}
	}
	return best
}
