//go:build verif

package api

// W9: API series cache cache2 (property C23) inside a synctest bubble.
// Real: cache2 (Get/newLoader/init/maybeAddChunk/loadChunks/await/copy, invalidate, reset,
// setLimits, trim goroutine with aged trimming and memory reduction, in-flight accounting).
// Simulated: storage (the loader function: blocks until the scheduler delivers a block,
// completes or fails it; follows the in-flight accounting protocol of the real loadPoints),
// clock (bubble), the callers (3-6 client tasks, invalidator, reset, setLimits).
// Hook points parked by the scheduler (no lock held at any of them): cache2.load.after_notify,
// cache2.invalidate.before, cache2.invalidate.between_buckets, cache2.trim.before_reduce,
// cache2.trim.before_aged. Runs that arm between_buckets (hooks bit 4) build shards with several
// buckets, park invalidation passes half-way, trim/reset meanwhile and ask the buckets again.

import (
	"context"
	"errors"
	"fmt"
	"os"
	"runtime"
	"runtime/debug"
	"sort"
	"strings"
	"sync"
	"testing"
	"time"

	"github.com/VKCOM/statshouse-go"

	"github.com/VKCOM/statshouse/internal/data_model"
	"github.com/VKCOM/statshouse/internal/format"
	"github.com/VKCOM/statshouse/internal/verifsim"
)

const (
	w9Idle     = 1 // loader waits for the scheduler's command
	w9InAlloc  = 2 // loader is inside updateInflightApprox (may be waiting for memory)
	w9Returned = 3
	w9Held     = 4 // loader has taken a block from the storage (its context was alive) and has not reported it yet

	w9CmdReturn = 0 // return successfully (everything delivered)
	w9CmdBlock  = 1 // deliver half of the missing slots
	w9CmdFail   = 2
	w9CmdRest   = 3 // deliver all missing slots, do not return yet
	w9CmdHold   = 8 // flag on block/rest: stop between the context check and the report of the bytes
	w9CmdReport = 4 // to a held loader: report now
)

const (
	w9PtBefore  = "cache2.invalidate.before"
	w9PtBetween = "cache2.invalidate.between_buckets" // in cache2Shard.invalidate after b.invalidate, before invalidateIteratorNext; no lock held
)

var errW9Load = errors.New("simulated storage error")

var w9RunCount int // executions in this process (GC bookkeeping only)

type w9Load struct {
	id        int // == id of the Get whose loadChunks goroutine called the loader
	reqID     uint32 // in-flight request id the cache gave this load (written before the first idle state)
	heldUpto  int    // while held: the delivery that waits to be reported
	q         int
	step      int64
	from, to  int64 // seconds
	ret       [][]tsSelectRow
	cmd       chan int
	state     int // written by the loader goroutine, read by the scheduler at quiescence
	delivered int // slots filled so far
	blocks    int
	err       error
	announced bool
	finished  bool // scheduler has seen the return
	finishSeq uint64
	startSeq  uint64
	storedSeq uint64 // when the chunk update that follows the load had run (0: not yet)
}

type w9Get struct {
	id       int
	q        int
	step     int64
	from, to int64
	play     int
	force    bool
	h        *requestHandler
	qb       *queryBuilder
	beginSeq uint64
	cancel    context.CancelFunc // runs with cancellable callers: the caller's context
	cancelSeq uint64             // the scheduler cancelled the caller's context (0: not)
	cancelWas string             // what the request was doing then
	initSeq  uint64 // first observation after the Get passed the request-start memory wait and looked its bucket up
	endSeq   uint64
	done     bool // written by the task goroutine
	judged   bool
	res      cache2Data
	err      error
	panicked string
}

type w9Inv struct {
	id          int
	step        int64
	times       []int64
	slots       map[int64]bool
	first       int64 // smallest invalidated slot time
	startNano   int64 // fake clock when invalidate() was called
	stampSeq    uint64 // runs that park passes between buckets: when the pass took its timestamp (cache2.invalidate reads the clock once, before the pass, and hands that value to every bucket); 0 otherwise (the pass is one scheduler step)
	beforeTk    int    // ticket of this call at cache2.invalidate.before
	startSeq    uint64
	completeSeq uint64
	done        bool // written by the task goroutine
	seen        bool
	panicked    string
}

type w9StepCfg struct {
	step      int64
	csize     int   // slots per chunk
	cdur      int64 // seconds per chunk
	oldBase   int64 // seconds, start of a chunk far in the past
	recentBase int64 // seconds, start of the chunk before the one that contains "now"
}

type w9World struct {
	r   *verifsim.Run
	c   *verifsim.Choices
	ch  *cache2
	hnd *Handler
	pts *verifsim.Points

	mu      sync.Mutex // guards byH and newLoads (touched by loader goroutines)
	byH     map[*requestHandler]*w9Get
	newLoads []*w9Load

	steps  []w9StepCfg
	nQ     int
	gets   []*w9Get
	loads  map[int]*w9Load
	loadIDs []int
	invs   []*w9Inv
	store  map[[2]int64]int // (step, slot time) -> version
	lim    cache2Limits
	faulty bool
	tolerate map[string]bool
	afterNotifyArmed bool
	deferred *verifsim.Violation // first stale read of one of the two narrowly identified mechanisms (reported only if nothing else fails)
	anyFailedLoad bool
	rowB   int

	// invalidation passes parked between two buckets (cache2.invalidate.between_buckets)
	beforeArmed bool
	bbArmed   bool // the point is armed in this run
	bbOff     bool // wind-down: no further parking
	bbPlan    int  // plan of the pass that runs now: 0 never park, 1/2 park after the 1st/2nd bucket, 3 after every bucket
	bbHits    int  // buckets the running pass has processed (written by the invalidator goroutine)
	bbFocus   int  // 0: three chunks in each of two regions; 1: one chunk of the old region; 2: two chunks in each region
	bbAftermath int // scheduler steps left in which requests ask for what the pass that was parked has invalidated
	cancelMode bool
	holdMode  bool // loaders may stop between taking a block (context alive) and reporting its bytes; the run starts under a small hard limit
	freshLim  cache2Limits
	overlap   bool // exploration aid W9_OVERLAP_INVALIDATIONS: do not serialise invalidation passes
	bbTk      int  // ticket watched by bbWatch
	bbIter    [2]*cache2Bucket
	bbBuckets int
}

// uni: slots per region that Gets and invalidations address.
func (w *w9World) uni(sc w9StepCfg) int {
	if w.bbFocus != 0 {
		return w.bbFocus * sc.csize
	}
	return 3 * sc.csize
}

// bbShouldPark runs on the invalidator goroutine when it stands between two buckets of its pass.
func (w *w9World) bbShouldPark() bool {
	if !w.bbArmed || w.bbOff {
		return false
	}
	w.bbHits++
	switch w.bbPlan {
	case 0:
		return false
	case 3:
		return true
	}
	return w.bbHits == w.bbPlan
}

// beginPass: the scheduler is about to let one invalidate() call enter its pass over the shard.
func (w *w9World) beginPass() {
	if !w.bbArmed {
		return
	}
	w.bbPlan = w.c.Intn(4, "bb_plan")
	w.bbHits = 0
	w.r.Event("inv", "next pass parks between buckets by plan %d", w.bbPlan)
}

// bindBefore: calls of invalidate() reach cache2.invalidate.before in the order in which they were
// begun (one per scheduler step), so the tickets there belong to the calls in that order.
func (w *w9World) bindBefore(tickets []*verifsim.Ticket) {
	if !w.bbArmed || !w.beforeArmed {
		return
	}
	for _, tk := range tickets {
		if tk.Name != w9PtBefore {
			continue
		}
		bound := false
		for _, iv := range w.invs {
			if iv.beforeTk == tk.ID {
				bound = true
			}
		}
		for _, iv := range w.invs {
			if !bound && iv.beforeTk == 0 {
				iv.beforeTk = tk.ID
				break
			}
		}
	}
}

// passBegins: the goroutine parked at cache2.invalidate.before with this ticket is about to read the
// clock and enter its pass.
func (w *w9World) passBegins(tk *verifsim.Ticket) {
	if tk.Name != w9PtBefore {
		return
	}
	w.beginPass()
	if !w.bbArmed {
		return
	}
	for _, iv := range w.invs {
		if iv.beforeTk == tk.ID {
			iv.stampSeq = w.r.Seq()
		}
	}
}

func (w *w9World) midPass(tickets []*verifsim.Ticket) *verifsim.Ticket {
	for _, tk := range tickets {
		if tk.Name == w9PtBetween {
			return tk
		}
	}
	return nil
}

func (w *w9World) iterSnapshot() (it [2]*cache2Bucket, ahead bool) {
	for i, sc := range w.steps {
		sh := w.ch.shards[time.Duration(sc.step)*time.Second]
		sh.mu.Lock()
		it[i] = sh.invalidateIter
		sh.mu.Unlock()
		if it[i] != nil {
			ahead = true
		}
	}
	return it, ahead
}

// bbWatch (probes only): what happens to the shard's invalidate iterator and to the buckets while an
// invalidation pass is parked between two buckets. Pointers are compared, never logged.
func (w *w9World) bbWatch(tickets []*verifsim.Ticket) {
	tk := w.midPass(tickets)
	if w.bbAftermath > 0 {
		w.bbAftermath--
	}
	if tk == nil {
		if w.bbTk != 0 {
			w.bbAftermath = 8
		}
		w.bbTk = 0
		return
	}
	it, ahead := w.iterSnapshot()
	n := w.ch.bucketCount()
	if tk.ID != w.bbTk {
		w.bbTk, w.bbIter, w.bbBuckets = tk.ID, it, n
		w.r.Probe("invalidation_parked_between_buckets")
		if n >= 3 {
			w.r.Probe("invalidation_parked_between_buckets_3_or_more_buckets_in_cache")
		}
		if ahead {
			w.r.Probe("invalidation_parked_between_buckets_with_buckets_ahead")
		}
		return
	}
	if n < w.bbBuckets {
		w.r.Probe("bucket_removed_while_invalidation_parked")
	}
	w.bbBuckets = n
	if it != w.bbIter {
		w.r.Probe("next_bucket_of_parked_invalidation_removed")
		if ahead {
			w.r.Probe("next_bucket_of_parked_invalidation_removed_successor_remains")
		}
		w.bbIter = it
	}
}

func (w *w9World) rowsFor(q int, step, t int64) int { return 1 + int((t/step+int64(q))%2) }

// ---- the simulated storage --------------------------------------------------------------

func (w *w9World) loader(ctx context.Context, h *requestHandler, q *queryBuilder, lod data_model.LOD, ret [][]tsSelectRow, _ int) (n int, err error) {
	w.mu.Lock()
	g := w.byH[h]
	ld := &w9Load{id: g.id, q: int(q.metric.MetricID), step: lod.StepSec, from: lod.FromSec, to: lod.ToSec, ret: ret, cmd: make(chan int), state: w9InAlloc}
	w.newLoads = append(w.newLoads, ld)
	w.mu.Unlock()
	defer func() {
		ld.err = err
		ld.state = w9Returned
	}()
	// the protocol of the real loader (handler.go loadPoints)
	ctx, cancel := context.WithCancel(ctx)
	defer cancel()
	cc := cache2FromInflightCtx(ctx)
	var reqID uint32
	if cc != nil {
		reqID = cc.NewInflightReq(cancel)
		ld.reqID = reqID
		cc.updateInflightApprox(reqID, 0)
		defer cc.afterInflightLoadFinished(reqID)
	}
	for {
		ld.state = w9Idle
		select {
		case cmd := <-ld.cmd:
			if cmd == w9CmdFail {
				return 0, errW9Load
			}
			if cmd == w9CmdReturn {
				// returning is a step of its own: the bytes were announced in an earlier step, so
				// the trim goroutine has settled on them before the request is taken off the books
				return n, nil
			}
			hold := cmd&w9CmdHold != 0
			cmd &^= w9CmdHold
			upto := len(ret)
			if cmd == w9CmdBlock {
				upto = w9BlockUpto(ld)
			}
			if hold {
				// loadPoints' OnResult looks at ctx.Done() and then reports the block's bytes to the cache
				// (updateInflightApprox takes cache.mu): the loader stands between the two until the
				// scheduler lets it go on; a cancellation that arrives meanwhile is noticed afterwards
				ld.heldUpto = upto
				ld.state = w9Held
				<-ld.cmd
			}
			ld.state = w9InAlloc
			if cc != nil {
				cc.updateInflightApprox(reqID, w.deltaBytes(ld, upto))
			}
			if ctx.Err() != nil {
				return 0, ctx.Err() // cancelled by the cache (memory) or timed out
			}
			for i := ld.delivered; i < upto; i++ {
				t := lod.FromSec + int64(i)*lod.StepSec
				k := w.rowsFor(ld.q, ld.step, t)
				for j := 0; j < k; j++ {
					row := tsSelectRow{time: t}
					row.tag[0] = int64(ld.q)
					row.tag[1] = ld.step
					row.tag[2] = int64(j)
					row.count = float64(ld.id)
					row.sum = float64(w.store[[2]int64{ld.step, t}])
					ret[i] = append(ret[i], row)
					n++
				}
			}
			ld.delivered = upto
			ld.blocks++
		case <-ctx.Done():
			return 0, ctx.Err()
		}
	}
}

// w9BlockUpto: a block delivers half of the slots that are still missing.
func w9BlockUpto(ld *w9Load) int { return ld.delivered + (len(ld.ret)-ld.delivered+1)/2 }

// deltaBytes: what the next delivery up to slot `upto` adds to the in-flight estimate. The first
// delivery of a load carries id+1 extra bytes so that no two requests have equal byte counts
// (the cache cancels "the largest" request by iterating a map).
func (w *w9World) deltaBytes(ld *w9Load, upto int) int64 {
	rows := 0
	for i := ld.delivered; i < upto; i++ {
		rows += w.rowsFor(ld.q, ld.step, ld.from+int64(i)*ld.step)
	}
	d := int64(rows * w.rowB)
	if ld.blocks == 0 {
		d += int64(ld.id + 1)
	}
	return d
}

// w9CondLocker stands in for allocCond.L (which is &cache.mu): sync.Cond calls L.Unlock/L.Lock only
// from Wait, so every Unlock seen here is one allocation wait. Used for probes only.
type w9CondLocker struct {
	mu    *sync.Mutex
	waits map[string]int // guarded by mu (Unlock is called with mu held)
}

func (l *w9CondLocker) Lock() { l.mu.Lock() }
func (l *w9CondLocker) Unlock() {
	var pcs [8]uintptr
	n := runtime.Callers(2, pcs[:])
	frames := runtime.CallersFrames(pcs[:n])
	who := "other"
	for {
		f, more := frames.Next()
		switch {
		case strings.HasSuffix(f.Function, ".tryNotExceedMemoryHardLimit"):
			who = "request_start"
		case strings.HasSuffix(f.Function, ".tryNotExceedMemoryHardLimitInflight"):
			who = "loader_hard_limit"
		case strings.HasSuffix(f.Function, ".tryNotExceedMemorySoftLimitInflight"):
			who = "loader_soft_limit"
		}
		if !more || who != "other" {
			break
		}
	}
	l.waits[who]++
	l.mu.Unlock()
}

// ---- white-box reads at quiescence ------------------------------------------------------

func (w *w9World) memState() (size int, inflight int64, nreq int, lim cache2Limits) {
	w.ch.mu.Lock()
	defer w.ch.mu.Unlock()
	return w.ch.info.size(), w.ch.inflightBytes, len(w.ch.inflightReqM), w.ch.limits
}

// mayDeliver keeps the run out of a state the bubble cannot leave: with the cache empty and the
// in-flight estimate alone above the hard limit the trim goroutine loops without blocking.
func (w *w9World) mayDeliver(delta int64) bool {
	size, inflight, _, lim := w.memState()
	return lim.maxSize == 0 || size <= 0 || inflight+delta <= int64(lim.maxSize)
}

// willWait: the loader will sleep in tryNotExceedMemoryHardLimitInflight when it announces delta
// more bytes (probe only). Deliveries and the return of a load are separate steps: a delivery only
// raises the in-flight estimate and leaves the loader idle, so the trim goroutine it wakes decides
// on a settled estimate whatever the order in which the Go scheduler runs the two.
func (w *w9World) willWait(delta int64) bool {
	size, inflight, _, lim := w.memState()
	return lim.maxSize != 0 && size > 0 && int64(size)+inflight+delta > int64(lim.maxSize)
}

func (w *w9World) wouldBlockAtStart() bool {
	size, inflight, _, lim := w.memState()
	return lim.maxSize != 0 && size > 0 && size+int(inflight) > lim.maxSize
}

func (w *w9World) allocWaiter() *w9Get {
	for _, g := range w.gets {
		if !g.done && g.qb.cacheKey == "" {
			return g
		}
	}
	return nil
}

func (w *w9World) outstanding() int {
	n := 0
	for _, g := range w.gets {
		if !g.judged {
			n++
		}
	}
	return n
}

// accounting compares the runtime info (summed over the two modes: a bucket changes its mode with
// every request) with what the shards really hold. Called only when nothing is in progress.
func (w *w9World) accounting() (ok bool, empty bool, what string) {
	info := w.ch.runtimeInfo()
	var buckets, chunks, slots, bytes int
	for _, sh := range w.ch.shards {
		sh.mu.Lock()
		for _, b := range sh.bucketM {
			b.mu.Lock()
			buckets++
			for _, ch := range b.chunks {
				ch.mu.Lock()
				chunks++
				slots += b.chunkSize
				bytes += ch.size
				ch.mu.Unlock()
			}
			b.mu.Unlock()
		}
		sh.mu.Unlock()
	}
	sum := func(s [2]int) int { return s[0] + s[1] }
	what = fmt.Sprintf("runtime info says buckets=%d chunks=%d slots=%d bytes=%d; the shards hold buckets=%d chunks=%d slots=%d bytes=%d",
		sum(info.bucketCountS), sum(info.chunkCountS), sum(info.chunkSizeS), sum(info.sizeS), buckets, chunks, slots, bytes)
	ok = sum(info.bucketCountS) == buckets && sum(info.chunkCountS) == chunks && sum(info.chunkSizeS) == slots && sum(info.sizeS) == bytes
	return ok, buckets == 0, what
}

// ---- observation after every step ---------------------------------------------------------

func (w *w9World) observe() {
	r := w.r
	for _, g := range w.gets {
		if g.initSeq == 0 && g.qb.cacheKey != "" {
			g.initSeq = r.Seq()
		}
	}
	w.mu.Lock()
	nl := w.newLoads
	w.newLoads = nil
	w.mu.Unlock()
	sort.Slice(nl, func(i, j int) bool { return nl[i].id < nl[j].id })
	for _, ld := range nl {
		if w.loads[ld.id] != nil {
			r.Fail("C23", "loader_called_twice", "get", "Get #%d called the loader twice", ld.id)
			continue
		}
		ld.startSeq = r.Seq()
		w.loads[ld.id] = ld
		w.loadIDs = append(w.loadIDs, ld.id)
		sort.Ints(w.loadIDs)
		r.Event("load", "%d started q=%d step=%d [%d,%d) slots=%d", ld.id, ld.q, ld.step, ld.from, ld.to, len(ld.ret))
	}
	for _, id := range w.loadIDs {
		ld := w.loads[id]
		if !ld.finished && ld.state == w9Returned {
			ld.finished = true
			ld.finishSeq = r.Seq()
			if ld.err != nil {
				w.anyFailedLoad = true
				if !errors.Is(ld.err, errW9Load) {
					r.Probe("load_cancelled_or_timed_out")
				}
			}
			r.Event("load", "%d returned err=%v blocks=%d", ld.id, ld.err, ld.blocks)
		}
		if ld.finished && ld.storedSeq == 0 {
			// loadChunks reports "cache-post-load" to its request's timing sink when the chunk
			// update that follows the load is over
			tm := &w.gets[ld.id].h.endpointStat.timings
			tm.mutex.Lock()
			_, over := tm.Timings["cache-post-load"]
			tm.mutex.Unlock()
			if over {
				ld.storedSeq = r.Seq()
			}
		}
	}
	for _, iv := range w.invs {
		if iv.done && !iv.seen {
			iv.seen = true
			iv.completeSeq = r.Seq()
			r.Event("inv", "%d completed", iv.id)
			w.probeLeftClean(iv)
			if iv.panicked != "" {
				r.Fail("C23", "panic", "invalidate", "invalidate panicked: %s", iv.panicked)
			}
		}
	}
	for _, g := range w.gets {
		if g.done && !g.judged {
			g.judged = true
			g.endSeq = r.Seq()
			w.judge(g)
		}
	}
}

func (w *w9World) judge(g *w9Get) {
	r := w.r
	if g.panicked != "" {
		r.Fail("C23", "panic", "get", "Get #%d panicked: %s", g.id, g.panicked)
		return
	}
	own := w.loads[g.id]
	r.Extra["gets"]++
	if g.err == nil && g.play == 0 {
		r.Extra["gets_judged_nonplay_ok"]++
	}
	if g.cancelSeq != 0 {
		// a request whose caller went away may return the context's error or data (then judged as any
		// other request's); everybody else must be served as if nothing had happened
		switch {
		case g.err == nil:
			r.Probe("cancelled_request_returned_data")
		case errors.Is(g.err, context.Canceled):
			r.Probe("cancelled_request_returned_context_error")
		default:
			r.Probe("cancelled_request_returned_other_error")
		}
	}
	if g.err != nil {
		r.Event("get", "#%d returned error %v", g.id, g.err)
		if !w.anyFailedLoad {
			r.Probe("get_error_without_any_failed_load")
		}
		r.Probe("get_error")
		return
	}
	if own != nil && own.finished && own.err != nil {
		r.Probe("own_load_failed_but_get_succeeded")
	}
	n := int((g.to - g.from) / g.step)
	r.Event("get", "#%d returned %d slots", g.id, len(g.res))
	prop := "C23"
	fail := func(clause, sig, f string, a ...any) {
		if g.play != 0 {
			// the statement speaks about non-play requests only: count, do not fail
			r.Probe("play_get_anomaly_" + clause)
			return
		}
		r.Fail(prop, clause, sig, f, a...)
	}
	if len(g.res) != n {
		fail("placement", "slot-count", "Get #%d over %d slots returned %d slots", g.id, n, len(g.res))
		return
	}
	for i, rows := range g.res {
		t := g.from + int64(i)*g.step
		want := w.rowsFor(g.q, g.step, t)
		if len(rows) == 0 {
			sig := "empty-slot"
			if w.anyFailedLoad {
				sig = "empty-slot-after-failed-load"
			}
			fail("placement", sig, "Get #%d (q=%d step=%d) succeeded but slot %d (time %d) holds no rows; storage has %d rows there", g.id, g.q, g.step, i, t, want)
			return
		}
		lid := -1
		for j, row := range rows {
			if row.time != t || row.tag[0] != int64(g.q) || row.tag[1] != g.step {
				fail("placement", "foreign-rows", "Get #%d (q=%d step=%d) slot %d (time %d) holds a row of q=%d step=%d time=%d (load %d)", g.id, g.q, g.step, i, t, row.tag[0], row.tag[1], row.time, int(row.count))
				return
			}
			id := int(row.count)
			if lid >= 0 && id != lid {
				fail("placement", "mixed-loads", "Get #%d slot %d (time %d) mixes rows of loads %d and %d", g.id, i, t, lid, id)
				return
			}
			lid = id
			if j < want && row.tag[2] != int64(j) {
				fail("placement", "row-order", "Get #%d slot %d (time %d): row %d is storage row %d of load %d", g.id, i, t, j, row.tag[2], id)
				return
			}
		}
		if len(rows) != want {
			fail("placement", "row-count", "Get #%d slot %d (time %d) holds %d rows of load %d; storage produced %d", g.id, i, t, len(rows), lid, want)
			return
		}
		ld := w.loads[lid]
		if ld == nil || !ld.finished || ld.err != nil {
			fail("placement", "rows-of-failed-or-unfinished-load", "Get #%d slot %d (time %d) holds rows of load %d which did not complete successfully", g.id, i, t, lid)
			return
		}
		switch {
		case lid == g.id:
			r.Probe("slot_from_own_load")
		case ld.finishSeq < g.beginSeq:
			r.Probe("slot_from_cache")
		default:
			r.Probe("slot_from_concurrent_load")
		}
		if g.play != 0 {
			continue
		}
		// freshness, exactly the statement: never rows from a load that finished before an
		// invalidation of that slot which itself completed before the request began
		for _, iv := range w.invs {
			if iv.step != g.step || !iv.slots[t] || ld.finishSeq >= iv.startSeq {
				continue
			}
			if iv.seen && iv.completeSeq < g.beginSeq {
				sig, how, precise := w.classifyStale(g, ld, iv, t)
				if w.tolerate[sig] || w.tolerate["all"] { // debugging aid only (W9_TOLERATE_STALE)
					r.Probe("TOLERATED_stale_after_invalidation_" + sig)
					continue
				}
				detail := fmt.Sprintf("Get #%d (q=%d step=%d, began at seq %d, looked its bucket up by seq %d) slot time %d holds rows of load %d which finished at seq %d (chunk update by seq %d), before invalidation %d of that slot (seq %d..%d) that completed before the Get began; %s",
					g.id, g.q, g.step, g.beginSeq, g.initSeq, t, lid, ld.finishSeq, ld.storedSeq, iv.id, iv.startSeq, iv.completeSeq, how)
				if precise {
					// one of the two mechanisms recorded for the pinned tree: remember the first one and go
					// on, so that a run which also shows any other failure reports that other failure
					r.Probe("stale_read_" + sig)
					if w.deferred == nil {
						w.deferred = &verifsim.Violation{Property: "C23", Clause: "stale_after_invalidation", Sig: sig, Detail: detail}
					}
					continue
				}
				r.Fail("C23", "stale_after_invalidation", sig, "%s", detail)
				return
			}
			r.Probe("old_rows_served_while_invalidation_in_progress")
		}
	}
}

// classifyStale names the mechanism of a stale read from the recorded sequence numbers. Two
// mechanisms are identified narrowly (precise=true); everything else keeps a generic sig.
func (w *w9World) classifyStale(g *w9Get, ld *w9Load, iv *w9Inv, t int64) (sig, how string, precise bool) {
	pendingAtInit := ld.storedSeq == 0 || ld.storedSeq > g.initSeq
	// A: the Get was handed the rows as an awaiter: they cannot have been in the chunk when it
	// looked the chunk up, because the serving load's chunk update had not run yet; that load's loader
	// had returned before the invalidation began, so its goroutine stood at cache2.load.after_notify
	if ld.id != g.id && w.afterNotifyArmed && g.initSeq != 0 && pendingAtInit {
		return "awaiter-of-finished-load", "the serving load's goroutine stood between notifying its own requester and updating the chunk (cache2.load.after_notify) while the invalidation ran and the Get looked the chunk up, so the Get became an awaiter of the finished load", true
	}
	if !pendingAtInit {
		// plain cache hit. B: a second load L1 over the same chunk started after the invalidation while
		// L0's chunk update was pending (it restamps the shared chunk.loadStartedAt), and L0's update ran
		// after L1's update (or L1 failed, or L1's update is still pending)
		// ("after the invalidation": the pass hands every bucket the clock value it read before it
		// began; a pass that is parked between buckets spans many steps, and a load that starts after
		// that reading carries a later loadStartedAt although invalidate() has not returned yet)
		after, when := iv.completeSeq, "after the invalidation"
		if iv.stampSeq != 0 {
			after, when = iv.stampSeq, fmt.Sprintf("after the invalidation pass had read the clock (seq %d; the pass was parked between buckets and returned at seq %d)", iv.stampSeq, iv.completeSeq)
		}
		for _, id := range w.loadIDs {
			l1 := w.loads[id]
			if l1 == ld || l1.q != ld.q || l1.step != ld.step || t < l1.from || t >= l1.to {
				continue
			}
			if !(l1.startSeq > after && l1.startSeq < ld.storedSeq) {
				continue
			}
			switch {
			case l1.finished && l1.err != nil:
				return "stale-store-after-second-load-restamp", fmt.Sprintf("load %d over the same chunk started at seq %d, %s and before load %d's pending chunk update, restamped the chunk's shared loadStartedAt and then failed; load %d's update then stored its rows and cleared the invalidation mark", l1.id, l1.startSeq, when, ld.id, ld.id), true
			case l1.storedSeq != 0 && l1.storedSeq < ld.storedSeq:
				return "stale-store-after-second-load-restamp", fmt.Sprintf("load %d over the same chunk started at seq %d, %s and before load %d's pending chunk update, restamped the chunk's shared loadStartedAt; its update (seq %d) cleared the invalidation mark and load %d's later update (seq %d) overwrote the chunk with the older rows", l1.id, l1.startSeq, when, ld.id, l1.storedSeq, ld.id, ld.storedSeq), true
			case l1.storedSeq == 0 || l1.storedSeq > g.initSeq:
				return "stale-store-after-second-load-restamp", fmt.Sprintf("load %d over the same chunk started at seq %d, %s and before load %d's pending chunk update, restamped the chunk's shared loadStartedAt; load %d's update then stored its rows and cleared the invalidation mark (load %d's own update still pending)", l1.id, l1.startSeq, when, ld.id, ld.id, l1.id), true
			}
		}
		if ld.storedSeq > iv.startSeq {
			return "stale-store-after-invalidation", "the chunk update of the finished load ran after the invalidation began and left the chunk marked clean (no second load restamped the chunk)", false
		}
		return "cached-load", "the rows were in the chunk before the invalidation and the invalidation did not make the Get reload them", false
	}
	return "stale-rows-other", "the rows were not in the chunk when the Get looked it up, and the awaiter mechanism is not proven", false
}

// probeLeftClean (white-box, probe only): an invalidate() call has returned; does the shard still
// hold a chunk that covers one of its slots, has data, is not loading, is not marked invalidated and
// was last loaded before the call began? A request for that slot would be served from it.
func (w *w9World) probeLeftClean(iv *w9Inv) {
	sh := w.ch.shards[time.Duration(iv.step)*time.Second]
	n := 0
	sh.mu.Lock()
	for _, b := range sh.bucketM {
		b.mu.Lock()
		for _, ch := range b.chunks {
			ch.mu.Lock()
			if ch.data != nil && ch.loading == 0 && ch.invalidatedAt == 0 && ch.loadStartedAt < iv.startNano {
				for t := range iv.slots {
					if ch.start <= t*int64(time.Second) && t*int64(time.Second) < ch.end {
						n++
						break
					}
				}
			}
			ch.mu.Unlock()
		}
		b.mu.Unlock()
	}
	sh.mu.Unlock()
	if n > 0 {
		w.r.Probe("completed_invalidation_left_old_chunk_clean")
	}
}

// ---- actions ----------------------------------------------------------------------------

func (w *w9World) launchGet() {
	r, c := w.r, w.c
	q := c.Intn(w.nQ, "query")
	sc := w.steps[c.Intn(len(w.steps), "step")]
	base := sc.oldBase
	if w.bbFocus != 1 && c.Intn(4, "region") == 3 {
		base = sc.recentBase
	}
	uni := w.uni(sc)
	s0 := c.Intn(uni, "from_slot")
	maxLen := uni - s0
	if maxLen > 2*sc.csize+1 {
		maxLen = 2*sc.csize + 1
	}
	ln := 1 + c.Intn(maxLen, "slots")
	var done *w9Inv
	for _, iv := range w.invs {
		if iv.seen {
			done = iv
		}
	}
	if w.bbArmed && done != nil && (w.bbAftermath > 0 || c.Intn(2, "revisit") == 1) {
		// ask again for what the latest completed invalidation named: any query of that step, or the
		// query of one of the two latest requests
		iv := done
		if k := c.Intn(3, "revisit_query"); k > 0 && len(w.gets) >= k {
			q = w.gets[len(w.gets)-k].q
		}
		for _, x := range w.steps {
			if x.step == iv.step {
				sc = x
			}
		}
		t := iv.first
		base = sc.oldBase
		if t >= sc.recentBase {
			base = sc.recentBase
		}
		s0 = int((t - base) / sc.step)
		ln = 1 + c.Intn(2, "revisit_slots")
		r.Probe("get_revisits_latest_invalidation")
	}
	play := []int{0, 0, 0, 0, 0, 1, 5}[c.Intn(7, "play")]
	force := c.Intn(8, "force_load") == 7
	w.startGet(q, sc, base, s0, ln, play, force)
	if w.cancelMode && c.Intn(8, "cancelled_at_start") == 7 {
		// the caller's context is cancelled before the request has looked anything up
		w.cancelGet(w.gets[len(w.gets)-1])
	}
}

// cancelGet cancels the caller's context of a request (cache2.Get's ctx). The cache's own loads run
// under a context of their own; a request that waits for loads returns ctx.Err() and the loads, the
// chunk updates and everybody who awaits them go on.
func (w *w9World) cancelGet(g *w9Get) {
	r := w.r
	was := "waits for loads"
	ld := w.loads[g.id]
	switch {
	case g.judged:
		was = "has returned"
	case g.initSeq == 0 && g.qb.cacheKey == "":
		was = "has not looked its bucket up yet"
	case ld != nil && !ld.finished:
		was = "waits, its own load is running"
	case ld != nil && ld.finished:
		was = "waits, its own load has finished"
	case ld == nil:
		was = "waits for loads of others"
	}
	g.cancelSeq = r.Seq()
	g.cancelWas = was
	r.Sched("cancel", "caller")
	r.Event("get", "#%d caller's context cancelled (request %s)", g.id, was)
	r.Probe("caller_context_cancelled_request_" + strings.ReplaceAll(strings.ReplaceAll(was, " ", "_"), ",", ""))
	g.cancel()
}

func (w *w9World) startGet(q int, sc w9StepCfg, base int64, s0, ln, play int, force bool) {
	r := w.r
	g := &w9Get{id: len(w.gets), q: q, step: sc.step, from: base + int64(s0)*sc.step, to: base + int64(s0+ln)*sc.step, play: play, force: force}
	g.h = &requestHandler{Handler: w.hnd}
	g.h.endpointStat.timings.Timings = map[string][]time.Duration{}
	g.h.accessInfo.user = "u"
	g.qb = &queryBuilder{metric: &format.MetricMetaValue{MetricID: int32(q)}, play: play}
	w.mu.Lock()
	w.byH[g.h] = g
	w.mu.Unlock()
	w.gets = append(w.gets, g)
	blocked := w.wouldBlockAtStart()
	if blocked {
		r.Probe("get_waits_for_memory")
	}
	if w.midPass(w.pts.Parked()) != nil {
		r.Probe("get_begun_while_invalidation_parked")
	}
	g.beginSeq = r.Seq()
	r.Sched("get", fmt.Sprintf("client%d", w.outstanding()))
	r.Event("get", "#%d begin q=%d step=%d slots [%d,%d) of %s region play=%d force=%v memwait=%v", g.id, q, sc.step, s0, s0+ln, map[bool]string{true: "old", false: "recent"}[base == sc.oldBase], play, force, blocked)
	lod := data_model.LOD{Version: Version6, StepSec: g.step, FromSec: g.from, ToSec: g.to, Location: time.UTC}
	ctx := context.Background()
	if w.cancelMode {
		ctx, g.cancel = context.WithCancel(ctx)
	}
	go func() {
		defer func() {
			if p := recover(); p != nil {
				g.panicked = fmt.Sprintf("%v\n%s", p, debug.Stack())
			}
			g.done = true
		}()
		g.res, g.err = w.ch.Get(ctx, g.h, g.qb, lod, force)
	}()
}

func (w *w9World) launchInvalidate() {
	r, c := w.r, w.c
	sc := w.steps[c.Intn(len(w.steps), "inv_step")]
	base := sc.oldBase
	if w.bbFocus != 1 && c.Intn(4, "inv_region") == 3 {
		base = sc.recentBase
	}
	n := 1 + c.Intn(3, "inv_count")
	set := map[int64]bool{}
	for i := 0; i < n; i++ {
		set[base+int64(c.Intn(w.uni(sc), "inv_slot"))*sc.step] = true
	}
	iv := &w9Inv{id: len(w.invs), step: sc.step, slots: set}
	var slots []int64
	for t := range set {
		slots = append(slots, t)
	}
	sort.Slice(slots, func(i, j int) bool { return slots[i] < slots[j] })
	iv.first = slots[0]
	last := c.Intn(2, "inv_last_second") == 1
	for _, t := range slots {
		// the model-store write that the invalidation announces
		w.store[[2]int64{sc.step, t}]++
		sec := t
		if last {
			sec = t + sc.step - 1 // any second of the slot designates the slot
		}
		iv.times = append(iv.times, sec)
	}
	w.invs = append(w.invs, iv)
	iv.startSeq = r.Seq()
	iv.startNano = time.Now().UnixNano()
	r.Sched("invalidate", "invalidator")
	rel := make([]int64, len(slots))
	for i, t := range slots {
		rel[i] = (t - base) / sc.step
	}
	r.Event("inv", "%d begin step=%d slots=%v of %s region", iv.id, sc.step, rel, map[bool]string{true: "old", false: "recent"}[base == sc.oldBase])
	if !w.beforeArmed {
		w.beginPass() // otherwise when the ticket at cache2.invalidate.before is released
		if w.bbArmed {
			iv.stampSeq = iv.startSeq
		}
	}
	go func() {
		defer func() {
			if p := recover(); p != nil {
				iv.panicked = fmt.Sprint(p)
			}
			iv.done = true
		}()
		w.ch.invalidate(iv.times, sc.step)
	}()
}

func (w *w9World) setLimits(l cache2Limits, why string) {
	w.lim = l
	if l.maxSize != 0 {
		w.freshLim = cache2Limits{maxSize: l.maxSize, maxSizeSoft: l.maxSizeSoft}
	}
	w.r.Event("limits", "%s maxSize=%d rows maxSizeSoft=%d rows maxAge=%v", why, l.maxSize/w.rowB, l.maxSizeSoft/w.rowB, l.maxAge)
	w.ch.setLimits(l)
}

func (w *w9World) drawLimits() {
	c := w.c
	_, inflight, _, _ := w.memState()
	menu := []cache2Limits{
		{},
		{maxSize: 200 * w.rowB},
		{maxSize: 60 * w.rowB},
		{maxSize: 120 * w.rowB, maxSizeSoft: 30 * w.rowB},
		{maxSize: 30 * w.rowB, maxSizeSoft: 8 * w.rowB},
		{maxSize: 8 * w.rowB},
	}
	l := menu[c.Intn(len(menu), "limits")]
	if l.maxSize != 0 && int64(l.maxSize) < inflight {
		w.r.Probe("limits_not_lowered_below_inflight")
		return
	}
	w.r.Sched("limits", "admin")
	w.setLimits(l, "set")
}

// squeeze: soft limit at 3/4, 2/4 or 1/4 of what the cache holds now (hard limit far above): the trim
// goroutine removes the least recently used buckets and keeps the others.
func (w *w9World) squeeze() {
	size, inflight, _, _ := w.memState()
	k := 3 - w.c.Intn(3, "squeeze")
	l := cache2Limits{maxSize: 400 * w.rowB, maxSizeSoft: size * k / 4}
	if int64(l.maxSize) < inflight || l.maxSizeSoft == 0 {
		w.r.Probe("squeeze_skipped")
		return
	}
	w.r.Sched("squeeze", "admin")
	w.setLimits(l, fmt.Sprintf("squeeze to %d/4:", k))
}

// agedTrim makes the aged trimming pass run: the max-age timer of the trim goroutine only calls
// trimCond.Signal; here the limit is set, the same signal is given, and the limit is cleared
// before fake time moves. (Inside a bubble the timer fires at age == maxAge exactly, the pass is
// skipped and a zero timer is re-armed for ever; the real clock moves on between iterations.)
func (w *w9World) agedTrim() {
	r, c := w.r, w.c
	d := []time.Duration{time.Millisecond + 137, 50*time.Millisecond + 137, 2*time.Second + 137}[c.Intn(3, "max_age")]
	for _, tk := range w.pts.Parked() {
		if strings.HasPrefix(tk.Name, "cache2.trim.") {
			r.Probe("aged_trim_skipped_trim_goroutine_parked")
			return
		}
	}
	size, _, _, _ := w.memState()
	if size <= 0 {
		r.Probe("aged_trim_skipped_cache_empty")
		return
	}
	r.Sched("aged_trim", "admin")
	l := w.lim
	l.maxAge = d
	w.setLimits(l, "aged-trim pulse")
	w.ch.mu.Lock()
	w.ch.trimCond.Signal()
	w.ch.mu.Unlock()
	verifsim.Wait()
	l.maxAge = 0
	w.setLimits(l, "aged-trim pulse end")
	after, _, _, _ := w.memState()
	if after < size {
		r.Probe("aged_trim_freed_memory")
	}
}

func (w *w9World) idleLoads() []*w9Load {
	var out []*w9Load
	for _, id := range w.loadIDs {
		if ld := w.loads[id]; !ld.finished && ld.state == w9Idle {
			out = append(out, ld)
		}
	}
	return out
}

func (w *w9World) drawHold() int {
	if w.holdMode && w.c.Intn(2, "hold") == 1 {
		return w9CmdHold
	}
	return 0
}

func (w *w9World) heldLoads() []*w9Load {
	var out []*w9Load
	for _, id := range w.loadIDs {
		if ld := w.loads[id]; !ld.finished && ld.state == w9Held {
			out = append(out, ld)
		}
	}
	return out
}

// registered: the cache still has the load's in-flight request on its books (it takes a request off
// when the loader finishes, or when it cancels the largest one because the in-flight estimate alone,
// with the cache empty, is above the hard limit).
func (w *w9World) registered(ld *w9Load) bool {
	w.ch.mu.Lock()
	defer w.ch.mu.Unlock()
	_, ok := w.ch.inflightReqM[ld.reqID]
	return ok
}

// mayReport: a held loader reports only if the estimate, with these bytes counted, stays out of the
// state the bubble cannot leave (see mayDeliver). For a request that is on the books that is
// mayDeliver; the report of a request the cache has taken off its books is to be ignored by the
// cache, and is let through only if the estimate would stay within the hard limit even if it were
// counted, so that no tree, whatever it does with such a report, can put the trim goroutine into its
// non-blocking loop.
func (w *w9World) mayReport(ld *w9Load) bool {
	delta := w.deltaBytes(ld, ld.heldUpto)
	if w.registered(ld) {
		return w.mayDeliver(delta)
	}
	_, inflight, _, lim := w.memState()
	return lim.maxSize == 0 || inflight+delta <= int64(lim.maxSize)
}

func (w *w9World) report(ld *w9Load) {
	r := w.r
	r.Sched("report", "storage")
	reg := w.registered(ld)
	r.Event("load", "%d report (request on the cache's books: %v)", ld.id, reg)
	r.Probe("held_block_reported")
	if !reg {
		r.Probe("held_block_reported_after_cache_cancelled_the_request")
	}
	ld.cmd <- w9CmdReport
}

func (w *w9World) command(ld *w9Load, cmd int) {
	r := w.r
	name := []string{"return", "block", "fail", "rest"}[cmd&^w9CmdHold]
	if cmd&w9CmdHold != 0 {
		name += " (loader holds the report)"
		r.Probe("block_taken_report_held")
	}
	r.Sched(name, "storage")
	r.Event("load", "%d %s", ld.id, name)
	if cmd == w9CmdFail {
		r.Fault("load_error")
	}
	ld.cmd <- cmd
}

func (w *w9World) stepWait(d time.Duration) {
	time.Sleep(d)
	verifsim.Wait()
	w.observe()
}

// warmUp: before the schedule begins every query asks, one after the other, for the first chunks of
// the old region of every step and its load is completed at once: every shard then holds one bucket
// per query, in the order of the query ids, each with clean chunks.
func (w *w9World) warmUp(gap time.Duration) {
	r := w.r
	for q := 0; q < w.nQ && !r.Failed(); q++ {
		for _, sc := range w.steps {
			n := w.uni(sc)
			if n > 2*sc.csize {
				n = 2 * sc.csize
			}
			w.stepWait(time.Microsecond)
			w.startGet(q, sc, sc.oldBase, 0, n, 0, false)
			for i := 0; i < 6 && !w.gets[len(w.gets)-1].judged && !r.Failed(); i++ {
				w.stepWait(time.Microsecond)
				if idle := w.idleLoads(); len(idle) > 0 {
					if idle[0].delivered == len(idle[0].ret) {
						w.command(idle[0], w9CmdReturn)
					} else {
						w.command(idle[0], w9CmdRest)
					}
				} else if tks := w.pts.Parked(); len(tks) > 0 {
					r.Event("hook", "release ticket %d at %s", tks[0].ID, tks[0].Name)
					w.pts.Release(tks[0].ID)
				}
			}
		}
		if gap > 0 {
			r.Event("clock", "sleep %v", gap)
			w.stepWait(gap)
		}
	}
	// the chunk updates of the last loads (a load goroutine may stand at cache2.load.after_notify)
	for i := 0; i < 4; i++ {
		w.stepWait(time.Microsecond)
		if tks := w.pts.Parked(); len(tks) > 0 {
			r.Event("hook", "release ticket %d at %s", tks[0].ID, tks[0].Name)
			w.pts.Release(tks[0].ID)
		}
	}
}

// ---- one run ----------------------------------------------------------------------------

func w9Exec(t *testing.T, r *verifsim.Run) {
	// No GC activity inside a run: a GC cycle preempts goroutines and moves them to the global run
	// queue, which reorders a burst of woken goroutines. The collector stays off for the whole process
	// (this test binary runs only this world) and a full synchronous collection is done between runs.
	if w9RunCount == 0 {
		debug.SetGCPercent(-1)
	}
	if w9RunCount%16 == 0 {
		runtime.GC()
	}
	w9RunCount++
	verifsim.Bubble(t, func(t *testing.T) { w9Run(t, r) })
	if os.Getenv("W9_DUMP") != "" {
		for _, e := range r.Events() {
			fmt.Println("   |", e)
		}
	}
	if os.Getenv("W9_DUMP") == "2" {
		for i, d := range r.C.Trace {
			fmt.Printf("   draw %d %s n=%d v=%d\n", i, d.Label, d.N, d.V)
		}
	}
}

func w9Run(t *testing.T, r *verifsim.Run) {
	c := r.C
	w := &w9World{r: r, c: c, byH: map[*requestHandler]*w9Get{}, loads: map[int]*w9Load{}, store: map[[2]int64]int{}, rowB: sizeofCache2DataRow,
		tolerate: map[string]bool{}}
	for _, sig := range strings.Split(os.Getenv("W9_TOLERATE_STALE"), ",") {
		w.tolerate[sig] = true // "all" or a list of sigs of the stale_after_invalidation clause
	}
	start := time.Now()
	defer func() { r.SimNanos = int64(time.Since(start)) }()
	// ---- configuration (swarm)
	cl := c.Intn(8, "clients")
	clients := 3 + cl&3
	w.cancelMode = cl&4 != 0 // callers' contexts are cancellable and the scheduler cancels some of them
	r.Config["cancellable_callers"] = w.cancelMode
	w.nQ = 1 + c.Intn(3, "queries")
	chunkSize := []int{4, 2, 8}[c.Intn(3, "chunk_size")]
	utc := []int64{0, 3 * 3600}[c.Intn(2, "utc_offset")]
	stepSets := [][]int64{{1}, {60}, {1, 60}, {3600, 14400}, {14400}, {1, 3600}}
	stepSet := stepSets[c.Intn(len(stepSets), "steps")]
	mode := c.Intn(3, "faults") // 0 none; 1 load failures; 2 load failures, sleeps beyond the select timeout
	w.faulty = mode != 0
	useLimits := c.Intn(3, "use_limits") != 0
	useReset := c.Intn(2, "use_reset") == 1
	useAged := c.Intn(2, "use_aged") == 1
	hooks := c.Intn(8, "hooks")
	trimHooks := c.Intn(8, "trim_hooks")
	w.holdMode = trimHooks&4 != 0
	armed := map[string]bool{"cache2.load.after_notify": hooks&1 != 0, w9PtBefore: hooks&2 != 0,
		"cache2.trim.before_reduce": trimHooks&1 != 0, "cache2.trim.before_aged": trimHooks&2 != 0}
	w.beforeArmed = armed[w9PtBefore]
	w.bbArmed = hooks&4 != 0
	w.overlap = os.Getenv("W9_OVERLAP_INVALIDATIONS") != ""
	if os.Getenv("W9_DISARM_AFTER_NOTIFY") != "" {
		// exploration aid (sensitivity tests): both findings on the pinned tree need a goroutine parked
		// at cache2.load.after_notify; without that point the unchanged tree is expected to pass
		armed["cache2.load.after_notify"] = false
	}
	ops := 40 + c.Intn(160, "ops")
	bbWarm := 0
	if w.bbArmed {
		// runs that park invalidation passes between buckets: several buckets per shard, and in two
		// thirds of them a narrow universe so that the buckets' chunks cover the invalidated slots
		w.nQ = 3 + c.Intn(3, "bb_queries")
		w.bbFocus = []int{0, 1, 2, 1}[c.Intn(4, "bb_focus")]
		r.Config["queries"] = w.nQ
		r.Config["bb_focus"] = w.bbFocus
		bbWarm = c.Intn(4, "bb_warm") // 0: cold start; 1..3: warm-up, no gap / 1 ms / 1 s between the queries
		r.Config["bb_warm"] = bbWarm
	}
	r.Config["clients"] = clients
	r.Config["queries"] = w.nQ
	r.Config["chunk_size"] = chunkSize
	r.Config["utc_offset"] = utc
	r.Config["steps"] = fmt.Sprint(stepSet)
	r.Config["faults"] = mode
	r.Config["limits"] = useLimits
	r.Config["reset"] = useReset
	r.Config["aged_trim"] = useAged
	r.Config["hooks"] = hooks
	r.Config["trim_hooks"] = trimHooks
	w.afterNotifyArmed = armed["cache2.load.after_notify"]
	r.Config["ops"] = ops

	w.hnd = &Handler{HandlerOptions: HandlerOptions{location: time.UTC, utcOffset: utc}}
	w.pts = verifsim.NewPoints(func(name string) bool {
		if name == w9PtBetween {
			return w.bbShouldPark()
		}
		return armed[name]
	})
	defer w.pts.Close()
	w.ch = newCache2(w.hnd, chunkSize, w.loader)
	condL := &w9CondLocker{mu: &w.ch.mu, waits: map[string]int{}}
	w.ch.mu.Lock()
	w.ch.allocCond.L = condL
	w.ch.mu.Unlock()
	defer func() {
		w.ch.mu.Lock()
		for k, v := range condL.waits {
			r.Probes["memory_wait_"+k] += v
		}
		w.ch.mu.Unlock()
	}()
	nowSec := time.Now().Unix()
	for _, s := range stepSet {
		sh := w.ch.shards[time.Duration(s)*time.Second]
		cdur := int64(sh.chunkDuration / time.Second)
		sc := w9StepCfg{step: s, csize: sh.chunkSize, cdur: cdur}
		sc.oldBase = w.ch.chunkStart(sh, (nowSec-10*cdur)*int64(time.Second)) / int64(time.Second)
		sc.recentBase = w.ch.chunkStart(sh, (nowSec-cdur)*int64(time.Second)) / int64(time.Second)
		w.steps = append(w.steps, sc)
	}
	closed := false
	defer func() {
		if !closed {
			w.windDown(false)
		}
	}()

	// ---- the schedule
	type act struct {
		kind string
		ld   *w9Load
		tk   int
	}
	if bbWarm != 0 {
		w.warmUp([]time.Duration{0, 0, time.Millisecond, time.Second}[bbWarm])
	}
	if w.holdMode {
		// the run begins under a small hard limit (rows; soft limit 80%): with the cache empty the
		// in-flight estimates of a few concurrent loads cross it and the cache cancels the largest
		rows := []int{0, 8, 12, 16, 24, 40}[c.Intn(6, "hold_limits")]
		r.Config["hold_limits"] = rows
		if rows != 0 {
			w.stepWait(time.Microsecond)
			r.Sched("limits", "admin")
			w.setLimits(cache2Limits{maxSize: rows * w.rowB}, "initial")
		}
	}
	for op := 0; op < ops && !r.Failed(); op++ {
		w.stepWait(time.Microsecond)
		if r.Failed() {
			break
		}
		idle := w.idleLoads()
		tickets := w.pts.Parked()
		w.bindBefore(tickets)
		w.bbWatch(tickets)
		// invalidate() has one caller in the server (Handler.invalidateLoop) and the shard has one
		// invalidate iterator: passes over a shard do not overlap. While a pass is parked between two
		// buckets no other invalidate() call enters its pass.
		passParked := w.midPass(tickets) != nil && !w.overlap
		var acts []act
		for _, ld := range idle {
			// "complete" = deliver what is missing, or (a step later) return
			if ld.delivered == len(ld.ret) {
				// a returning load first takes its bytes off the books (waking a request that waits for
				// memory) and then, unless it parks at after_notify, stores its chunks in the same burst:
				// whether the woken request still sees room would depend on goroutine order
				if w.afterNotifyArmed || w.allocWaiter() == nil {
					acts = append(acts, act{kind: "complete", ld: ld})
				}
			} else if w.mayDeliver(w.deltaBytes(ld, len(ld.ret))) {
				acts = append(acts, act{kind: "complete", ld: ld})
			}
		}
		for _, ld := range w.heldLoads() {
			if w.mayReport(ld) {
				acts = append(acts, act{kind: "report", ld: ld})
			}
		}
		for _, tk := range tickets {
			if passParked && tk.Name == w9PtBefore {
				continue
			}
			acts = append(acts, act{kind: "release", tk: tk.ID})
		}
		canGet := w.outstanding() < clients && len(w.gets) < 60 && w.allocWaiter() == nil
		if canGet {
			acts = append(acts, act{kind: "get"}, act{kind: "get"})
			if w.bbAftermath > 0 {
				acts = append(acts, act{kind: "get"}, act{kind: "get"})
			}
		}
		running := 0
		for _, iv := range w.invs {
			if !iv.seen {
				running++
			}
		}
		// runs that park passes between buckets: fewer invalidations, so that buckets hold clean chunks
		// (every invalidation of a narrow universe marks the chunk in every bucket)
		if running < 2 && !passParked && (!w.bbArmed || op%4 == 0) {
			acts = append(acts, act{kind: "invalidate"})
		}
		for _, ld := range idle {
			if d := w.deltaBytes(ld, w9BlockUpto(ld)); ld.blocks < 3 && len(ld.ret)-ld.delivered > 1 && w.mayDeliver(d) {
				acts = append(acts, act{kind: "block", ld: ld})

			}
		}
		if w.faulty && len(idle) > 0 && op%3 == 0 {
			acts = append(acts, act{kind: "fail", ld: idle[c.Intn(len(idle), "fail_which")]})
		}
		acts = append(acts, act{kind: "sleep"})
		var cancellable []*w9Get
		if w.cancelMode {
			// every request that has not returned, and the latest one that has (must be harmless)
			var last *w9Get
			for _, g := range w.gets {
				if g.cancelSeq != 0 {
					continue
				}
				if !g.judged {
					cancellable = append(cancellable, g)
				} else {
					last = g
				}
			}
			if last != nil {
				cancellable = append(cancellable, last)
			}
			if len(cancellable) > 0 {
				acts = append(acts, act{kind: "cancel"})
			}
		}
		if useLimits && passParked {
			acts = append(acts, act{kind: "squeeze"}, act{kind: "squeeze"})
		} else if useLimits {
			acts = append(acts, act{kind: "limits"})
		}
		if useReset {
			acts = append(acts, act{kind: "reset"})
		}
		if useAged {
			acts = append(acts, act{kind: "aged"})
		}
		a := acts[c.Intn(len(acts), "action")]
		switch a.kind {
		case "complete":
			if a.ld.delivered == len(a.ld.ret) {
				w.command(a.ld, w9CmdReturn)
			} else {
				if w.willWait(w.deltaBytes(a.ld, len(a.ld.ret))) {
					r.Probe("delivery_predicted_to_wait_for_memory")
				}
				w.command(a.ld, w9CmdRest|w.drawHold())
			}
		case "block":
			w.command(a.ld, w9CmdBlock|w.drawHold())
		case "report":
			w.report(a.ld)
		case "fail":
			w.command(a.ld, w9CmdFail)
		case "release":
			r.Sched("release", "hook")
			for _, tk := range tickets {
				if tk.ID == a.tk {
					r.Event("hook", "release ticket %d at %s", tk.ID, tk.Name)
					r.Probe("parked_at_" + tk.Name)
					w.passBegins(tk)
				}
			}
			w.pts.Release(a.tk)
		case "get":
			w.launchGet()
		case "invalidate":
			w.launchInvalidate()
		case "cancel":
			w.cancelGet(cancellable[c.Intn(len(cancellable), "cancel_which")])
		case "sleep":
			ds := []time.Duration{time.Millisecond, 20 * time.Millisecond, time.Second, 16 * time.Second}
			if mode == 2 {
				ds = append(ds, 60*time.Second)
			}
			d := ds[c.Intn(len(ds), "sleep")]
			r.Sched("sleep", "clock")
			r.Event("clock", "sleep %v", d)
			w.stepWait(d)
		case "limits":
			w.drawLimits()
		case "squeeze":
			r.Probe("squeeze_while_invalidation_parked")
			w.squeeze()
		case "reset":
			r.Sched("reset", "admin")
			r.Event("reset", "begin")
			if passParked {
				r.Probe("reset_while_invalidation_parked")
			}
			quiet := w.outstanding() == 0 && len(tickets) == 0
			w.ch.reset()
			if quiet {
				verifsim.Wait()
				if ok, empty, what := w.accounting(); !ok || !empty {
					r.Fail("C23", "accounting_after_reset", "reset", "reset() with no request, load or invalidation in progress did not bring the accounting to zero: %s", what)
				} else {
					r.Probe("accounting_zero_after_quiescent_reset")
				}
			}
		case "aged":
			if passParked {
				r.Probe("aged_trim_pulse_while_invalidation_parked")
			}
			w.agedTrim()
		}
	}
	closed = true
	w.windDown(!r.Failed())
}

// freshGet: everything has finished; the cache is emptied (reset), the accounting, the in-flight
// estimate included, must be zero, and under the limits the run last had a new request must return.
func (w *w9World) freshGet() {
	r := w.r
	w.ch.reset()
	verifsim.Wait()
	size, inflight, nreq, _ := w.memState()
	if ok, empty, what := w.accounting(); !ok || !empty || size != 0 || inflight != 0 || nreq != 0 {
		r.Fail("C23", "accounting_after_reset", "emptied", "all requests have returned and reset() has emptied the cache: size %d bytes, in-flight estimate %d bytes in %d requests; %s", size, inflight, nreq, what)
		return
	}
	lim := w.freshLim
	if lim.maxSize == 0 {
		lim = cache2Limits{maxSize: 60 * w.rowB}
	}
	w.stepWait(time.Microsecond)
	w.setLimits(lim, "a new request under")
	w.stepWait(time.Microsecond)
	sc := w.steps[0]
	w.startGet(0, sc, sc.oldBase, 0, 1, 0, false)
	g := w.gets[len(w.gets)-1]
	const budget = 40
	for i := 0; i < budget; i++ {
		w.stepWait(time.Microsecond)
		idle, tks := w.idleLoads(), w.pts.Parked()
		if g.judged && len(idle) == 0 && len(tks) == 0 {
			break
		}
		if len(idle) > 0 {
			if idle[0].delivered == len(idle[0].ret) {
				w.command(idle[0], w9CmdReturn)
			} else {
				w.command(idle[0], w9CmdRest)
			}
		} else if len(tks) > 0 {
			w.pts.Release(tks[0].ID)
		}
	}
	if !g.judged {
		ld := w.loads[g.id]
		st := "its loader was not called"
		if ld != nil {
			st = fmt.Sprintf("its load is in state %d (2: inside updateInflightApprox), %d of %d slots delivered", ld.state, ld.delivered, len(ld.ret))
		}
		size, inflight, nreq, _ := w.memState()
		r.Fail("C23", "liveness", "new-request-after-emptying", "the cache was emptied and nothing else is in flight, limits maxSize=%d rows soft=%d rows: Get #%d has not returned after %d scheduler steps in which its load was delivered and completed; %s; cache size %d bytes, in-flight estimate %d bytes in %d requests", lim.maxSize/w.rowB, lim.maxSizeSoft/w.rowB, g.id, budget, st, size, inflight, nreq)
		return
	}
	r.Probe("new_request_after_emptying_returned")
	w.setLimits(cache2Limits{}, "lifted")
	for i := 0; i < 20; i++ { // the trim goroutine may stand at one of its hook points
		w.stepWait(time.Microsecond)
		tks := w.pts.Parked()
		if len(tks) == 0 {
			break
		}
		w.pts.Release(tks[0].ID)
	}
}

// windDown: lift the limits, stop holding loaders back, let every request return (bounded
// liveness), then empty and shut the cache down and check the accounting.
func (w *w9World) windDown(check bool) {
	r := w.r
	w.setLimits(cache2Limits{}, "lifted")
	w.bbOff = true // a pass parked between buckets is released first (below) and parks no more
	const budget = 400
	steps := 0
	for ; steps < budget; steps++ {
		w.stepWait(time.Microsecond)
		busy := false
		if held := w.heldLoads(); len(held) > 0 {
			w.report(held[0])
			busy = true
		} else if idle := w.idleLoads(); len(idle) > 0 { // one goroutine chain per step, as in the schedule
			if idle[0].delivered == len(idle[0].ret) {
				w.command(idle[0], w9CmdReturn)
			} else {
				w.command(idle[0], w9CmdRest)
			}
			busy = true
		} else if tks := w.pts.Parked(); len(tks) > 0 {
			tk := tks[0]
			if mp := w.midPass(tks); mp != nil {
				tk = mp
			}
			w.bindBefore(tks)
			w.passBegins(tk)
			w.pts.Release(tk.ID)
			busy = true
		}
		pendingLoad := false
		for _, id := range w.loadIDs {
			if !w.loads[id].finished {
				pendingLoad = true
			}
		}
		pendingInv := false
		for _, iv := range w.invs {
			if !iv.seen {
				pendingInv = true
			}
		}
		if !busy && !pendingLoad && !pendingInv && w.outstanding() == 0 {
			break
		}
	}
	if check && !r.Failed() && steps == budget {
		var stuck []string
		for _, g := range w.gets {
			if !g.judged {
				stuck = append(stuck, fmt.Sprintf("#%d(q=%d step=%d)", g.id, g.q, g.step))
			}
		}
		for _, id := range w.loadIDs {
			if ld := w.loads[id]; !ld.finished {
				stuck = append(stuck, fmt.Sprintf("load %d state=%d", ld.id, ld.state))
			}
		}
		for _, iv := range w.invs {
			if !iv.seen {
				stuck = append(stuck, fmt.Sprintf("invalidation %d", iv.id))
			}
		}
		r.Fail("C23", "liveness", "hang", "with limits lifted, one load completed or one hook ticket released per step, after %d scheduler steps these are still waiting: %v", budget, stuck)
	}
	if check && !r.Failed() {
		// let the post-load bookkeeping of the last loads finish
		w.stepWait(time.Microsecond)
		_, inflight, nreq, _ := w.memState()
		if inflight != 0 || nreq != 0 {
			r.Fail("C23", "inflight_accounting", "inflight", "no load is running but the in-flight estimate is %d bytes in %d requests", inflight, nreq)
		}
		if ok, _, what := w.accounting(); !ok {
			r.Fail("C23", "accounting_idle", "idle", "no request, load or invalidation in progress: %s", what)
		}
	}
	if check && !r.Failed() && w.c.Intn(2, "final_reset") == 1 {
		w.ch.reset()
		verifsim.Wait()
		if ok, empty, what := w.accounting(); !ok || !empty {
			r.Fail("C23", "accounting_after_reset", "final", "final reset() of the idle cache did not bring the accounting to zero: %s", what)
		}
	}
	if check && !r.Failed() && w.holdMode {
		w.freshGet()
	}
	// shutdown
	down := false
	go func() {
		w.ch.shutdown().Wait()
		down = true
	}()
	for i := 0; i < 50 && !down; i++ {
		time.Sleep(time.Millisecond)
		verifsim.Wait()
	}
	r.Event("cache", "shutdown done=%v gets=%d loads=%d invalidations=%d", down, len(w.gets), len(w.loadIDs), len(w.invs))
	if !check || r.Failed() {
		return
	}
	if !down {
		r.Fail("C23", "liveness", "shutdown", "shutdown().Wait() did not return")
		return
	}
	// shutdown trims until the accounted bytes are zero; buckets that hold no bytes (their only load
	// failed) may stay, so the statement's "once the cache is emptied" applies to what is left:
	// the accounting must equal the content, the bytes must be zero, and all of it zero if empty
	ok, empty, what := w.accounting()
	info := w.ch.runtimeInfo()
	if !ok || info.size() != 0 {
		r.Fail("C23", "accounting_after_shutdown", "shutdown", "after shutdown().Wait() of the idle cache: %s", what)
		return
	}
	if empty {
		r.Probe("cache_empty_after_shutdown")
	} else {
		r.Probe("zero_byte_buckets_left_after_shutdown")
	}
	if d := w.deferred; d != nil && !r.Failed() {
		r.Fail(d.Property, d.Clause, d.Sig, "%s", d.Detail)
	}
}

func TestVerifW9(t *testing.T) {
	// The global statshouse client (metrics sink of the code under test) runs a goroutine outside the
	// bubble that wakes every second; a goroutine woken by a real timer takes the scheduler's "run
	// next" slot and can swap two simulated goroutines of a burst. Stop it (metrics are discarded).
	if os.Getenv("VERIF_PROP") == "C23" {
		_ = statshouse.Close()
	}
	verifsim.Main(t, &verifsim.World{Name: "w9_series_cache", Props: []string{"C23"}, Exec: w9Exec})
}
