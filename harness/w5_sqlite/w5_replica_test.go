//go:build verif

package sqlite

// Replica-mode episodes of W5 (C17 "commit/replica modes"): the engine is opened with
// Options.Replica and fed through the binlog.Engine callbacks (Apply / Skip / Commit) by a simulated
// binlog, the way a replicating binlog does. Crash images are taken at the engine's commit points.

import (
	"context"
	"fmt"
	"os"
	"path/filepath"
	"strings"
	"time"

	"github.com/VKCOM/statshouse/internal/verifhook"
	"github.com/VKCOM/statshouse/internal/verifsim"
	binlog2 "github.com/VKCOM/statshouse/internal/vkgo/binlog"
	"github.com/VKCOM/statshouse/internal/vkgo/binlog/fsbinlog"
	"github.com/VKCOM/statshouse/internal/vkgo/vktl/gen/tlbarsic"
)

// simulated replicating binlog: Run hands the engine to the harness and blocks until shutdown
type w5FeedBinlog struct {
	eng    binlog2.Engine
	offset int64
	meta   []byte
	ready  chan struct{}
	stop   chan struct{}
}

func (b *w5FeedBinlog) Run(offset int64, snapshotMeta []byte, controlMeta []byte, engine binlog2.Engine) error {
	b.eng, b.offset, b.meta = engine, offset, snapshotMeta
	close(b.ready)
	<-b.stop
	return nil
}
func (b *w5FeedBinlog) Append(onOffset int64, payload []byte) (int64, error) {
	return onOffset, fmt.Errorf("replica: append not allowed")
}
func (b *w5FeedBinlog) AppendASAP(onOffset int64, payload []byte) (int64, error) {
	return onOffset, fmt.Errorf("replica: append not allowed")
}
func (b *w5FeedBinlog) EngineStatus(status binlog2.EngineStatus) {}
func (b *w5FeedBinlog) GetStartCmd() (tlbarsic.Start, bool)      { return tlbarsic.Start{}, false }
func (b *w5FeedBinlog) RequestShutdown() {
	select {
	case <-b.stop:
	default:
		close(b.stop)
	}
}
func (b *w5FeedBinlog) RequestReindex(diff bool, fast bool) {}
func (b *w5FeedBinlog) AddStats(stats map[string]string)    {}

type w5RepEvent struct {
	s        string
	off, end int64
	skip     bool // a service record: delivered through Skip
}

type w5RepImage struct {
	at        string
	files     map[string][]byte
	committed int64 // highest Commit offset delivered before the image
	fed       int64 // offset up to which payloads were handed to Apply/Skip
}

func w5ReplicaRun(r *verifsim.Run, dir string) {
	c := r.C
	every := []time.Duration{time.Second, 100 * time.Millisecond, 5 * time.Second}[c.Intn(3, "commit_every")]
	nEvents := 5 + c.Intn(40, "rep_events")
	r.Config["role"] = "replica"
	r.Extra["replica_episodes"]++
	r.Config["commit_every_ms"] = every.Milliseconds()
	r.Config["events"] = nEvents
	// the stream the simulated master produced
	var stream []w5RepEvent
	off := int64(0)
	for i := 0; i < nEvents; i++ {
		if c.Intn(8, "rep_service") == 7 {
			n := int64(4 * (1 + c.Intn(9, "rep_service_len")))
			stream = append(stream, w5RepEvent{skip: true, off: off, end: off + n})
			off += n
			continue
		}
		s := fmt.Sprintf("r%04d-%s", i, strings.Repeat("y", c.Intn(30, "rep_strlen")))
		n := int64(fsbinlog.AddPadding(8 + len(s)))
		stream = append(stream, w5RepEvent{s: s, off: off, end: off + n})
		off += n
	}
	ndir := 0
	newDir := func() string {
		ndir++
		d := filepath.Join(dir, fmt.Sprintf("rep%d", ndir))
		if err := os.MkdirAll(d, 0755); err != nil {
			panic(err)
		}
		return d
	}
	open := func(dbpath string) (*Engine, *w5FeedBinlog, error) {
		bl := &w5FeedBinlog{ready: make(chan struct{}), stop: make(chan struct{})}
		type res struct {
			e   *Engine
			err error
		}
		ch := make(chan res, 1)
		go func() {
			e, err := OpenEngine(Options{Path: dbpath, APPID: 32, Scheme: w5Schema, Replica: true, DurabilityMode: WaitCommit, CommitEvery: every,
				CacheMaxSizePerConnect: 1}, bl, w5Apply(false), w5Apply(true))
			ch <- res{e, err}
		}()
		verifsim.Wait()
		select {
		case <-bl.ready:
		default:
			return nil, nil, fmt.Errorf("engine did not start its binlog")
		}
		// a replicating binlog reports "ready" once it caught up; the engine's OpenEngine waits for it
		if err := bl.eng.ChangeRole(binlog2.ChangeRoleInfo{IsMaster: false, IsReady: true}); err != nil {
			return nil, nil, err
		}
		verifsim.Wait()
		select {
		case x := <-ch:
			return x.e, bl, x.err
		default:
			return nil, nil, fmt.Errorf("OpenEngine did not return after the binlog reported ready")
		}
	}
	dbdir := newDir()
	eng, bl, err := open(filepath.Join(dbdir, "db"))
	if err != nil {
		r.Fail("C17", "replica_open_failed", "open", "replica engine does not open: %v", err)
		return
	}
	var images []*w5RepImage
	committed, fed := int64(0), int64(0)
	hits := 0
	rate := uint64(1 + c.Intn(4, "rep_image_rate"))
	dbfile := eng.opt.Path
	verifhook.SetOnPoint(func(name string) {
		if !strings.HasPrefix(name, "sqlite.commit") {
			return
		}
		hits++
		if len(images) >= 12 || c.Keyed(rate, uint64(hits), 99) != 0 {
			return
		}
		r.Extra["replica_crash_images"]++
		img := &w5RepImage{at: name, files: map[string][]byte{}, committed: committed, fed: fed}
		for _, suf := range []string{"", "-journal", "-wal", "-wal2", "-shm"} {
			if b, err := os.ReadFile(dbfile + suf); err == nil {
				img.files["db"+suf] = b
			}
		}
		images = append(images, img)
	})
	defer verifhook.SetOnPoint(nil)

	// feed the stream in drawn batches with drawn commit points and time steps
	next := 0
	feed := func() bool {
		// one Apply/Skip call: 1..3 consecutive user events, or one service record
		ev := stream[next]
		if ev.skip {
			got, err := bl.eng.Skip(ev.end - ev.off)
			if err != nil || got != ev.end {
				r.Fail("C17", "replica_skip", "skip", "Skip(%d) at %d returned %d, %v", ev.end-ev.off, ev.off, got, err)
				return false
			}
			next++
			fed = ev.end
			return true
		}
		k := 1 + c.Intn(3, "rep_batch")
		var payload []byte
		end := ev.off
		n := 0
		for next+n < len(stream) && n < k && !stream[next+n].skip {
			payload = w5Event(stream[next+n].s, payload)
			for len(payload)%4 != 0 {
				payload = append(payload, 0)
			}
			end = stream[next+n].end
			n++
		}
		// a file-based binlog hands the engine whatever it has read so far: the payload may end in
		// the middle of the next event; the engine must consume the complete events, report
		// "not enough data" and get that event again (whole) with the next payload
		partial := false
		if next+n < len(stream) && !stream[next+n].skip && c.Intn(4, "rep_partial_tail") == 3 {
			full := w5Event(stream[next+n].s, nil)
			cut := 1 + c.Intn(len(full)-1, "rep_partial_cut")
			payload = append(payload, full[:cut]...)
			partial = true
			r.Probe("replica_payload_ends_mid_event")
		}
		got, err := bl.eng.Apply(payload)
		if partial {
			if got != end || err == nil || !isEOFErr(err) {
				r.Fail("C17", "replica_apply", "apply-partial", "Apply of %d events + a partial one at %d returned offset %d (want %d), err %v (want a not-enough-data class error)", n, ev.off, got, end, err)
				return false
			}
		} else if err != nil || got != end {
			r.Fail("C17", "replica_apply", "apply", "Apply of %d events at %d returned offset %d (want %d), err %v", n, ev.off, got, end, err)
			return false
		}
		next += n
		fed = end
		return true
	}
	for step := 0; step < 6*nEvents && !r.Failed() && (next < len(stream) || committed < fed); step++ {
		var acts []string
		if next < len(stream) {
			acts = append(acts, "feed")
		}
		if committed < fed {
			acts = append(acts, "commit")
		}
		acts = append(acts, "clock", "read", "write")
		switch acts[c.Intn(len(acts), "rep_act")] {
		case "write":
			// a client writes to the replica: refused, and nothing of it may stay behind (a later read,
			// every image and the final state are compared with the applied stream only)
			r.Sched("write", "client")
			stray := fmt.Sprintf("stray-%d", step)
			err := eng.Do(context.Background(), "test", func(conn Conn, cache []byte) ([]byte, error) {
				if _, err := conn.Exec("test", "INSERT INTO test_db(t) VALUES ($t)", BlobString("$t", stray)); err != nil {
					return cache, err
				}
				return w5Event(stray, cache), nil
			})
			r.Event("client", "write on replica -> err=%v", w5Err(err))
			if err == nil {
				r.Fail("C17", "replica_write_accepted", "replica-write", "a write through Do on a replica engine returned nil")
				return
			}
			r.Probe("write_on_replica_refused")
		case "feed":
			r.Sched("feed", "binlog")
			if !feed() {
				return
			}
			r.Event("binlog", "fed up to %d", fed)
		case "commit":
			// commit a drawn event boundary in (committed, fed]
			var cand []int64
			for _, ev := range stream {
				if ev.end > committed && ev.end <= fed {
					cand = append(cand, ev.end)
				}
			}
			to := cand[c.Intn(len(cand), "rep_commit_to")]
			r.Sched("commit", "binlog")
			committed = to
			if err := bl.eng.Commit(to, []byte("meta"), to); err != nil {
				r.Fail("C17", "replica_commit", "commit", "Commit(%d) failed: %v", to, err)
				return
			}
			r.Event("binlog", "commit %d", to)
		case "clock":
			r.Sched("clock", "clock")
			time.Sleep([]time.Duration{50 * time.Millisecond, time.Second, 6 * time.Second}[c.Intn(3, "rep_dt")])
		case "read":
			r.Sched("read", "client")
			var rows []string
			err := eng.Do(context.Background(), "test", func(conn Conn, cache []byte) ([]byte, error) {
				rs := conn.Query("test", "SELECT t FROM test_db ORDER BY id")
				for rs.Next() {
					s, _ := rs.ColumnBlobString(0)
					rows = append(rows, s)
				}
				return cache, rs.Error()
			})
			if err != nil {
				r.Fail("C17", "read_failed", "replica-read", "read on a replica failed: %v", err)
				return
			}
			if !w5RepPrefix(r, stream, rows, fed, "live read", "replica-read") {
				return
			}
		}
		verifsim.Wait()
	}
	if r.Failed() {
		return
	}
	verifhook.SetOnPoint(nil)
	_ = w5CloseEngine(eng)
	// verify images: raw state == prefix at stored offset, never ahead of the committed position;
	// restart + feeding the rest reproduces everything
	for i, img := range images {
		r.Extra["crash_images"]++
		d := newDir()
		for name, data := range img.files {
			if err := os.WriteFile(filepath.Join(d, name), data, 0644); err != nil {
				panic(err)
			}
		}
		raw, err := OpenEngine(Options{Path: filepath.Join(d, "db"), APPID: 32, Scheme: w5Schema, DurabilityMode: NoBinlog}, nil, w5Apply(false), w5Apply(true))
		if err != nil {
			r.Fail("C17", "image_unreadable", "replica", "replica crash image #%d does not open: %v", i, err)
			return
		}
		rows, off, err := w5ReadAll(raw)
		_ = raw.Close(context.Background())
		raw.stop()
		if err != nil {
			r.Fail("C17", "image_unreadable", "replica", "cannot read replica crash image #%d: %v", i, err)
			return
		}
		if !w5RepPrefix(r, stream, rows, off, fmt.Sprintf("replica crash image #%d (%s)", i, img.at), "replica:"+strings.TrimPrefix(img.at, "sqlite.")) {
			return
		}
		if off > img.fed {
			r.Fail("C17", "offset_mismatch", "replica", "replica crash image #%d: stored offset %d beyond what was fed (%d)", i, off, img.fed)
			return
		}
		if off > img.committed {
			r.Probe("replica_db_ahead_of_commit")
			r.Fail("C17", "db_ahead_of_durable_binlog", "replica:"+strings.TrimPrefix(img.at, "sqlite."), "replica crash image #%d (%s): database committed offset %d but the binlog had only committed %d", i, img.at, off, img.committed)
			return
		}
		// restart on the image and feed the rest
		e2, bl2, err := open(filepath.Join(d, "db"))
		if err != nil {
			r.Fail("C17", "recovery_failed", "replica", "replica does not restart on crash image #%d: %v", i, err)
			return
		}
		if bl2.offset != off {
			r.Fail("C17", "offset_mismatch", "replica-restart", "replica restarted on image #%d asks the binlog for offset %d, the image holds %d", i, bl2.offset, off)
			_ = w5CloseEngine(e2)
			return
		}
		for _, ev := range stream {
			if ev.off < off {
				continue
			}
			if ev.skip {
				if _, err := bl2.eng.Skip(ev.end - ev.off); err != nil {
					r.Fail("C17", "replica_skip", "restart", "Skip after restart failed: %v", err)
					break
				}
			} else {
				p := w5Event(ev.s, nil)
				for len(p)%4 != 0 {
					p = append(p, 0)
				}
				if got, err := bl2.eng.Apply(p); err != nil || got != ev.end {
					r.Fail("C17", "replica_apply", "restart", "Apply after restart returned %d (want %d), %v", got, ev.end, err)
					break
				}
			}
		}
		if !r.Failed() {
			_ = bl2.eng.Commit(stream[len(stream)-1].end, []byte("meta"), stream[len(stream)-1].end)
			verifsim.Wait()
			rows2, off2, err := w5ReadAll(e2)
			if err != nil {
				r.Fail("C17", "recovery_failed", "replica", "cannot read restarted replica: %v", err)
			} else {
				w5RepPrefix(r, stream, rows2, off2, "replica after restart and catch-up", "replica-restart")
				if !r.Failed() && off2 != stream[len(stream)-1].end {
					r.Fail("C17", "offset_mismatch", "replica-restart", "after catch-up the offset is %d, stream ends at %d", off2, stream[len(stream)-1].end)
				}
			}
		}
		_ = w5CloseEngine(e2)
		if r.Failed() {
			return
		}
	}
}

// w5RepPrefix: rows must be exactly the user events of the stream below offset `upTo`... precisely:
// rows == events with end <= X for some event boundary X <= upTo, and when rows come with a stored
// offset, X is that offset.
func w5RepPrefix(r *verifsim.Run, stream []w5RepEvent, rows []string, offset int64, what, sig string) bool {
	var want []string
	for _, ev := range stream {
		if ev.end <= offset && !ev.skip {
			want = append(want, ev.s)
		}
	}
	if len(rows) > len(want) {
		r.Fail("C17", "db_not_prefix", sig, "%s: %d rows but only %d events lie below offset %d", what, len(rows), len(want), offset)
		return false
	}
	for i, s := range rows {
		if want[i] != s {
			r.Fail("C17", "db_not_prefix", sig, "%s: row %d is %q, the binlog has %q", what, i, s, want[i])
			return false
		}
	}
	if strings.Contains(what, "image") || strings.Contains(what, "restart") {
		if len(rows) != len(want) {
			r.Fail("C17", "offset_mismatch", sig, "%s: stored offset %d covers %d events but the database holds %d rows", what, offset, len(want), len(rows))
			return false
		}
	}
	return true
}
