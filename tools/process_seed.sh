#!/bin/bash
# usage: tools/process_seed.sh <PROP>   copies /tmp/seedout-<PROP>/change{1,2} into /verif/seeded, confirms each
# in a scratch worktree and runs the property's quick check against it; appends to /dev/shm/seedconfirm/round2.log
cd /verif
p=$1
mkdir -p /dev/shm/seedconfirm
for c in 1 2; do
  src=/tmp/seedout-$p/change$c
  [ -f $src/patch.diff ] || continue
  n=1; while [ -d seeded/$p-s$n ]; do n=$((n+1)); done
  d=seeded/$p-s$n
  mkdir -p $d; cp $src/patch.diff $src/README.txt $d/ 2>/dev/null; cp $src/demo_test.go $d/ 2>/dev/null || cp $src/*_test.go $d/demo_test.go 2>/dev/null
  conf=$(tools/confirm_seed.sh $d $(basename $d) 2>&1 | grep '^SEED')
  out=$(tools/try_mutant.sh $d/patch.diff $p --workers 8 2>&1); rc=$?
  cl=$(echo "$out" | grep -m1 'clause=' | sed 's/^ *//')
  echo "$conf" >> /dev/shm/seedconfirm/round2.log
  echo "CHECK $(basename $d) exit=$rc $cl" >> /dev/shm/seedconfirm/round2.log
  python3 - "$d" "$p" "$conf" "$rc" "$cl" <<'PY'
import json,sys
d,p,conf,rc,cl=sys.argv[1:6]
readme=open(d+'/README.txt').read() if __import__('os').path.exists(d+'/README.txt') else ''
json.dump({"property":p,"source":"independent sub-agent given only the property text and a scratch worktree of /repo",
 "needs_to_manifest":"see README.txt (written by the seeding agent)","readme_first_lines":readme.strip().splitlines()[:6],
 "confirmed_in_scratch_worktree":{"cmd":"tools/confirm_seed.sh %s %s"%(d,d.split('/')[-1]),"result":conf,"meaning":"apply/build/existing_tests 0 = ok; demo_clean 0 = demo passes without the patch; demo_patched 1 = demo fails with it"},
 "check_result_first_try":{"cmd":"tools/try_mutant.sh %s/patch.diff %s --workers 8"%(d,p),"exit":int(rc),"first_line":cl},
 "note":"caught by the quick tier as is" if rc=="1" else "NOT caught by the first quick run"},open(d+'/meta.json','w'),indent=1)
PY
done
