# Tables used by /verif/check: which world decides which property, budgets, evidence texts.

WORLDS = {
    "w6_fsbinlog": {
        "dir": "w6_fsbinlog",
        "pkg": "internal/vkgo/binlog/fsbinlog",
        "test": "TestVerifW6",
        "quick": {"runs": 400, "budget_s": 45, "workers": 4},
        "thorough": {"runs": 400000, "budget_s": 900, "workers": 16},
        "real": ["fsbinlog.fsBinlog (Append/AppendASAP, buffer exchange, writer loop, rotation, commit)",
                 "fsbinlog reader (ReadAll, seek by snapshot meta, crc records, read-and-exit)",
                 "fsbinlog.ScanForFilesFromPos"],
        "stubbed": ["disk: gofs in-memory FS + /verif fault and crash-image hooks (third_party/gofs-sim)",
                    "clock/timers: testing/synctest fake clock", "binlog.Engine: recording engine of the harness",
                    "pgregory.net/rand self-seeding: deterministic source (third_party/pgrand)"],
    },
}

PROPS = {
    "C18": {
        "world": "w6_fsbinlog",
        "level": "exploration",
        "rule": ("each evaluation is one seeded simulated run: 1-4 master lifetimes of fsbinlog on a simulated disk with drawn chunk "
                 "size, memory limit, write delay, append sizes, time steps, and (in 2/3 of runs) one fault per lifetime: crash before "
                 "the k-th write/fsync, torn write, write error, short write, ENOSPC, fsync error, crash at a quiescent instant; each "
                 "crash yields an image under a drawn policy (process kill, synced-only, cut tail at byte, zero-filled tail, new file "
                 "missing) that is replayed and checked. distinct_nontrivial counts distinct schedule signatures (hash of the sequence "
                 "of scheduler actions) among runs in which a fault fired or two actors interleaved."),
        "assumptions": ["the VKCOM/tl generated TL code and Go runtime are trusted",
                        "disk model: a file's content is durable up to its last successful fsync; a file that was fsynced at least once exists after power loss (directory entries are not modelled separately)",
                        "replica (endless) mode is not simulated: it depends on fsnotify on the real file system",
                        "bit flips are injected only into event bodies (a flip in a length field makes the *engine* consume the tail, which the statement does not cover)"],
    },
}
