//go:build verif

package aggregator

// W1, part "handler pause": a scheduling device (not a fault) that opens the window in which a
// handler is still merging rows into a bucket while the ticker or an inserter takes that bucket.
//
// The aggregator's handlers run through in one fake instant, so without help a bucket is never taken
// while a handler is in the middle of it. The hook point "aggregator.handler.between_rows" sits in
// the row loop of handleSendSourceBucket3 where the handler holds only the bucket's sendMu read
// lock. Parking the handler there until the scheduler releases it would freeze the bubble: whoever
// takes the bucket waits on sendMu.Lock(), a mutex wait, which is not a durable block, so the fake
// clock stops and the scheduler never runs again.
//
// What is safe: buckets are taken only in the burst that starts at a second boundary (goTicker takes
// recent buckets there and hands one to an inserter, which pops historic buckets at once, in the
// same instant). So a handler that reaches the hook strictly inside a second may sleep until exactly
// the next boundary: nobody can want the write lock before that instant, and at that instant the
// sleeper's timer fires in the same pass of the timer heap as the ticker's, so the sleeper is
// runnable whenever somebody starts to wait for it. After the sleep the handler yields the processor
// a keyed number of times (runtime.Gosched), which lets ticker and inserter run first when the
// handler was woken first. The handler never waits for the scheduler and always finishes by itself.
//
// Selected requests (historic, undamaged, carrying the marker payload; a keyed half of them in the
// runs that drew handler_pause) are delivered in the second before the boundary at which the
// receiving replica's ticker hands a bucket of its own to an inserter (every third second), so that
// the pause ends where historic buckets are popped.

import (
	"runtime"
	"time"
)

type w1Pause struct {
	target int // pause at the hook after this many rows of the request were merged
	yields int // runtime.Gosched calls after the sleep

	// filled on the handler's goroutine
	agg                        *Aggregator
	hits                       int
	paused                     bool
	skip                       string            // why the handler reached its pause place and did not pause
	bucket                     *aggregatorBucket // the bucket the handler is merging into
	where                      string
	bucketTime, oldest, newest uint32
}

// planPause decides, from the payload's row list, whether and where the handler of this request
// pauses, and how much later the request has to arrive so that the pause ends on the right boundary.
// Two places: right after the marker row was merged (a bucket taken during the pause then holds the
// marker but not the rows behind it) and right before it (the bucket then lacks the marker).
func (w *w1World) planPause(replica int, p *w1Payload, arrive time.Time, amount func(salt uint64, n uint64) uint64) (*w1Pause, time.Duration) {
	if p == nil || !p.hasMarker || p.decodeErr != "" || amount(w1SaltPause, 2) == 0 {
		return nil, 0
	}
	after, before := p.lastWorkload > p.markerIdx, p.markerIdx >= 1
	var target int
	switch mode := amount(w1SaltPauseMode, 2); {
	case after && (mode == 0 || !before):
		target = p.markerIdx + 1
	case before:
		target = p.markerIdx
	default:
		return nil, 0 // the marker is the only row
	}
	// the bucket of second t becomes ready at the boundary t+ShortWindow+1 and is handed to an inserter by
	// the replica with t%3 == replica index
	boundary := arrive.Truncate(time.Second).Add(time.Second).Unix()
	want := int64(replica + 1 + w1ShortWindow(w.reps[replica].agg))
	k := ((want-boundary)%3 + 3) % 3
	return &w1Pause{target: target, yields: int(amount(w1SaltPauseYields, 4))}, time.Duration(k) * time.Second
}

// pauseBegin registers the delivering goroutine as the one whose handler will pause. One paused
// handler per replica at a time: the handler's bucket is identified as the only one whose sendMu is
// read-locked.
func (w *w1World) pauseBegin(p *w1Pause, replica int, agg *Aggregator) bool {
	w.pauseMu.Lock()
	defer w.pauseMu.Unlock()
	if w.pauseBusy[replica] {
		return false
	}
	w.pauseBusy[replica] = true
	p.agg = agg
	if w.pausers == nil {
		w.pausers = map[uint64]*w1Pause{}
	}
	w.pausers[w1Goid()] = p
	w.pauseArmed.Add(1)
	return true
}

func (w *w1World) pauseEnd(replica int) {
	w.pauseMu.Lock()
	defer w.pauseMu.Unlock()
	w.pauseBusy[replica] = false
	delete(w.pausers, w1Goid())
	w.pauseArmed.Add(-1)
}

// onPoint runs on the goroutine that reached a verifhook.Point.
func (w *w1World) onPoint(name string) {
	if w.pauseArmed.Load() == 0 || name != "aggregator.handler.between_rows" {
		return
	}
	w.pauseMu.Lock()
	p := w.pausers[w1Goid()]
	w.pauseMu.Unlock()
	if p == nil {
		return
	}
	p.hits++
	if p.hits != p.target {
		return
	}
	now := time.Now()
	boundary := now.Truncate(time.Second)
	if now.Equal(boundary) {
		p.skip = "on_a_second_boundary"
		return // a bucket may be taken in this very instant: whoever takes it must not find us asleep
	}
	if !p.identify() {
		p.skip = "bucket_not_identified"
		return
	}
	p.paused = true
	time.Sleep(boundary.Add(time.Second).Sub(now))
	for i := 0; i < p.yields; i++ {
		runtime.Gosched()
	}
}

// identify finds the bucket this handler is merging into: the only bucket of the aggregator whose
// sendMu cannot be write-locked right now. This instant lies strictly inside a second, every other
// handler runs through within its own instant, and a second paused handler on this replica is
// excluded, so the read lock that is in the way is ours.
func (p *w1Pause) identify() bool {
	a := p.agg
	a.mu.Lock()
	defer a.mu.Unlock()
	if len(a.recentBuckets) != 0 {
		p.oldest = a.recentBuckets[0].time
		p.newest = a.recentBuckets[len(a.recentBuckets)-1].time
	}
	n := 0
	held := func(b *aggregatorBucket) bool {
		if b.sendMu.TryLock() {
			b.sendMu.Unlock()
			return false
		}
		return true
	}
	for _, b := range a.recentBuckets {
		if held(b) {
			n++
			p.bucket, p.where, p.bucketTime = b, "recent", b.time
		}
	}
	for t, b := range a.historicBuckets {
		if held(b) {
			n++
			p.bucket, p.where, p.bucketTime = b, "historic", t
			if b.time != t {
				p.where = "historic-miskeyed"
			}
		}
	}
	return n == 1
}

// w1BucketTaken (probe only): the bucket is no longer among the aggregator's recent or historic
// buckets, i.e. the ticker or an inserter took it while the handler was in flight.
func w1BucketTaken(a *Aggregator, b *aggregatorBucket) bool {
	a.mu.Lock()
	defer a.mu.Unlock()
	for _, x := range a.recentBuckets {
		if x == b {
			return false
		}
	}
	for _, x := range a.historicBuckets {
		if x == b {
			return false
		}
	}
	return true
}

// w1Goid: id of the calling goroutine, used only as a map key to find the pause schedule of the
// request a handler works on (the hook point carries no argument). Never logged.
func w1Goid() uint64 {
	var buf [48]byte
	n := runtime.Stack(buf[:], false)
	const prefix = "goroutine "
	var id uint64
	for i := len(prefix); i < n && buf[i] >= '0' && buf[i] <= '9'; i++ {
		id = id*10 + uint64(buf[i]-'0')
	}
	if id == 0 {
		panic("w1 harness: cannot read the goroutine id")
	}
	return id
}
