//go:build verif

package pcache

// W8, third kind of run ("append"): an owner that saves INCREMENTALLY over the real ChunkedStorage2,
// the way metajournal.MappingsStorage.Save does it: every save takes what is pending, drops it from
// memory, and appends it behind what the writer stored before (StartWriteChunk, item, FinishItem ...,
// FinishWriteChunk; no ResetToStartOfFile). Several saves per process lifetime, drawn transient
// WriteAt/Truncate errors and short writes, crashes, restarts with file damage.
//
// Two owners behind one interface: a mirror of the call pattern that lives in this package (it can also,
// if drawn, restart from the start of the file and write everything it has in memory: the one legitimate
// way out of a failed write), and the real metajournal.MappingsStorage (UpdateMappingsUntilVersion to
// feed pairs, Save to store them), which the external test package registers (metajournal imports this
// package, so only package pcache_test can import it).
//
// Oracle (item level, independent of the byte history kept by w8Disk): the owner hands items to the
// storage in one order, H. Whatever happened, a reload shows a prefix of H: never a sequence with a
// hole, never another order, never an item twice, never a damaged item. And when the last save that
// handed something to the storage reported success, the reload shows exactly H as it was then: a save
// after a failed write either fails or (after the restart from the start of the file) is complete.

import (
	"encoding/binary"
	"os"

	"github.com/VKCOM/statshouse/internal/data_model"
	"github.com/VKCOM/statshouse/internal/verifsim"
	"github.com/VKCOM/statshouse/internal/vkgo/basictl"
)

// W8Pair and W8Owner are exported for the external test package (zz_verif_w8_ext_test.go).
type W8Pair struct {
	Str   string
	Value int32
}

// W8Owner is a process that keeps new pairs in memory and saves them incrementally.
type W8Owner interface {
	Feed(pairs []W8Pair)           // new pairs arrive (pending until the next save)
	Save() (saved bool, err error) // incremental save of everything pending
}

// W8NewRealOwner makes a real metajournal.MappingsStorage with one shard over st (set by package pcache_test).
var W8NewRealOwner func(st *data_model.ChunkedStorage2) W8Owner

const w8AppMagic = data_model.ChunkedMagicAllMappings

// w8Mirror repeats the call pattern of MappingsStorage.Save on one shard.
type w8Mirror struct {
	st        *data_model.ChunkedStorage2
	pending   []W8Pair
	saveEmpty bool // a save with nothing pending still opens and finishes a chunk (as the package's own test and the journal do)
}

func (o *w8Mirror) Feed(pairs []W8Pair) { o.pending = append(o.pending, pairs...) }

func (o *w8Mirror) write(pairs []W8Pair) error {
	chunk := o.st.StartWriteChunk(w8AppMagic, 0)
	for _, p := range pairs {
		chunk = basictl.StringWriteTL2(chunk, p.Str)
		chunk = basictl.IntWrite(chunk, p.Value)
		var err error
		if chunk, err = o.st.FinishItem(chunk); err != nil {
			return err
		}
	}
	return o.st.FinishWriteChunk(chunk)
}

func (o *w8Mirror) Save() (bool, error) {
	pairs := o.pending
	o.pending = nil // no rollback: the storage denies new saves after an error
	if len(pairs) == 0 && !o.saveEmpty {
		return true, nil
	}
	if err := o.write(pairs); err != nil {
		return false, err
	}
	return true, nil
}

// Rewrite: the owner starts over from the start of the file with everything it has in memory.
func (o *w8Mirror) Rewrite(all []W8Pair) (bool, error) {
	o.pending = nil
	o.st.ResetToStartOfFile()
	if err := o.write(all); err != nil {
		return false, err
	}
	return true, nil
}

type w8App struct {
	r     *verifsim.Run
	c     *verifsim.Choices
	disk  *w8Disk
	kind  int // 0 mirror, 1 mirror that may rewrite and passes empty saves on, 2 real MappingsStorage
	owner W8Owner

	made  map[int]int // id -> payload length of every item ever created
	next  int
	bytes int // sum of the payload lengths

	handed   []int // H: ids in the order they were handed to the storage (after a restart: what the reload showed)
	fedNew   []int // fed since the last save
	exact    int   // >= 0: the file must show exactly handed[:exact]; -1: a prefix of handed
	afterBad bool  // a save of this lifetime failed after touching the storage or while it refused writes
	hist     string
	gens     [][]int // what earlier process lifetimes handed over
}

func w8AppStr(id, n int) string {
	b := make([]byte, 4, 4+n)
	binary.LittleEndian.PutUint32(b, uint32(id))
	return string(append(b, w8Payload(id, n)...))
}

func (w *w8App) call(where string, f func()) {
	defer w.r.Guard(where)
	f()
}

// parse: every item of every chunk is, byte for byte, an item that was created.
func (w *w8App) parse(R []w8Read, what string) (ids []int, ok bool) {
	for ci, rc := range R {
		b := rc.body
		for len(b) != 0 {
			rest, l, err := basictl.TL2ParseSize(b)
			if err != nil || l < 4 || len(rest) < l+4 {
				w.r.Fail(w8Prop, "damaged_item", what, "%s: chunk #%d holds a fragment that is not an item (%d bytes left, err=%v)", what, ci, len(b), err)
				return nil, false
			}
			id := int(binary.LittleEndian.Uint32(rest))
			v := int32(binary.LittleEndian.Uint32(rest[l:]))
			n, made := w.made[id]
			if !made || n != l-4 || v != int32(id+1) || string(rest[4:l]) != string(w8Payload(id, n)) {
				w.r.Fail(w8Prop, "damaged_item", what, "%s: chunk #%d holds an item (id=%d len=%d value=%d) that was never saved in this form", what, ci, id, l-4, v)
				return nil, false
			}
			ids = append(ids, id)
			b = rest[l+4:]
		}
	}
	return ids, true
}

func (w *w8App) newOwner(st *data_model.ChunkedStorage2) {
	if w.kind == 2 && W8NewRealOwner != nil {
		w.call("MakeMappings", func() { w.owner = W8NewRealOwner(st) })
		return
	}
	w.owner = &w8Mirror{st: st, saveEmpty: w.kind == 1}
}

func w8IsPrefix(a, of []int) bool {
	if len(a) > len(of) {
		return false
	}
	for i, x := range a {
		if of[i] != x {
			return false
		}
	}
	return true
}

// reload reads the file with real code and decides it. adopt: a process restart; otherwise a shadow
// check that leaves the running process alone.
func (w *w8App) reload(what string, adopt bool) {
	r, d := w.r, w.disk
	var st *data_model.ChunkedStorage2
	var R []w8Read
	var err error
	w.call("ReadNext", func() { st, R, err = d.readChunks(w8AppMagic) })
	if r.Failed() {
		return
	}
	d.checkChunks(R, err, what)
	if r.Failed() {
		return
	}
	ids, ok := w.parse(R, what)
	if !ok {
		return
	}
	sig := what
	if w.hist != "" {
		sig += ":" + w.hist
	}
	ref := w.handed // the sequence the file was built from
	if w.exact < 0 {
		// while the last word on the file is a failed save, a crash or damage, the file may hold bytes of
		// earlier process lifetimes behind or under a damaged chunk (they stay until a complete save cuts
		// them off), and a bit flip back or a torn write over the damaged bytes can make them readable
		// again: the reload then shows what an earlier lifetime left, which is a prefix of saved chunks too
		for g := len(w.gens) - 1; g >= 0 && !w8IsPrefix(ids, ref); g-- {
			if w8IsPrefix(ids, w.gens[g]) {
				ref = w.gens[g]
				r.Probe("append_reload_shows_older_generation")
			}
		}
	}
	pos := map[int]int{}
	for i, id := range ref {
		pos[id] = i
	}
	for i, id := range ids {
		if i < len(ref) && ref[i] == id {
			continue
		}
		p, in := pos[id]
		switch {
		case in && p > i:
			sig += ":hole"
			r.Fail(w8Prop, "reload_not_prefix_of_saved_sequence", sig, "%s: %d items were handed to the storage in order; the reload shows %d items and its item #%d is the one handed as #%d: the %d items handed before it are missing although it (a later one) is present", what, len(ref), len(ids), i, p, p-i)
		case in:
			sig += ":reordered"
			r.Fail(w8Prop, "reload_not_prefix_of_saved_sequence", sig, "%s: %d items were handed to the storage in order; the reload shows %d items and its item #%d is the one handed as #%d: an item shows twice or out of order", what, len(ref), len(ids), i, p)
		default:
			sig += ":foreign"
			r.Fail(w8Prop, "reload_not_prefix_of_saved_sequence", sig, "%s: the reload shows %d items and its item #%d (id %d) is not in the sequence of %d items this file was built from (an item of an earlier, cut-off generation came back)", what, len(ids), i, id, len(ref))
		}
		return
	}
	if w.exact >= 0 && len(ids) != w.exact {
		r.Fail(w8Prop, "reload_not_exact", sig, "%s: the last save that touched the file reported success when %d items had been handed over, the reload shows only the first %d", what, w.exact, len(ids))
		return
	}
	switch {
	case w.exact >= 0:
		r.Probe("append_reload_exact")
	case len(ids) == len(ref):
		r.Probe("append_reload_lenient_complete")
	default:
		r.Probe("append_reload_lenient_proper_prefix")
	}
	r.Extra["reloads"]++
	if len(R) >= 2 {
		r.Extra["reloads_multi_chunk"]++
	}
	r.Event("disk", "%s: chunks=%d items=%d err=%v file=%d", what, len(R), len(ids), err != nil, len(d.file))
	if adopt {
		d.adopt(R, err)
		st.WriteAt, st.Truncate = d.writeAt, d.truncate
		w.newOwner(st)
		w.gens = append(w.gens, w.handed)
		w.handed, w.fedNew, w.exact, w.afterBad, w.hist = ids, nil, len(ids), false, ""
	}
}

func (w *w8App) feed(actor string) {
	r, c := w.r, w.c
	cnt := 1 + c.Intn(4, "items")
	class := r.Config["itemclass"].(int)
	pairs := make([]W8Pair, 0, cnt)
	for j := 0; j < cnt; j++ {
		var n int
		switch class {
		case 0:
			n = c.Intn(300, "item_len")
		case 1:
			n = []int{0, 200, 5000, 120000, 300000, 500000}[c.Intn(6, "item_len")]
		default:
			n = 100000 + c.Intn(400000, "item_len")
		}
		if w.bytes > 2<<20 {
			n %= 300 // the file never shrinks in this kind of run: keep it (and the run) small
		}
		w.bytes += n
		id := w.next
		w.next++
		w.made[id] = n
		w.fedNew = append(w.fedNew, id)
		pairs = append(pairs, W8Pair{w8AppStr(id, n), int32(id + 1)})
	}
	r.Sched("feed", actor)
	r.Event(actor, "feed %d items, pending=%d", cnt, len(w.fedNew))
	w.call("Feed", func() { w.owner.Feed(pairs) })
}

func (w *w8App) save(actor string, faulty bool) {
	r, c, d := w.r, w.c, w.disk
	rewrite := false
	if w.kind == 1 {
		rewrite = c.Intn(6, "rewrite") == 1
	}
	plan := w8DrawFault(c, faulty)
	r.Sched("save", actor)
	n := len(w.fedNew)
	w.handed = append(w.handed, w.fedNew...)
	w.fedNew = nil
	d.beginSession(plan)
	var saved bool
	var err error
	w.call("Save", func() {
		if rewrite {
			all := make([]W8Pair, 0, len(w.handed))
			for _, id := range w.handed {
				all = append(all, W8Pair{w8AppStr(id, w.made[id]), int32(id + 1)})
			}
			saved, err = w.owner.(*w8Mirror).Rewrite(all)
		} else {
			saved, err = w.owner.Save()
		}
	})
	ok := saved && err == nil
	touched := d.endSession(ok)
	if r.Failed() {
		return
	}
	if saved != (err == nil) {
		r.Fail(w8Prop, "save_result", "save", "Save returned (%v, %v)", saved, err)
		return
	}
	nonEmpty := n > 0 || (rewrite && len(w.handed) > 0)
	switch {
	case !nonEmpty: // nothing was handed to the storage: nothing is promised, nothing changes
	case ok:
		if w.afterBad && !rewrite {
			// never on the unchanged tree: the storage refuses to append after a failed write
			w.hist = "appended-after-failed-save"
			r.Probe("append_save_acked_after_failed_save")
		}
		w.exact = len(w.handed)
		if rewrite {
			w.afterBad, w.hist = false, ""
		}
		r.Extra["saves_ok"]++
	default:
		w.exact = -1
		r.Extra["saves_failed"]++
		if touched || d.fired != "" {
			if d.fired == "truncate_error" && (rewrite || !w.afterBad) {
				// every chunk reached the file and the writer stands behind them (a rewrite began with a
				// reset, which also lifted an earlier refusal): appending may go on
				r.Probe("append_save_failed_in_truncate_only")
				w.afterBad = false
			} else {
				w.afterBad = true
			}
		} else if w.afterBad {
			r.Probe("append_save_refused_after_failed_write")
		}
	}
	r.Event(actor, "save rewrite=%v items=%d fault=%d at=%d -> err=%v fired=%q touched=%v file=%d", rewrite, n, plan.kind, plan.at, err != nil, d.fired, touched, len(d.file))
	if err == nil && d.fired != "" {
		r.Probe("save_ok_despite_" + d.fired)
	}
	if d.dead {
		d.dead = false
		r.Sched("restart", "world")
		w.reload("after-crash", true)
		return
	}
	if touched {
		what := "after-save"
		if !ok {
			what = "after-failed-save"
		}
		w.reload(what, false)
	}
}

func w8AppendRun(r *verifsim.Run) {
	c := r.C
	w := &w8App{r: r, c: c, disk: newW8Disk(r), made: map[int]int{}}
	faulty := c.Intn(3, "faulty") != 0
	w.kind = c.Intn(3, "owner")
	if v := os.Getenv("W8_FORCE_OWNER"); v != "" { // exploration switch (off by default): 0, 1 or 2
		w.kind = int(v[0]-'0') % 3
	}
	class := []int{0, 0, 1, 2}[c.Intn(4, "itemclass")] // small items in half of the runs (cheap), mixed, large
	r.Config["mode"] = "append"
	r.Config["faulty"] = faulty
	r.Config["owner"] = []string{"mirror", "mirror+rewrite", "MappingsStorage"}[w.kind]
	if w.kind == 2 && W8NewRealOwner == nil {
		r.Config["owner"] = "mirror (MappingsStorage not linked)"
	}
	r.Config["itemclass"] = class
	r.Probe("append_owner_" + map[bool]string{true: "real_MappingsStorage", false: "mirror"}[w.kind == 2 && W8NewRealOwner != nil])
	w.reload("first-start", true)
	ops := 6 + c.Intn(34, "ops")
	for op := 0; op < ops && !r.Failed(); op++ {
		actor := []string{"t0", "t1"}[c.Intn(2, "task")]
		switch k := c.Intn(10, "op"); {
		case k <= 3:
			w.feed(actor)
		case k <= 8:
			w.save(actor, faulty)
		default:
			dmg, pos, bit := 0, 0, 0
			if faulty {
				dmg = c.Intn(3, "damage")
				pos = c.Intn(1<<22, "damage_pos")
				bit = c.Intn(8, "damage_bit")
			}
			r.Sched("restart", "world")
			res := w.disk.externalDamage(dmg, pos, bit)
			r.Event("world", "restart dmg=%d pos=%d bit=%d", dmg, pos, bit)
			if res == "truncated" || res == "bitflip" {
				w.exact = -1
			}
			w.reload("restart-"+res, true)
		}
	}
	if !r.Failed() {
		r.Sched("restart", "world")
		w.reload("final", true)
	}
}
