//go:build verif

package metajournal

// W7 source: executable model of the metadata DB's rules (internal/metadata: one table, one
// AUTOINCREMENT id space for all entity types, UNIQUE(type,name), one global version counter
// that every create/edit bumps, namespaces cannot be renamed, metric/group names "ns:x" need
// an existing namespace "ns", deletions are deleted_at timestamps (Event.Unused) — rows never
// disappear). The journal it serves is what DBV2.JournalEvents serves: the current row of
// every entity with version > from, ascending, cut by a count/byte limit.

import (
	"sort"
	"strings"

	"github.com/VKCOM/statshouse/internal/data_model/gen2/tlmetadata"
	"github.com/VKCOM/statshouse/internal/format"
)

type w7Key struct {
	typ int32
	id  int64
}

type w7Metric struct {
	id        int64
	name      string
	spec      format.MetricMetaValue // user-level JSON fields only
	deletedAt uint32
}

type w7Group struct {
	id   int64
	name string
	spec format.MetricsGroup
}

type w7NS struct {
	id   int64
	name string
	spec format.NamespaceMeta
}

type w7Dash struct {
	id        int64
	name      string
	rev       int
	deletedAt uint32
}

type w7Source struct {
	w       *w7World
	version int64
	nextID  int64
	now     uint32
	start   uint32
	cur     map[w7Key]tlmetadata.Event
	hist    map[w7Key][]tlmetadata.Event
	keys    []w7Key // creation order (deterministic iteration)

	metrics []*w7Metric
	groups  []*w7Group
	nss     []*w7NS
	dashes  []*w7Dash
	promRev map[int64]int
	builtin map[w7Key]int

	metricPool []string
	groupPool  []string
	bigEvents  bool
	maxMetrics int
	// names freed by a rename of a metric that still exists (probe: reuse after rename)
	freedByRename  map[string]bool
	allMetricNames map[string]bool
}

var w7MetricNames = []string{"a", "ab", "b_x", "abc", "b_y", "ab_c", "c"}
var w7GroupNames = []string{"a", "ab", "b_", "abc", "c", "b_x"}

func newW7Source(w *w7World) *w7Source {
	c := w.c
	s := &w7Source{w: w, nextID: 1, now: 1_700_000_000, start: 1_700_000_000,
		cur: map[w7Key]tlmetadata.Event{}, hist: map[w7Key][]tlmetadata.Event{},
		promRev: map[int64]int{}, builtin: map[w7Key]int{}, freedByRename: map[string]bool{},
		allMetricNames: map[string]bool{}}
	np := 3 + c.Intn(len(w7MetricNames)-2, "metric_pool")
	s.metricPool = append(s.metricPool, w7MetricNames[:np]...)
	ng := 2 + c.Intn(len(w7GroupNames)-1, "group_pool")
	s.groupPool = append(s.groupPool, w7GroupNames[:ng]...)
	s.maxMetrics = 2 + c.Intn(8, "max_metrics")
	s.bigEvents = c.Intn(5, "big_events") == 4
	if c.Intn(8, "dump_name") == 7 {
		s.metricPool = append(s.metricPool, format.StatshouseJournalDump)
	}
	return s
}

func (s *w7Source) commit(ev tlmetadata.Event) tlmetadata.Event {
	s.version++
	ev.Version = s.version
	ev.UpdateTime = s.now
	key := w7Key{ev.EventType, ev.Id}
	if _, ok := s.cur[key]; !ok {
		s.keys = append(s.keys, key)
	}
	s.cur[key] = ev
	s.hist[key] = append(s.hist[key], ev)
	return ev
}

// journal is DBV2.JournalEvents: current rows with version > from, ascending, limited.
func (s *w7Source) journal(from int64, maxItems int, maxBytes int) []tlmetadata.Event {
	var out []tlmetadata.Event
	for _, k := range s.keys {
		if ev := s.cur[k]; ev.Version > from {
			out = append(out, ev)
		}
	}
	sort.Slice(out, func(i, j int) bool { return out[i].Version < out[j].Version })
	bytes := 0
	for i, ev := range out {
		bytes += len(ev.Data) + 20
		if bytes > maxBytes || i+1 >= maxItems {
			return out[:i+1]
		}
	}
	return out
}

func (s *w7Source) nsID(name string) (int64, bool) {
	nsName, _ := format.SplitNamespace(name)
	if nsName == "" {
		return 0, true
	}
	for _, n := range s.nss {
		if n.name == nsName {
			return n.id, true
		}
	}
	return 0, false
}

func (s *w7Source) metricByName(name string) *w7Metric {
	for _, m := range s.metrics {
		if m.name == name {
			return m
		}
	}
	return nil
}

func (s *w7Source) groupByName(name string) *w7Group {
	for _, g := range s.groups {
		if g.name == name {
			return g
		}
	}
	return nil
}

// candidate names: the pool, plus pool names inside every existing namespace
func (s *w7Source) freeNames(pool []string, taken func(string) bool) []string {
	var out []string
	for _, n := range pool {
		if !taken(n) {
			out = append(out, n)
		}
	}
	for _, ns := range s.nss {
		for i, n := range pool {
			if i >= 2 || strings.Contains(n, "statshouse") {
				break
			}
			full := format.NamespaceName(ns.name, n)
			if !taken(full) {
				out = append(out, full)
			}
		}
	}
	return out
}

func (s *w7Source) saveMetric(m *w7Metric, create bool) tlmetadata.Event {
	v := m.spec
	v.Tags = append([]format.MetricMetaTag(nil), m.spec.Tags...)
	if m.spec.TagsDraft != nil {
		v.TagsDraft = map[string]format.MetricMetaTag{}
		for k, t := range m.spec.TagsDraft {
			v.TagsDraft[k] = t
		}
	}
	v.Name = m.name
	v.MetricID = int32(m.id)
	ns, _ := s.nsID(m.name)
	v.NamespaceID = int32(ns)
	_ = v.RestoreCachedInfo() // the API canonicalises before saving
	ev, err := EventFromMetricMeta(v, "")
	if err != nil {
		panic(err)
	}
	ev.FieldMask = 0
	ev.SetNamespaceId(ns) // JournalEvents always sets the namespace field
	ev.Id = m.id
	ev.Unused = m.deletedAt
	return s.commit(ev)
}

func (s *w7Source) saveGroup(g *w7Group) tlmetadata.Event {
	v := g.spec
	v.Name = g.name
	v.ID = int32(g.id)
	ns, _ := s.nsID(g.name)
	if g.id > 0 {
		v.NamespaceID = int32(ns)
	}
	_ = v.RestoreCachedInfo(g.id < 0)
	ev, err := EventFromGroupMeta(v, "")
	if err != nil {
		panic(err)
	}
	ev.FieldMask = 0
	if g.id > 0 {
		ev.SetNamespaceId(ns)
	} else {
		ev.SetNamespaceId(0)
	}
	ev.Id = g.id
	return s.commit(ev)
}

func (s *w7Source) saveNS(n *w7NS) tlmetadata.Event {
	v := n.spec
	v.Name = n.name
	v.ID = int32(n.id)
	_ = v.RestoreCachedInfo(n.id < 0)
	ev, err := EventFromNamespaceMeta(v, "")
	if err != nil {
		panic(err)
	}
	ev.FieldMask = 0
	ev.SetNamespaceId(0)
	ev.Id = n.id
	return s.commit(ev)
}

func (s *w7Source) saveDash(d *w7Dash) tlmetadata.Event {
	v := format.DashboardMeta{DashboardID: int32(d.id), Name: d.name, DeleteTime: d.deletedAt,
		JSONData: map[string]interface{}{"rev": d.rev, "title": d.name}}
	ev, err := EventFromDashboardMeta(v, "")
	if err != nil {
		panic(err)
	}
	ev.FieldMask = 0
	ev.SetNamespaceId(0)
	return s.commit(ev)
}

var w7TagSets = [][]format.MetricMetaTag{
	nil,
	{{}, {Name: "t1"}},
	{{}, {Name: "t1", Description: "first"}, {Name: "t2", RawKind: "uint"}},
	{{}, {Name: "t1"}, {}, {Name: "t3", ValueComments: map[string]string{"1": "one"}}},
	{{}, {Description: "described only"}},
	{{}, {Name: "t1", Description: "first tag, other words"}},
}

var w7Descriptions = []string{"", "d1", "d2", "keep __whales_off x", "toggle statshouse$ y"}
var w7Weights = []float64{0, 2, 0.5}
var w7Resolutions = []int{0, 5, 15}
var w7Kinds = []string{format.MetricKindCounter, format.MetricKindValuePercentiles, format.MetricKindValue, format.MetricKindMixedPercentiles}

// op performs one legal edit and returns a description for the log.
func (s *w7Source) op() string {
	c := s.w.c
	s.now += uint32(c.Intn(3, "src_dt"))
	k := c.Intn(20, "src_op")
	switch {
	case k <= 2:
		return s.opCreateMetric()
	case k <= 5:
		return s.opEditMetricVisible()
	case k <= 7:
		return s.opEditMetricHidden()
	case k <= 10:
		return s.opRenameMetric()
	case k == 11:
		return s.opToggleMetric()
	case k == 12:
		return s.opCreateGroup()
	case k == 13:
		return s.opRenameGroup()
	case k == 14:
		return s.opToggleGroup()
	case k == 15:
		return s.opEditGroup()
	case k == 16:
		return s.opNamespace()
	case k == 17:
		return s.opDashboard()
	case k == 18:
		return s.opProm()
	default:
		return s.opBuiltin()
	}
}

func (s *w7Source) pickMetric() *w7Metric {
	if len(s.metrics) == 0 {
		return nil
	}
	return s.metrics[s.w.c.Intn(len(s.metrics), "metric")]
}

func (s *w7Source) opCreateMetric() string {
	free := s.freeNames(s.metricPool, func(n string) bool { return s.metricByName(n) != nil })
	if len(s.metrics) >= s.maxMetrics || len(free) == 0 {
		if len(s.metrics) == 0 {
			return "noop"
		}
		return s.opEditMetricVisible()
	}
	name := free[s.w.c.Intn(len(free), "name")]
	m := &w7Metric{id: s.nextID, name: name}
	s.nextID++
	m.spec.Kind = format.MetricKindCounter
	m.spec.Tags = w7TagSets[s.w.c.Intn(len(w7TagSets), "tags")]
	if s.bigEvents && s.w.c.Intn(2, "big_create") == 1 {
		m.spec.Description = s.bigDescription()
	}
	s.metrics = append(s.metrics, m)
	if s.freedByRename[name] {
		s.w.r.Probe("src_name_reused_after_rename")
	}
	s.allMetricNames[name] = true
	ev := s.saveMetric(m, true)
	return "create metric " + w7EvStr(ev)
}

func w7Next[T comparable](c interface{ Intn(int, string) int }, cur T, vals []T, label string) T {
	v := vals[c.Intn(len(vals), label)]
	if v == cur { // an edit changes something: take the next value
		for i, x := range vals {
			if x == cur {
				return vals[(i+1)%len(vals)]
			}
		}
	}
	return v
}

func (s *w7Source) opEditMetricVisible() string {
	m := s.pickMetric()
	if m == nil {
		return s.opCreateMetric()
	}
	c := s.w.c
	what := ""
	switch c.Intn(6, "visible_field") {
	case 0:
		m.spec.Weight = w7Next(c, m.spec.Weight, w7Weights, "weight")
		what = "weight"
	case 1:
		m.spec.Resolution = w7Next(c, m.spec.Resolution, w7Resolutions, "resolution")
		what = "resolution"
	case 2:
		m.spec.Kind = w7Next(c, m.spec.Kind, w7Kinds, "kind")
		what = "kind"
	case 3:
		m.spec.Tags = w7TagSets[c.Intn(len(w7TagSets), "tags")]
		what = "tags"
	case 4:
		if m.spec.ShardStrategy == "" {
			m.spec.ShardStrategy = format.ShardFixed
			m.spec.ShardNum = uint32(c.Intn(3, "shard"))
		} else if c.Intn(2, "shard_clear") == 0 {
			m.spec.ShardStrategy = ""
			m.spec.ShardNum = 0
		} else {
			m.spec.ShardNum = (m.spec.ShardNum + 1) % 3
		}
		what = "shard"
	default:
		if m.spec.TagsDraft == nil {
			m.spec.TagsDraft = map[string]format.MetricMetaTag{"dr": {Name: "dr"}}
		} else {
			m.spec.TagsDraft = nil
		}
		what = "draft"
	}
	ev := s.saveMetric(m, false)
	return "edit metric (" + what + ") " + w7EvStr(ev)
}

func (s *w7Source) opEditMetricHidden() string {
	m := s.pickMetric()
	if m == nil {
		return s.opCreateMetric()
	}
	c := s.w.c
	what := "description"
	n := 2
	if s.bigEvents {
		n = 3
	}
	switch c.Intn(n, "hidden_field") {
	case 0:
		m.spec.Description = w7Next(c, m.spec.Description, w7Descriptions, "description")
	case 1:
		m.spec.StringTopDescription = w7Next(c, m.spec.StringTopDescription, []string{"", "top", "other"}, "stop_descr")
		what = "string_top_description"
	default:
		m.spec.Description = s.bigDescription()
		what = "big description"
	}
	ev := s.saveMetric(m, false)
	return "edit metric (" + what + ") " + w7EvStr(ev)
}

// bigDescription makes an event of 180-330 KB so that saved files span several 512 KB chunks
// (a damaged file then loads partly). Half of them carry a mark that compact journals keep.
func (s *w7Source) bigDescription() string {
	c := s.w.c
	pad := 180_000 + 10_000*c.Intn(16, "big_len")
	prefix := "big "
	if c.Intn(2, "big_kept") == 1 {
		prefix = "big __whales_off "
	}
	s.w.r.Probe("src_big_event")
	return prefix + strings.Repeat("x", pad)
}

func (s *w7Source) opRenameMetric() string {
	m := s.pickMetric()
	if m == nil {
		return s.opCreateMetric()
	}
	free := s.freeNames(s.metricPool, func(n string) bool { return s.metricByName(n) != nil })
	if len(free) == 0 {
		return s.opEditMetricVisible()
	}
	name := free[s.w.c.Intn(len(free), "name")]
	old := m.name
	m.name = name
	if s.freedByRename[name] {
		s.w.r.Probe("src_name_reused_after_rename")
	}
	s.freedByRename[old] = true
	delete(s.freedByRename, name)
	s.allMetricNames[name] = true
	ev := s.saveMetric(m, false)
	return "rename metric " + old + " -> " + w7EvStr(ev)
}

func (s *w7Source) opToggleMetric() string {
	m := s.pickMetric()
	if m == nil {
		return s.opCreateMetric()
	}
	m.spec.Disable = !m.spec.Disable
	m.deletedAt = 0
	if m.spec.Disable {
		m.deletedAt = s.now
	}
	ev := s.saveMetric(m, false)
	return "toggle metric disable " + w7EvStr(ev)
}

func (s *w7Source) opCreateGroup() string {
	free := s.freeNames(s.groupPool, func(n string) bool { return s.groupByName(n) != nil })
	if len(s.groups) >= 5 || len(free) == 0 {
		return s.opEditGroup()
	}
	g := &w7Group{id: s.nextID, name: free[s.w.c.Intn(len(free), "name")]}
	s.nextID++
	g.spec.Weight = 1
	s.groups = append(s.groups, g)
	return "create group " + w7EvStr(s.saveGroup(g))
}

func (s *w7Source) pickGroup() *w7Group {
	if len(s.groups) == 0 {
		return nil
	}
	return s.groups[s.w.c.Intn(len(s.groups), "group")]
}

func (s *w7Source) opRenameGroup() string {
	g := s.pickGroup()
	if g == nil {
		return s.opCreateGroup()
	}
	free := s.freeNames(s.groupPool, func(n string) bool { return s.groupByName(n) != nil })
	if len(free) == 0 {
		return s.opEditGroup()
	}
	old := g.name
	g.name = free[s.w.c.Intn(len(free), "name")]
	return "rename group " + old + " -> " + w7EvStr(s.saveGroup(g))
}

func (s *w7Source) opToggleGroup() string {
	g := s.pickGroup()
	if g == nil {
		return s.opCreateGroup()
	}
	g.spec.Disable = !g.spec.Disable
	return "toggle group disable " + w7EvStr(s.saveGroup(g))
}

func (s *w7Source) opEditGroup() string {
	g := s.pickGroup()
	if g == nil {
		if len(s.groups) == 0 && len(s.groupPool) > 0 {
			g = &w7Group{id: s.nextID, name: s.groupPool[0]}
			s.nextID++
			g.spec.Weight = 1
			s.groups = append(s.groups, g)
			return "create group " + w7EvStr(s.saveGroup(g))
		}
		return "noop"
	}
	if s.w.c.Intn(3, "group_resave") == 2 {
		return "save group unchanged " + w7EvStr(s.saveGroup(g)) // same data, new version and time
	}
	g.spec.Weight = w7Next(s.w.c, g.spec.Weight, []float64{1, 2, 3}, "weight")
	return "edit group " + w7EvStr(s.saveGroup(g))
}

func (s *w7Source) opNamespace() string {
	c := s.w.c
	if len(s.nss) < 2 && (len(s.nss) == 0 || c.Intn(2, "ns_new") == 1) {
		n := &w7NS{id: s.nextID, name: []string{"n1", "n2"}[len(s.nss)]}
		s.nextID++
		n.spec.Weight = 1
		s.nss = append(s.nss, n)
		return "create namespace " + w7EvStr(s.saveNS(n))
	}
	n := s.nss[c.Intn(len(s.nss), "ns")]
	switch c.Intn(3, "ns_field") {
	case 0:
		n.spec.Weight = w7Next(c, n.spec.Weight, []float64{1, 2, 3}, "weight")
	case 1:
		n.spec.Disable = !n.spec.Disable
	default:
		return "save namespace unchanged " + w7EvStr(s.saveNS(n))
	}
	return "edit namespace " + w7EvStr(s.saveNS(n))
}

func (s *w7Source) opDashboard() string {
	c := s.w.c
	if len(s.dashes) < 2 && (len(s.dashes) == 0 || c.Intn(2, "dash_new") == 1) {
		d := &w7Dash{id: s.nextID, name: []string{"d1", "d2"}[len(s.dashes)]}
		s.nextID++
		s.dashes = append(s.dashes, d)
		return "create dashboard " + w7EvStr(s.saveDash(d))
	}
	d := s.dashes[c.Intn(len(s.dashes), "dash")]
	if c.Intn(3, "dash_field") == 2 {
		if d.deletedAt == 0 {
			d.deletedAt = s.now
		} else {
			d.deletedAt = 0
		}
	} else {
		d.rev++
	}
	return "edit dashboard " + w7EvStr(s.saveDash(d))
}

func (s *w7Source) opProm() string {
	ids := []int64{format.PrometheusConfigID, format.PrometheusGeneratedConfigID, format.KnownTagsConfigID}
	names := []string{"prom-config", "prom-static-config", "prom-known-tags"}
	i := s.w.c.Intn(3, "prom")
	s.promRev[ids[i]]++
	ev := tlmetadata.Event{Id: ids[i], Name: names[i], EventType: format.PromConfigEvent,
		Data: names[i] + "-rev-" + w7Itoa(s.promRev[ids[i]])}
	ev.SetNamespaceId(0)
	return "prom config " + w7EvStr(s.commit(ev))
}

func (s *w7Source) opBuiltin() string {
	c := s.w.c
	if c.Intn(2, "builtin_kind") == 0 {
		key := w7Key{format.MetricsGroupEvent, int64(format.BuiltinGroupIDDefault)}
		s.builtin[key]++
		g := &w7Group{id: key.id, name: format.BuiltInGroupDefault[format.BuiltinGroupIDDefault].Name}
		g.spec.Weight = float64(1 + s.builtin[key]%3)
		return "edit builtin group " + w7EvStr(s.saveGroup(g))
	}
	key := w7Key{format.NamespaceEvent, int64(format.BuiltinNamespaceIDDefault)}
	s.builtin[key]++
	n := &w7NS{id: key.id, name: format.BuiltInNamespaceDefault[format.BuiltinNamespaceIDDefault].Name}
	n.spec.Weight = float64(1 + s.builtin[key]%3)
	return "edit builtin namespace " + w7EvStr(s.saveNS(n))
}

func w7Itoa(n int) string {
	if n == 0 {
		return "0"
	}
	neg := n < 0
	if neg {
		n = -n
	}
	var b [20]byte
	i := len(b)
	for n > 0 {
		i--
		b[i] = byte('0' + n%10)
		n /= 10
	}
	if neg {
		i--
		b[i] = '-'
	}
	return string(b[i:])
}

func w7EvStr(ev tlmetadata.Event) string {
	return format.EventTypeToName(ev.EventType) + "#" + w7Itoa(int(ev.Id)) + " '" + ev.Name + "' v" + w7Itoa(int(ev.Version)) + " len=" + w7Itoa(len(ev.Data))
}
