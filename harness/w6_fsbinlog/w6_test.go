//go:build verif

package fsbinlog

// W6: fsbinlog writer/reader on a simulated disk, inside a synctest bubble (property C18).
// Real: fsBinlog (Append/AppendASAP, buffer exchange, writer loop, rotation, reader, seek by
// snapshot meta). Simulated: disk (gofs-sim), clock (bubble), engine (recording).

import (
	"encoding/binary"
	"errors"
	"fmt"
	"strings"
	"testing"
	"time"

	"github.com/myxo/gofs"
	pgrand "pgregory.net/rand"

	"github.com/VKCOM/statshouse/internal/verifsim"
	"github.com/VKCOM/statshouse/internal/vkgo/binlog"
)

const w6Magic = uint32(0x51a7b10c)
const w6Prefix = "/bl"

type w6Event struct {
	id     int
	off    int64 // offset Append was called on (where the event starts)
	end    int64 // off + padded length (NOT the value Append returned: that may include service records)
	next   int64 // value Append returned
	length int   // body length (after 8 byte header)
}

func w6Body(id, n int) []byte {
	b := make([]byte, 8+n)
	binary.LittleEndian.PutUint32(b, w6Magic)
	binary.LittleEndian.PutUint32(b[4:], uint32(n))
	x := uint32(id)*2654435761 + 12345
	// first 4 body bytes carry the id when there is room
	for i := 0; i < n; i++ {
		x = x*1664525 + 1013904223
		b[8+i] = byte(x >> 24)
	}
	if n >= 4 {
		binary.LittleEndian.PutUint32(b[8:], uint32(id))
	}
	return b
}

type w6Applied struct {
	off  int64
	id   int
	n    int
	good bool
}

type w6Commit struct {
	off  int64
	meta []byte
	safe int64
}

// recording engine
type w6Engine struct {
	r        *verifsim.Run
	w        *w6World
	name     string
	offset   int64
	oneByOne bool
	applied  []w6Applied
	commits  []w6Commit
	reverts  []int64
	roles    []binlog.ChangeRoleInfo
	dead     bool // set when the simulated process was killed: callbacks after that are ignored
	onCommit func(off int64)
	// applyDelay > 0 makes every Apply take that much (simulated) time: a slow engine, so that the
	// reader's own commit timer fires in the middle of a replay
	applyDelay time.Duration
}

func (e *w6Engine) isDead() bool { return e.dead }

func (e *w6Engine) Apply(payload []byte) (int64, error) {
	if e.isDead() {
		return e.offset, errors.New("dead")
	}
	if e.applyDelay > 0 {
		time.Sleep(e.applyDelay)
	}
	for {
		if len(payload) < 8 {
			return e.offset, binlog.ErrorNotEnoughData
		}
		m := binary.LittleEndian.Uint32(payload)
		if m != w6Magic {
			return e.offset, binlog.ErrorUnknownMagic
		}
		n := int(binary.LittleEndian.Uint32(payload[4:]))
		if n < 0 || n > 1<<24 {
			return e.offset, fmt.Errorf("w6 engine: absurd length %d", n)
		}
		if len(payload) < 8+n {
			return e.offset, binlog.ErrorNotEnoughData
		}
		id := -1
		if n >= 4 {
			id = int(binary.LittleEndian.Uint32(payload[8:]))
		}
		good := true
		if id >= 0 {
			want := w6Body(id, n)
			good = string(want) == string(payload[:8+n])
		}
		e.applied = append(e.applied, w6Applied{off: e.offset, id: id, n: n, good: good})
		adv := AddPadding(8 + n)
		if adv > len(payload) {
			adv = len(payload)
		}
		e.offset += int64(AddPadding(8 + n))
		payload = payload[adv:]
		if e.oneByOne || len(payload) == 0 {
			return e.offset, nil
		}
		if len(payload) >= 4 && binary.LittleEndian.Uint32(payload) != w6Magic {
			return e.offset, nil
		}
		if len(payload) < 8 || len(payload) < 8+int(binary.LittleEndian.Uint32(payload[4:])) {
			return e.offset, nil
		}
	}
}

func (e *w6Engine) Skip(n int64) (int64, error) {
	e.offset += n
	return e.offset, nil
}

func (e *w6Engine) Commit(off int64, meta []byte, safe int64) error {
	if e.isDead() {
		return nil
	}
	e.commits = append(e.commits, w6Commit{off, append([]byte(nil), meta...), safe})
	if e.onCommit != nil {
		e.onCommit(off)
	}
	return nil
}

func (e *w6Engine) Revert(to int64) (bool, error) {
	if e.isDead() {
		return false, nil
	}
	e.reverts = append(e.reverts, to)
	return false, nil
}

func (e *w6Engine) ChangeRole(info binlog.ChangeRoleInfo) error {
	if e.isDead() {
		return nil
	}
	e.roles = append(e.roles, info)
	return nil
}
func (e *w6Engine) StartReindex(binlog.ReindexOperator) {}
func (e *w6Engine) Split(int64, string) bool            { return false }
func (e *w6Engine) Shutdown()                           {}

func (e *w6Engine) masterReady() bool {
	return len(e.roles) > 0 && e.roles[len(e.roles)-1].IsReadyMaster()
}
func (e *w6Engine) demoted() bool {
	return len(e.roles) > 0 && !e.roles[len(e.roles)-1].IsMaster
}

type w6World struct {
	dirtyImg *gofs.InMemoryFS // crash image of a killed process whose unsynced bytes are still in the page cache
	slowWrite time.Duration // > 0: every write call takes this much simulated time
	optEv *w6Event // event of an Append that never returned (blocked after the writer stopped)
	r   *verifsim.Run
	c   *verifsim.Choices
	fs  *gofs.InMemoryFS
	opt Options

	model      []w6Event // events the current disk lineage is supposed to hold (in order)
	nextID     int
	nextOff    int64 // offset for the next append
	lastCommit int64 // highest commit offset delivered to a live engine in the current lineage
	commitLog  []w6Commit

	// fs fault state (reset per lifetime)
	opCount    int
	crashAtOp  int // -1 none
	crashTear  int // -1: crash before op; >=0: op is a write, keep this many bytes (mod len)
	crashed    bool
	crashSnap  []gofs.SimFile
	failAtOp   int // -1 none: that op returns an error once (no crash)
	failKind   int
	faultFired string
	cur        *w6Engine
	unrepairedPos int64 // >=0: the current disk may end in a torn event after this offset (left unrepaired on purpose)
	cmpLimit   int64 // when >0: checkApplied only compares events that end at or below this offset
}

var errW6IO = errors.New("simulated I/O error")
var errW6Dead = errors.New("simulated process is dead")
var errW6NoSpace = errors.New("no space left on device (simulated)")

func (w *w6World) installHooks(fs *gofs.InMemoryFS) {
	fs.SetSimHooks(&gofs.SimHooks{
		BeforeWrite: func(name string, off int64, b []byte) (int, error) {
			if w.crashed {
				return 0, errW6Dead
			}
			if w.slowWrite > 0 {
				time.Sleep(w.slowWrite) // a slow disk: the writer goroutine is busy inside this write call
			}
			w.opCount++
			if w.opCount == w.crashAtOp {
				keep := 0
				if w.crashTear >= 0 {
					keep = w.crashTear % (len(b) + 1)
				}
				w.crashed = true
				w.cur.dead = true
				if keep == 0 {
					w.crashSnap = fs.SimSnapshotHeld(name)
					w.r.Fault("crash_before_write")
					return 0, errW6Dead
				}
				w.r.Fault("crash_torn_write")
				return keep, errW6Dead // snapshot is taken in AfterWrite
			}
			if w.opCount == w.failAtOp {
				switch w.failKind {
				case 0:
					w.r.Fault("write_error")
					w.faultFired = "write_error"
					return 0, errW6IO
				case 1:
					w.r.Fault("short_write")
					w.faultFired = "short_write"
					return len(b) / 2, errW6IO
				default:
					w.r.Fault("enospc")
					w.faultFired = "enospc"
					return len(b) / 3, errW6NoSpace
				}
			}
			return 0, nil
		},
		AfterWrite: func(name string, off int64, n int) {
			if w.crashed && w.crashSnap == nil {
				w.crashSnap = fs.SimSnapshotHeld(name)
			}
		},
		BeforeSync: func(name string) error {
			if w.crashed {
				return errW6Dead
			}
			w.opCount++
			if w.opCount == w.crashAtOp {
				w.crashed = true
				w.cur.dead = true
				w.crashSnap = fs.SimSnapshotHeld(name)
				w.r.Fault("crash_before_sync")
				return errW6Dead
			}
			if w.opCount == w.failAtOp {
				w.r.Fault("fsync_error")
				w.faultFired = "fsync_error"
				return errW6IO
			}
			return nil
		},
	})
}

// durablePrefix computes, from the FS alone, how many bytes of the global stream would survive
// a power loss right now in the worst case (synced content only).
func (w *w6World) durablePrefix() (int64, error) { return w.durablePrefixOf(w.fs) }

func (w *w6World) durablePrefixOf(fs *gofs.InMemoryFS) (int64, error) {
	hdrs, err := safeScan(fs)
	if err != nil {
		return 0, err
	}
	var total int64
	for i, h := range hdrs {
		sl, ok := fs.SimSyncedLen(h.FileName)
		st, _ := fs.Stat(h.FileName)
		if !ok {
			break
		}
		total = h.Position + sl
		if st != nil && sl < st.Size() && i < len(hdrs)-1 {
			break // an earlier file is not fully durable: later files do not extend the prefix
		}
		if st != nil && sl < st.Size() {
			break
		}
	}
	return total, nil
}

func w6World_(t *testing.T, r *verifsim.Run) {
	verifsim.Bubble(t, func(t *testing.T) { w6Run(t, r) })
}

func w6Run(t *testing.T, r *verifsim.Run) {
	c := r.C
	rngState := verifsim.NewSplitMix(c.Seed ^ 0xabcdef)
	pgrand.SetSimSource(rngState.Next)
	defer pgrand.SetSimSource(nil)

	w := &w6World{r: r, c: c, crashAtOp: -1, failAtOp: -1, crashTear: -1, unrepairedPos: -1}
	chunkChoices := []uint32{4 << 10, 16 << 10, 100 << 10, 1 << 20, 64 << 20}
	maxChunk := chunkChoices[c.Intn(len(chunkChoices), "chunk")]
	hardMem := []int{0, 64 << 10, 8 << 10}[c.Intn(3, "hardmem")]
	delays := []time.Duration{time.Millisecond, 0, 5 * time.Millisecond}
	delay := delays[c.Intn(3, "writedelay")]
	faulty := c.Intn(3, "faulty") != 0 // one third of the runs are fault free
	lifetimes := 1 + c.Intn(4, "lifetimes")
	bigEvents := c.Intn(3, "bigevents")
	r.Config["max_chunk"] = maxChunk
	r.Config["hard_mem"] = hardMem
	r.Config["write_delay_ns"] = int64(delay)
	r.Config["faulty"] = faulty
	r.Config["lifetimes"] = lifetimes

	w.fs = gofs.NewThreadSafeMemoryFs()
	w.fs.TrackDirtyPages()
	w.opt = Options{PrefixPath: w6Prefix, Magic: w6Magic, MaxChunkSize: maxChunk, HardMemLimit: hardMem, Fs: w.fs, WriteCallDelay: &delay}
	if _, err := CreateEmptyFsBinlog(w.opt); err != nil {
		panic(err)
	}
	start := time.Now()
	defer func() { r.SimNanos = int64(time.Since(start)) }()

	// the first lifetime starts from offset 0
	startOff, startMeta := int64(0), []byte(nil)
	for life := 0; life < lifetimes && !r.Failed(); life++ {
		cont := w.lifetime(life, startOff, startMeta, faulty, bigEvents)
		if !cont {
			return // violation recorded, or the lineage ended on an image that is not continued
		}
		// choose where the next engine instance resumes from: 0, or a committed position
		startOff, startMeta = 0, nil
		if len(w.commitLog) > 0 && c.Intn(2, "resume_from_commit") == 1 {
			cm := w.commitLog[c.Intn(len(w.commitLog), "resume_idx")]
			startOff, startMeta = cm.off, cm.meta
			switch c.Intn(4, "resume_meta_kind") {
			case 1:
				startMeta = nil
			case 2:
				// a snapshot may carry the meta of an EARLIER commit than the offset it resumes from
				older := w.commitLog[c.Intn(len(w.commitLog), "resume_older_meta")]
				if older.off <= cm.off {
					startMeta = older.meta
					r.Probe("resume_with_older_meta")
				}
			}
		}
	}
	if !r.Failed() {
		// final full replay of whatever the disk holds (the last lifetime ended cleanly or was
		// adopted from a crash image, so hooks are quiet)
		w.crashed = false
		w.verifyReplay(w.fs, "final", 0, nil, len(w.model), true, false)
	}
}

// lifetime runs one master instance until shutdown/crash/error. Returns false if the run ends.
func (w *w6World) lifetime(life int, startOff int64, startMeta []byte, faulty bool, bigEvents int) bool {
	r, c := w.r, w.c
	w.opCount, w.crashAtOp, w.failAtOp, w.crashTear = 0, -1, -1, -1
	w.crashed, w.crashSnap, w.faultFired = false, nil, ""
	w.installHooks(w.fs)
	eng := &w6Engine{r: r, w: w, name: fmt.Sprintf("eng%d", life), offset: startOff, oneByOne: c.Intn(2, "onebyone") == 1}
	w.cur = eng
	commitsSeen := 0
	eng.onCommit = func(off int64) {
		// (c) commit never exceeds what is durable on the simulated disk
		if !eng.masterReady() {
			return // reader phase commits are "fake" commits by design (replicator fsyncs)
		}
		dp, err := w.durablePrefix()
		if err != nil {
			return
		}
		if off > dp {
			r.Fail("C18", "commit_beyond_fsync", "commit>durable", "Commit(%d) delivered while only %d bytes are durable on disk", off, dp)
		}
	}
	bl, err := NewFsBinlog(&binlog.EmptyLogger{}, w.opt)
	if err != nil {
		panic(err)
	}
	var runErr error
	runDone := false
	go func() {
		runErr = bl.Run(startOff, startMeta, nil, eng)
		runDone = true
	}()
	verifsim.Wait()
	// whatever way this lifetime ends, its goroutines must be gone before the next one starts
	defer func() {
		eng.dead = true
		bl.RequestShutdown()
		for i := 0; i < 100 && !runDone; i++ {
			time.Sleep(10 * time.Millisecond)
			verifsim.Wait()
		}
	}()
	r.Event(eng.name, "start from=%d meta=%d applied=%d masterReady=%v runDone=%v", startOff, len(startMeta), len(eng.applied), eng.masterReady(), runDone)
	// replay on start must deliver exactly the model's suffix from startOff
	w.checkApplied(eng, startOff, len(w.model), "restart", true)
	if r.Failed() {
		bl.RequestShutdown()
		verifsim.Wait()
		return false
	}
	if (runDone || !eng.masterReady()) && w.unrepairedPos >= 0 {
		r.Probe("master_refused_to_start_on_torn_tail")
		bl.RequestShutdown()
		verifsim.Wait()
		eng.dead = true
		w.repairTail(w.fs, w.unrepairedPos)
		w.unrepairedPos = -1
		return w.lifetime(life, startOff, startMeta, faulty, bigEvents)
	}
	if w.unrepairedPos >= 0 {
		r.Probe("master_started_on_unrepaired_tail")
		w.unrepairedPos = -1
	}
	if runDone || !eng.masterReady() {
		r.Fail("C18", "restart_failed", "restart", "instance %d did not become master on an intact binlog: runDone=%v err=%v", life, runDone, runErr)
		bl.RequestShutdown()
		verifsim.Wait()
		return false
	}
	if eng.offset != w.nextOff && !(len(w.model) == 0 && w.nextOff == 0) {
		r.Fail("C18", "restart_offset", "restart", "after replay engine offset %d != writer's next offset %d", eng.offset, w.nextOff)
	}
	if w.nextOff == 0 {
		w.nextOff = eng.offset
	}

	if faulty {
		switch c.Intn(4, "life_fault") {
		case 1:
			w.crashAtOp = 1 + c.Intn(40, "crash_at_op")
			if c.Intn(2, "crash_tear") == 1 {
				w.crashTear = c.Intn(1<<16, "tear_bytes")
			}
		case 2:
			w.failAtOp = 1 + c.Intn(30, "fail_at_op")
			w.failKind = c.Intn(3, "fail_kind")
		}
	}
	ops := 3 + c.Intn(30, "ops")
	type appendReq struct {
		body []byte
		asap bool
	}
	reqCh := make(chan appendReq)
	type appendRes struct {
		next int64
		err  error
	}
	resCh := make(chan appendRes, 1)
	go func() {
		for rq := range reqCh {
			func() {
				defer func() {
					if p := recover(); p != nil {
						resCh <- appendRes{0, fmt.Errorf("PANIC in Append: %v", p)}
					}
				}()
				var n int64
				var e error
				if rq.asap {
					n, e = bl.AppendASAP(w.nextOff, rq.body)
				} else {
					n, e = bl.Append(w.nextOff, rq.body)
				}
				resCh <- appendRes{n, e}
			}()
		}
	}()
	defer close(reqCh)

	ended := false
	for op := 0; op < ops && !r.Failed() && !ended; op++ {
		if runDone || eng.demoted() || w.crashed {
			break
		}
		switch k := c.Intn(10, "op"); {
		case k <= 5: // append
			var n int
			switch bigEvents {
			case 0:
				n = c.Intn(200, "len")
			case 1:
				n = []int{0, 3, 4, 100, 5000, 70000, 200000}[c.Intn(7, "len")]
			default:
				n = c.Intn(3000, "len")
			}
			asap := c.Intn(3, "asap") == 1
			id := w.nextID
			w.nextID++
			body := w6Body(id, n)
			off := w.nextOff
			r.Sched("append", "client")
			reqCh <- appendReq{body, asap}
			verifsim.Wait()
			var res appendRes
			got := false
			for tries := 0; tries < 50 && !got; tries++ {
				select {
				case res = <-resCh:
					got = true
				default:
					// blocked on back pressure: let the writer's delay elapse
					r.Probe("append_blocked_backpressure")
					time.Sleep(time.Millisecond)
					verifsim.Wait()
				}
			}
			if !got {
				if runDone || eng.demoted() || w.crashed {
					r.Probe("append_blocked_after_writer_death")
					ended = true
					break
				}
				r.Fail("C18", "append_hang", "append", "Append blocked for 50 simulated ms with a live writer")
				break
			}
			if res.err != nil && strings.HasPrefix(res.err.Error(), "PANIC") {
				r.Fail("C18", "append_panic", "append-panic", "Append(len=%d) at offset %d panicked: %v", n, off, res.err)
				ended = true
				break
			}
			if res.err != nil {
				r.Event("client", "append id=%d err=%v", id, res.err)
				if !(runDone || eng.demoted() || w.crashed) {
					r.Fail("C18", "append_error", "append", "Append on a live master failed: %v", res.err)
				}
				ended = true
				break
			}
			ev := w6Event{id: id, off: off, end: off + int64(AddPadding(len(body))), next: res.next, length: n}
			if res.next < ev.end {
				r.Fail("C18", "append_offset", "append", "Append returned %d < end of event %d", res.next, ev.end)
			}
			if res.next > ev.end {
				r.Probe("service_record_after_event")
				if res.next-ev.end > levCrcSize {
					r.Probe("rotation")
				}
			}
			w.model = append(w.model, ev)
			w.nextOff = res.next
			r.Event("client", "append id=%d len=%d asap=%v at=%d next=%d", id, n, asap, off, res.next)
		case k <= 8: // let time pass
			d := []time.Duration{time.Millisecond, 10 * time.Millisecond, 100 * time.Millisecond, 600 * time.Millisecond, 2 * time.Second}[c.Intn(5, "sleep")]
			r.Sched("sleep", "clock")
			time.Sleep(d)
			verifsim.Wait()
		default: // observe
			r.Sched("observe", "client")
			verifsim.Wait()
		}
		// after every step: commit monotonicity and bounds
		w.checkCommits(eng, &commitsSeen)
	}
	verifsim.Wait()
	w.checkCommits(eng, &commitsSeen)
	if r.Failed() {
		bl.RequestShutdown()
		verifsim.Wait()
		return false
	}

	// how does this lifetime end?
	switch {
	case w.crashed:
		w.cur.dead = true
		bl.RequestShutdown()
		verifsim.Wait()
		return w.afterCrash(w.crashSnap, "fsop")
	case runDone || eng.demoted():
		// writer gave up after an injected I/O error: it must have told the engine
		verifsim.Wait()
		if w.faultFired == "" {
			r.Fail("C18", "writer_died", "writer", "writer stopped without an injected fault: err=%v", runErr)
			return false
		}
		r.Probe("writer_stopped_after_" + w.faultFired)
		if !eng.demoted() || len(eng.reverts) == 0 {
			r.Fail("C18", "no_demote_on_io_error", w.faultFired, "after %s the engine got roles=%v reverts=%v", w.faultFired, eng.roles, eng.reverts)
			return false
		}
		if rv := eng.reverts[len(eng.reverts)-1]; rv < w.lastCommit {
			r.Fail("C18", "revert_below_commit", w.faultFired, "Revert(%d) below last commit %d", rv, w.lastCommit)
			return false
		}
		bl.RequestShutdown()
		verifsim.Wait()
		w.cur.dead = true
		// disk now: whatever was written. Treat like a process kill.
		return w.afterCrash(w.fs.SimSnapshot(), "ioerror")
	}
	// quiescent end: clean shutdown, or crash at a quiescent instant
	if faulty && c.Intn(3, "quiescent_crash") == 1 {
		w.cur.dead = true
		w.cur.dead = true
		snap := w.fs.SimSnapshot()
		w.crashed = true
		r.Fault("crash_quiescent")
		bl.RequestShutdown()
		verifsim.Wait()
		return w.afterCrash(snap, "quiescent")
	}
	// master handover (process replacement): the successor starts reading while the old master is
	// still appending, reports "not ready" at EOF, waits for the signal that the predecessor is gone,
	// reads the rest and only then becomes master
	var succ BinlogReadWrite
	var succEng *w6Engine
	var succSignal chan struct{}
	var succDone bool
	var succErr error
	if w.faultFired == "" && !w.crashed && c.Intn(3, "handover") == 1 {
		w.crashAtOp, w.failAtOp = -1, -1
		r.Probe("handover_started")
		succEng = &w6Engine{r: r, w: w, name: fmt.Sprintf("eng%d-successor", life), oneByOne: c.Intn(2, "onebyone") == 1}
		var err error
		succ, succSignal, err = NewFsBinlogMasterChange(&binlog.EmptyLogger{}, w.opt)
		if err != nil {
			panic(err)
		}
		go func() {
			succErr = succ.Run(0, nil, nil, succEng)
			succDone = true
		}()
		verifsim.Wait()
		// the old master keeps working for a while
		for k := c.Intn(4, "handover_appends"); k > 0 && !runDone; k-- {
			n := c.Intn(300, "len")
			id := w.nextID
			w.nextID++
			body := w6Body(id, n)
			off := w.nextOff
			reqCh <- appendReq{body, c.Intn(2, "asap") == 1}
			verifsim.Wait()
			var res appendRes
			got := false
			for tries := 0; tries < 50 && !got; tries++ {
				select {
				case res = <-resCh:
					got = true
				default:
					time.Sleep(time.Millisecond)
					verifsim.Wait()
				}
			}
			if !got || res.err != nil {
				r.Fail("C18", "append_error", "handover", "append by the old master during handover failed: got=%v err=%v", got, res.err)
				break
			}
			w.model = append(w.model, w6Event{id: id, off: off, end: off + int64(AddPadding(len(body))), next: res.next, length: n})
			w.nextOff = res.next
			r.Event("client", "append (during handover) id=%d len=%d at=%d next=%d", id, n, off, res.next)
			if c.Intn(2, "handover_sleep") == 1 {
				time.Sleep(600 * time.Millisecond)
				verifsim.Wait()
			}
		}
		if succEng.masterReady() {
			r.Fail("C18", "handover_early_master", "handover", "the successor became a ready master while its predecessor was still running")
		}
	}
	// appendNow issues one Append through the client goroutine and classifies the result
	appendNow := func(tag string, n int, asap bool) (accepted, blocked bool) {
		id := w.nextID
		w.nextID++
		body := w6Body(id, n)
		off := w.nextOff
		r.Sched("append", "client-"+tag)
		reqCh <- appendReq{body, asap}
		verifsim.Wait()
		var res appendRes
		got := false
		step := time.Millisecond
		if w.slowWrite > 0 {
			step = w.slowWrite / 10 // back pressure lasts as long as the slow disk needs
		}
		for tries := 0; tries < 50 && !got; tries++ {
			select {
			case res = <-resCh:
				got = true
			default:
				time.Sleep(step)
				verifsim.Wait()
			}
		}
		switch {
		case !got:
			// Observation, not a C18 clause: an Append that exceeds HardMemLimit waits on the writer's
			// data channel, and a writer that takes the stop signal instead never receives from it, so the
			// call blocks forever. Its event got no offset from the writer: it is in flight, the final
			// flush may or may not have written it (whole if at all), and the lineage ends here.
			r.Probe("append_during_shutdown_blocked_forever")
			r.Event("client", "append (%s) id=%d len=%d at=%d blocked on back pressure", tag, id, n, off)
			w.optEv = &w6Event{id: id, off: off, end: off + int64(AddPadding(len(body))), length: n}
			w.nextOff = 0 // how far the writer got with the in-flight event is unknown: no append bound for commits
			return false, true
		case res.err != nil && strings.HasPrefix(res.err.Error(), "PANIC"):
			r.Fail("C18", "append_panic", "append-panic", "Append(len=%d) at offset %d (%s) panicked: %v", n, off, tag, res.err)
		case res.err != nil:
			r.Probe("append_" + tag + "_refused")
			r.Event("client", "append (%s) id=%d refused: %v", tag, id, errShort(res.err))
		default:
			r.Probe("append_" + tag + "_accepted")
			w.model = append(w.model, w6Event{id: id, off: off, end: off + int64(AddPadding(len(body))), next: res.next, length: n})
			w.nextOff = res.next
			r.Event("client", "append (%s) id=%d len=%d at=%d next=%d", tag, id, n, off, res.next)
			return true, false
		}
		return false, false
	}
	blockedForever := false
	shutdownRequested := false
	fb, _ := bl.(*fsBinlog)
	// (An Append issued right after RequestShutdown without this preparation is not simulated: whether it
	// is accepted depends on which of two ready select cases - pending data signal or stop - the writer's
	// select takes, which is decided by the Go runtime and cannot be replayed.)
	switch mode := c.Intn(2, "append_during_shutdown"); {
	case succ != nil || runDone || fb == nil || w.faultFired != "":
	case mode == 1:
		// The same with the writer caught in the middle of its LAST flush. The disk is slow (every write
		// call takes a simulated second). Event X keeps the writer busy; event A is put into the buffer and
		// its appender is preempted before it signals the writer (the harness takes the signal back out of
		// the channel, and returns it later as the appender would have sent it); shutdown is requested; the
		// writer comes back, finds only the stop request, takes A as its last batch and is busy writing it
		// when one more Append arrives: refused is fine, accepted means appended.
		// First the scenario is aligned with the writer's 500 ms flush timer (a timer that fires while the
		// writer is busy would be ready together with the stop request, and which of two ready cases a select
		// takes is the Go runtime's coin, not the simulator's): a plain append makes the file dirty, the next
		// commit notification then marks the instant the timer fired and was re-armed, and everything below
		// takes a few simulated milliseconds.
		n0 := len(eng.commits)
		okX, bX := appendNow("before_shutdown", c.Intn(300, "len"), false)
		aligned := false
		for i := 0; okX && i < 700 && !aligned && !runDone; i++ {
			time.Sleep(time.Millisecond)
			verifsim.Wait()
			aligned = len(eng.commits) > n0
		}
		okA, bA := false, false
		drained := false
		if aligned && !r.Failed() {
			w.slowWrite = 2 * time.Millisecond
			okX, bX = appendNow("before_shutdown", c.Intn(300, "len"), false)
			if okX && !r.Failed() {
				okA, bA = appendNow("before_shutdown", c.Intn(300, "len"), c.Intn(2, "asap") == 1)
			}
		}
		blockedForever = bX || bA
		if okA {
			select {
			case <-fb.writer.dataCh:
				drained = true
			default:
			}
		}
		r.Sched("shutdown", "client")
		bl.RequestShutdown()
		shutdownRequested = true
		verifsim.Wait()
		if drained && !r.Failed() {
			inLast := false
			for i := 0; i < 100 && !inLast && !runDone; i++ {
				time.Sleep(time.Millisecond)
				verifsim.Wait()
				fb.buffEx.mu.Lock()
				inLast = fb.buffEx.getSizeUnsafe() == 0
				fb.buffEx.mu.Unlock()
			}
			if inLast && !runDone {
				r.Probe("append_lands_in_last_flush")
				_, bB := appendNow("in_last_flush", c.Intn(300, "len"), c.Intn(2, "asap") == 1)
				blockedForever = blockedForever || bB
			}
			select {
			case fb.writer.dataCh <- struct{}{}: // the preempted appender of A resumes
			default:
			}
		}
		w.slowWrite = 0
		for i := 0; i < 100 && !runDone; i++ {
			time.Sleep(100 * time.Millisecond)
			verifsim.Wait()
		}
	}
	if !shutdownRequested {
		r.Sched("shutdown", "client")
		bl.RequestShutdown()
		verifsim.Wait()
	}
	if !runDone {
		time.Sleep(time.Second)
		verifsim.Wait()
	}
	if !runDone {
		r.Fail("C18", "shutdown_hang", "shutdown", "Run did not return after RequestShutdown")
		return false
	}
	if w.crashed { // the armed crash point was reached by the shutdown flush itself
		w.cur.dead = true
		return w.afterCrash(w.crashSnap, "fsop-in-shutdown")
	}
	if w.faultFired != "" {
		r.Probe("io_error_during_shutdown_" + w.faultFired)
		w.cur.dead = true
		return w.afterCrash(w.fs.SimSnapshot(), "ioerror-in-shutdown")
	}
	w.checkCommits(eng, &commitsSeen)
	if blockedForever {
		if _, err := w.verifyReplay(w.fs, "shutdown-with-blocked-append", 0, nil, len(w.model), false, false); err == nil && w.optEv == nil {
			r.Probe("blocked_append_was_written")
		}
		w.optEv = nil
		return false
	}
	// clean shutdown flushes and syncs everything: all appended events are durable
	if dp, err := w.durablePrefix(); err == nil && dp < w.nextOff && runErr == nil {
		r.Fail("C18", "shutdown_not_durable", "shutdown", "after clean shutdown only %d of %d bytes are durable", dp, w.nextOff)
		return false
	}
	r.Event(eng.name, "clean shutdown err=%v commits=%d", runErr, len(eng.commits))
	if succ != nil && !r.Failed() {
		// the predecessor is gone: tell the successor, it must now read everything and take over
		succSignal <- struct{}{}
		verifsim.Wait()
		for i := 0; i < 30 && !succEng.masterReady() && !succDone; i++ {
			time.Sleep(100 * time.Millisecond)
			verifsim.Wait()
		}
		r.Event(succEng.name, "after handover: applied=%d masterReady=%v done=%v err=%v", len(succEng.applied), succEng.masterReady(), succDone, errShort(succErr))
		if succDone || !succEng.masterReady() {
			r.Fail("C18", "handover_failed", "handover", "the successor did not become master after the predecessor's clean exit: done=%v err=%v", succDone, succErr)
		} else {
			w.checkApplied(succEng, 0, len(w.model), "handover", true)
			if !r.Failed() && succEng.offset != w.nextOff {
				r.Fail("C18", "restart_offset", "handover", "successor's offset %d != predecessor's final offset %d", succEng.offset, w.nextOff)
			}
		}
		succEng.dead = true
		succ.RequestShutdown()
		for i := 0; i < 100 && !succDone; i++ {
			time.Sleep(10 * time.Millisecond)
			verifsim.Wait()
		}
		if r.Failed() {
			return false
		}
		r.Probe("handover_completed")
	}
	return true
}

func (w *w6World) checkCommits(eng *w6Engine, seen *int) {
	r := w.r
	for ; *seen < len(eng.commits); *seen++ {
		cm := eng.commits[*seen]
		if *seen > 0 && cm.off < eng.commits[*seen-1].off {
			r.Fail("C18", "commit_not_monotone", "commit", "Commit(%d) after Commit(%d)", cm.off, eng.commits[*seen-1].off)
		}
		if cm.off > w.nextOff && w.nextOff != 0 {
			r.Fail("C18", "commit_beyond_append", "commit", "Commit(%d) beyond appended %d", cm.off, w.nextOff)
		}
		if eng.masterReady() {
			if cm.off > w.lastCommit {
				w.lastCommit = cm.off
			}
			w.commitLog = append(w.commitLog, cm)
			r.Event(eng.name, "commit %d", cm.off)
		}
	}
}

// checkApplied compares what an engine was given with the model suffix from startOff.
// wantCount: number of model events (from the beginning of the model) that must be present.
func (w *w6World) checkApplied(eng *w6Engine, startOff int64, wantCount int, what string, exact bool) {
	r := w.r
	first := 0
	for first < len(w.model) && w.model[first].off < startOff {
		first++
	}
	for i, a := range eng.applied {
		mi := first + i
		if w.cmpLimit > 0 && (mi >= len(w.model) || w.model[mi].end > w.cmpLimit) {
			r.Probe("events_in_damaged_region_not_compared")
			return
		}
		if mi == len(w.model) && w.optEv != nil && a.good && a.off == w.optEv.off && (a.id == w.optEv.id || w.optEv.length < 4) && a.n == w.optEv.length {
			w.model = append(w.model, *w.optEv) // the in-flight append of a blocked client was written
			w.optEv = nil
			continue
		}
		if mi >= len(w.model) {
			r.Fail("C18", "replay_extra_event", what, "%s: engine got event #%d (id=%d off=%d) beyond the %d appended events", what, i, a.id, a.off, len(w.model))
			return
		}
		m := w.model[mi]
		if !a.good || a.n != m.length || (m.length >= 4 && a.id != m.id) {
			r.Fail("C18", "replay_wrong_event", what, "%s: event #%d expected id=%d len=%d, got id=%d len=%d good=%v (partial or damaged event delivered)", what, mi, m.id, m.length, a.id, a.n, a.good)
			return
		}
		if a.off != m.off {
			r.Fail("C18", "replay_wrong_offset", what, "%s: event id=%d delivered at offset %d, writer returned %d", what, m.id, a.off, m.off)
			return
		}
	}
	got := first + len(eng.applied)
	if exact && got != wantCount {
		r.Fail("C18", "replay_missing_events", what, "%s from %d: delivered model events [%d,%d) but expected up to %d", what, startOff, first, got, wantCount)
	}
	if !exact && got < wantCount {
		sig := what
		if strings.Contains(what, "during-rotation") && !strings.Contains(what, "zeroed-header") {
			sig = "crash" // an intact half-made chunk must not lose committed events: ordinary violation
		}
		r.Fail("C18", "replay_lost_committed", sig, "%s from %d: delivered model events [%d,%d) but %d are below the last commit", what, startOff, first, got, wantCount)
	}
}

// verifyReplay opens fs read-and-exit with a fresh engine and checks the replay oracle.
// Returns (engine, run error).
func (w *w6World) verifyReplay(fs *gofs.InMemoryFS, what string, startOff int64, meta []byte, want int, exact bool, mayError bool) (*w6Engine, error) {
	r := w.r
	w.crashAtOp, w.failAtOp = -1, -1 // verification replays run without injected faults
	opt := w.opt
	opt.Fs = fs
	opt.ReadAndExit = true
	eng := &w6Engine{r: r, w: w, name: "replay-" + what, offset: startOff, oneByOne: w.c.Intn(2, "onebyone") == 1}
	nested := strings.HasSuffix(what, "+midcommit")
	if !nested && w.c.Intn(3, "slow_engine") == 1 {
		// a slow engine: the reader's commit timer (500 ms) fires in the middle of the replay and
		// hands the engine commit positions with metas of their own
		eng.oneByOne = true
		eng.applyDelay = time.Duration(150+w.c.Intn(400, "slow_engine_ms")) * time.Millisecond
	}
	eng.onCommit = func(off int64) {
		// a replaying process fsyncs the chunk it reads before it announces a position: what it commits
		// is durable even when the previous process died with written, unsynced bytes
		if fs != w.dirtyImg {
			return // only images that hold written-but-unsynced bytes of a killed process are of interest
		}
		if dp, err := w.durablePrefixOf(fs); err == nil && off > dp && !r.Failed() {
			r.Fail("C18", "commit_beyond_fsync", "reader", "%s: replay delivered Commit(%d) while only %d bytes are durable on disk", what, off, dp)
		}
	}
	bl, err := NewFsBinlog(&binlog.EmptyLogger{}, opt)
	if err != nil {
		panic(err)
	}
	var runErr error
	done := false
	go func() {
		defer func() {
			if p := recover(); p != nil {
				runErr = fmt.Errorf("PANIC during replay: %v", p)
				done = true
			}
		}()
		runErr = bl.Run(startOff, meta, nil, eng)
		done = true
	}()
	verifsim.Wait()
	for i := 0; !done && i < 1+int(eng.applyDelay/time.Millisecond); i++ {
		time.Sleep(2 * time.Second)
		verifsim.Wait()
	}
	if !done {
		r.Fail("C18", "replay_hang", what, "%s: read-and-exit replay did not finish", what)
		bl.RequestShutdown()
		verifsim.Wait()
		return eng, nil
	}
	r.Event("replay", "%s from=%d meta=%d -> applied=%d offset=%d err=%v", what, startOff, len(meta), len(eng.applied), eng.offset, errShort(runErr))
	if runErr != nil && (!mayError || strings.Contains(what, "during-rotation")) {
		r.Fail("C18", "replay_error", what, "%s: replay of an undamaged (at most truncated) binlog failed: %v", what, runErr)
		return eng, runErr
	}
	w.checkApplied(eng, startOff, want, what, exact && runErr == nil)
	if eng.applyDelay > 0 && runErr == nil && !r.Failed() {
		// commits the reader issued in the middle of this replay are committed positions like any
		// other: resuming from one with the meta it came with delivers exactly the rest
		var mid []w6Commit
		for _, cm := range eng.commits {
			if cm.off > startOff && cm.off < eng.offset {
				mid = append(mid, cm)
			}
		}
		if len(mid) > 0 {
			r.Probe("reader_mid_replay_commit")
			cm := mid[w.c.Intn(len(mid), "mid_commit_idx")]
			first := 0
			for first < len(w.model) && w.model[first].off < startOff {
				first++
			}
			r.Event("replay", "%s: reader committed %d mid-replay; resuming from it", what, cm.off)
			w.verifyReplay(fs, what+"+midcommit", cm.off, cm.meta, first+len(eng.applied), true, false)
		}
	}
	return eng, runErr
}

func errShort(e error) string {
	if e == nil {
		return "nil"
	}
	s := e.Error()
	if len(s) > 80 {
		s = s[:80]
	}
	return s
}

// afterCrash builds a crash image from a snapshot under a drawn policy, verifies replay on it,
// repairs a torn tail (truncate, as an operator would) and makes it the current disk.
func (w *w6World) afterCrash(snap []gofs.SimFile, how string) bool {
	r, c := w.r, w.c
	policy := c.Intn(5, "crash_policy") // 0 process kill (page cache survives) 1 synced only 2 cut tail 3 zero-filled tail 4 cut + new file missing
	damaged := false                    // image contains bytes that were never written (zero fill)
	cuts := map[string]int{}
	var files []gofs.SimImageFile
	for _, f := range snap {
		if f.IsDir {
			continue
		}
		content := f.Cur
		switch policy {
		case 0:
		case 1:
			if !f.SyncedValid {
				content = nil
				if len(f.Cur) > 0 {
					continue // file never synced: absent after power loss
				}
			} else {
				content = f.Synced
			}
		case 2, 3, 4:
			base := 0
			if f.SyncedValid {
				base = len(f.Synced)
			} else if policy == 4 {
				continue
			}
			if len(f.Cur) > base {
				cut := base + c.Intn(len(f.Cur)-base+1, "cut")
				if policy == 3 && cut < len(f.Cur) {
					z := append([]byte(nil), f.Cur[:cut]...)
					z = append(z, make([]byte, len(f.Cur)-cut)...)
					content = z
					damaged = true
					cuts[f.Name] = cut
				} else {
					content = f.Cur[:cut]
				}
			}
			if !f.SyncedValid && len(content) == 0 {
				continue
			}
		}
		im := gofs.SimImageFile{Name: f.Name, Perm: 0640, Content: append([]byte(nil), content...)}
		if policy == 0 {
			// the process was killed, the machine kept running: what was written and not synced is still
			// in the page cache and still not durable
			im.HasDurable, im.Durable, im.NeverSynced = true, append([]byte(nil), f.Synced...), !f.SyncedValid
		}
		files = append(files, im)
	}
	r.Extra["crash_images"]++
	img := gofs.NewMemoryFsFromImage(files)
	// shape of the image: was the process killed in the middle of a chunk rotation? (the newest
	// chunk file holds at most its ROTATE_FROM record)
	if len(files) >= 2 {
		last := files[0]
		for _, f := range files {
			if f.Name > last.Name {
				last = f
			}
		}
		if len(last.Content) <= levRotateSize {
			how = "during-rotation"
			r.Probe("crash_image_mid_rotation")
			if _, zeroed := cuts[last.Name]; zeroed {
				// the half-made chunk's ROTATE_FROM is partly zero filled: its position field may
				// read as 0 and shadow the first chunk
				how = "during-rotation-zeroed-header"
			}
		}
	}
	w.dirtyImg = nil
	if policy == 0 && !strings.Contains(how, "during-rotation") {
		w.dirtyImg = img
	}
	defer func() { w.dirtyImg = nil }()
	r.Event("crash", "%s policy=%d files=%d", how, policy, len(files))
	for _, f := range files {
		r.Event("crash", "  image file %s size=%d", f.Name, len(f.Content))
	}
	// how many model events are guaranteed: those that end at or below the last commit
	guaranteed := 0
	for guaranteed < len(w.model) && w.model[guaranteed].end <= w.lastCommit {
		guaranteed++
	}
	if damaged {
		// zero-filled holes are not truncation: only the part before the first hole is compared
		w.cmpLimit = 1
		if hdrs, err := safeScan(img); err == nil {
			lim := int64(-1)
			for _, h := range hdrs {
				if cut, ok := cuts[h.FileName]; ok && (lim < 0 || h.Position+int64(cut) < lim) {
					lim = h.Position + int64(cut)
				}
			}
			if lim > 0 {
				w.cmpLimit = lim
			}
		}
	}
	eng, rerr := w.verifyReplay(img, "crash-"+how, 0, nil, guaranteed, false, damaged)
	w.cmpLimit = 0
	if r.Failed() {
		return false
	}
	if damaged {
		if rerr != nil {
			r.Probe("replay_error_on_zero_filled_tail")
		}
		return false // the lineage is not continued on an image with holes
	}
	if !damaged {
		// a merely truncated image: every event wholly inside the image must be delivered (d)
		total := imageEnd(img)
		wantAll := 0
		for wantAll < len(w.model) && w.model[wantAll].end <= total {
			wantAll++
		}
		if len(eng.applied) < wantAll {
			// only complain when the image is contiguous (no missing middle file)
			r.Fail("C18", "replay_stops_early", "crash-"+how, "truncated image holds %d complete events (%d bytes) but replay delivered %d", wantAll, total, len(eng.applied))
			return false
		}
	}
	// optional bit flip check on the crash image copy (e)
	if c.Intn(3, "bitflip") == 1 && len(eng.applied) > 0 {
		w.bitflipCheck(files, eng)
		if r.Failed() {
			return false
		}
	}
	// resume-from-commit check on the image (b)
	if len(w.commitLog) > 0 && c.Intn(2, "img_resume") == 1 {
		cm := w.commitLog[c.Intn(len(w.commitLog), "img_resume_idx")]
		meta := cm.meta
		if older := w.commitLog[c.Intn(len(w.commitLog), "img_resume_older_meta")]; older.off <= cm.off {
			meta = older.meta
		}
		e2, _ := w.verifyReplay(img, "crash-resume", cm.off, meta, len(eng.applied), false, damaged)
		if r.Failed() {
			return false
		}
		firstIdx := 0
		for firstIdx < len(w.model) && w.model[firstIdx].off < cm.off {
			firstIdx++
		}
		if firstIdx+len(e2.applied) != len(eng.applied) {
			r.Fail("C18", "resume_suffix_mismatch", "crash-resume", "resume from commit %d delivered %d events, full replay delivered %d of which %d lie before the commit", cm.off, len(e2.applied), len(eng.applied), firstIdx)
			return false
		}
	}
	// adopt the image: model keeps only the surviving events; repair torn tail by truncation
	w.model = w.model[:len(eng.applied)]
	w.unrepairedPos = -1
	if c.Intn(3, "leave_torn_tail") == 1 {
		// do not repair: the next master either refuses to start on the torn tail (then the operator
		// truncates and it is retried) or starts, in which case everything it appends must replay
		w.unrepairedPos = eng.offset
	} else {
		w.repairTail(img, eng.offset)
	}
	w.fs = img
	w.opt.Fs = img
	w.nextOff = eng.offset
	if w.lastCommit > eng.offset {
		w.lastCommit = eng.offset
	}
	var keep []w6Commit
	for _, cm := range w.commitLog {
		if cm.off <= eng.offset {
			keep = append(keep, cm)
		}
	}
	w.commitLog = keep
	return true
}

// safeScan is ScanForFilesFromPos with a recover: on a chunk file shorter than 4 bytes the
// repository's header reader indexes out of range (part of the recorded rotation finding).
func safeScan(fs *gofs.InMemoryFS) (hdrs []FileHeader, err error) {
	defer func() {
		if p := recover(); p != nil {
			err = fmt.Errorf("PANIC in ScanForFilesFromPos: %v", p)
		}
	}()
	return ScanForFilesFromPos(fs, 0, w6Prefix, 0, nil)
}

func imageEnd(fs *gofs.InMemoryFS) int64 {
	hdrs, err := safeScan(fs)
	if err != nil || len(hdrs) == 0 {
		return 0
	}
	// contiguous prefix: stop at the first file that does not start where the previous ended
	var end int64
	for i, h := range hdrs {
		st, _ := fs.Stat(h.FileName)
		if i > 0 && h.Position != end {
			break
		}
		end = h.Position + st.Size()
	}
	return end
}

// repairTail truncates the last file so that it ends exactly at the replayed position.
func (w *w6World) repairTail(fs *gofs.InMemoryFS, pos int64) {
	hdrs, err := safeScan(fs)
	if err != nil || len(hdrs) == 0 {
		return
	}
	last := hdrs[len(hdrs)-1]
	st, _ := fs.Stat(last.FileName)
	want := pos - last.Position
	if want >= 0 && st.Size() > want {
		w.r.Probe("torn_tail_repaired")
		_ = fs.Chmod(last.FileName, 0640)
		if err := fs.Truncate(last.FileName, want); err != nil {
			panic(err)
		}
	}
}

// bitflipCheck flips one byte inside the body of a delivered event in a copy of the image.
// If a crc record follows the flipped byte inside the same file, replay must fail.
func (w *w6World) bitflipCheck(files []gofs.SimImageFile, ref *w6Engine) {
	r, c := w.r, w.c
	// choose a victim among delivered events with a body
	var cands []int
	for i, a := range ref.applied {
		if a.n > 4 {
			cands = append(cands, i)
		}
	}
	if len(cands) == 0 {
		return
	}
	vi := cands[c.Intn(len(cands), "flip_event")]
	ev := w.model[vi]
	flipOff := ev.off + 8 + 4 + int64(c.Intn(ev.length-4, "flip_byte"))
	cp := make([]gofs.SimImageFile, len(files))
	for i, f := range files {
		cp[i] = gofs.SimImageFile{Name: f.Name, Perm: f.Perm, Content: append([]byte(nil), f.Content...)}
	}
	img := gofs.NewMemoryFsFromImage(cp)
	hdrs, err := safeScan(img)
	if err != nil {
		return
	}
	// locate file and check whether a crc record lies after flipOff in that file, before the
	// end of what the reference replay consumed
	covered := false
	var fileStart, fileEnd int64
	for _, h := range hdrs {
		st, _ := img.Stat(h.FileName)
		if flipOff < h.Position || flipOff >= h.Position+st.Size() {
			continue
		}
		fileStart, fileEnd = h.Position, h.Position+st.Size()
		data, _ := img.ReadFile(h.FileName)
		// walk service records located between model events of this file
		for mi := vi; mi < len(ref.applied); mi++ {
			gapStart := w.model[mi].end
			var gapEnd int64
			if mi+1 < len(ref.applied) {
				gapEnd = w.model[mi+1].off
			} else {
				gapEnd = ref.offset
			}
			if gapStart >= h.Position+st.Size() {
				break
			}
			p := gapStart
			for p+4 <= gapEnd && p+4 <= h.Position+st.Size() {
				m := binary.LittleEndian.Uint32(data[p-h.Position:])
				if m == magicLevCrc32 {
					covered = true
					p += levCrcSize
				} else if m == magicLevRotateTo || m == magicLevRotateFrom {
					p += levRotateSize
				} else {
					break
				}
			}
			if covered {
				break
			}
		}
		data[flipOff-h.Position] ^= 0x40
		_ = img.Chmod(h.FileName, 0640)
		if err := img.WriteFile(h.FileName, data, 0640); err != nil {
			panic(err)
		}
		break
	}
	r.Fault("bitflip")
	opt := w.opt
	opt.Fs = img
	opt.ReadAndExit = true
	eng := &w6Engine{r: r, w: w, name: "replay-flip", oneByOne: true}
	bl, _ := NewFsBinlog(&binlog.EmptyLogger{}, opt)
	var runErr error
	done := false
	go func() { runErr = bl.Run(0, nil, nil, eng); done = true }()
	verifsim.Wait()
	if !done {
		time.Sleep(2 * time.Second)
		verifsim.Wait()
	}
	r.Event("replay", "bitflip at %d covered=%v -> err=%v applied=%d", flipOff, covered, errShort(runErr), len(eng.applied))
	if covered {
		r.Probe("bitflip_covered_by_crc")
		if runErr == nil {
			r.Fail("C18", "corruption_undetected", "bitflip", "byte at offset %d (event id=%d) flipped, a crc record follows it in the same file, but replay completed without error", flipOff, ev.id)
		} else if !strings.Contains(runErr.Error(), "crc") {
			r.Fail("C18", "corruption_wrong_error", "bitflip", "flipped byte at %d: replay failed with %q, not a checksum error", flipOff, runErr.Error())
		}
	} else {
		r.Probe("bitflip_not_covered")
	}
	if r.Failed() {
		return
	}
	// a snapshot meta is a checksum record too: resuming with the meta of a commit that lies after
	// the flipped byte in the same chunk file re-reads the file's prefix and must notice
	var after []w6Commit
	for _, cm := range w.commitLog {
		if cm.off > ev.end && cm.off > fileStart && cm.off < fileEnd && cm.off <= ref.offset {
			after = append(after, cm)
		}
	}
	if len(after) == 0 {
		return
	}
	cm := after[c.Intn(len(after), "flip_resume_idx")]
	eng2 := &w6Engine{r: r, w: w, name: "replay-flip-resume", offset: cm.off, oneByOne: true}
	bl2, _ := NewFsBinlog(&binlog.EmptyLogger{}, opt)
	var runErr2 error
	done2 := false
	go func() { runErr2 = bl2.Run(cm.off, cm.meta, nil, eng2); done2 = true }()
	verifsim.Wait()
	if !done2 {
		time.Sleep(2 * time.Second)
		verifsim.Wait()
	}
	r.Probe("bitflip_before_resume_meta")
	r.Event("replay", "bitflip at %d, resume from commit %d with its meta -> err=%v applied=%d", flipOff, cm.off, errShort(runErr2), len(eng2.applied))
	if runErr2 == nil {
		r.Fail("C18", "corruption_undetected", "bitflip-resume", "byte at offset %d flipped; resuming from commit %d (same chunk file, with the commit's snapshot meta, whose crc covers the flipped byte) completed without error", flipOff, cm.off)
	} else if !strings.Contains(runErr2.Error(), "crc") {
		r.Fail("C18", "corruption_wrong_error", "bitflip-resume", "flipped byte at %d, resume from %d: replay failed with %q, not a checksum error", flipOff, cm.off, runErr2.Error())
	}
}

func TestVerifW6(t *testing.T) {
	verifsim.Main(t, &verifsim.World{Name: "w6_fsbinlog", Props: []string{"C18"}, Exec: w6World_})
}
