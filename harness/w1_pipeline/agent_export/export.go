//go:build verif

package agent

// Export shim of the /verif harness world w1_pipeline (overlaid into this package only with the
// "verif" build tag; see /verif/harness/w1_pipeline/world.json "extra_overlay"). It contains no
// logic of its own: accessors for unexported fields the simulator must reach from package
// aggregator. All names carry the VerifW1 prefix so they cannot collide with other worlds.

import (
	"runtime"
	"sort"

	"github.com/VKCOM/tl/pkg/rpc"
)

// VerifW1SwapClients replaces the RPC client of every ShardReplica (before Run).
func VerifW1SwapClients(a *Agent, mk func(shardReplicaNum int, old rpc.Client) rpc.Client) {
	for i, sr := range a.ShardReplicas {
		sr.mu.Lock()
		sr.clientField.Client = mk(i, sr.clientField.Client)
		sr.mu.Unlock()
	}
}

// NOTE: no production path calls the agent's cancelSendsFunc, and goEraseHistoric returns on
// <-cancelCtx.Done() with the shard mutex released while its deferred s.mu.Unlock() is pending
// (fatal "unlock of unlocked mutex" if the context were ever cancelled). VerifW1StopEraser uses the
// cancellation only to end that goroutine of an already killed agent at the very end of a run, and
// takes the shard mutex first so that the pending Unlock is balanced.

// VerifW1StopEraser ends the goEraseHistoric goroutines of a killed agent. Precondition: each of
// them sits in its 60 s select (one entry was pushed after the queue had been cleared).
func VerifW1StopEraser(a *Agent) {
	for _, s := range a.Shards {
		s.mu.Lock() // released by the deferred s.mu.Unlock() of goEraseHistoric
	}
	a.cancelSendsFunc()
}

// VerifW1CloseDisk closes the disk cache files of a killed agent.
func VerifW1CloseDisk(a *Agent) {
	if a.diskBucketCache != nil {
		_ = a.diskBucketCache.Close()
	}
}

// VerifW1ClearHistoricQueue empties the in-memory historic queue of a killed agent so that its erase
// goroutine parks for good.
func VerifW1ClearHistoricQueue(a *Agent) {
	for _, s := range a.Shards {
		s.mu.Lock()
		s.historicBucketsToSend = nil
		a.historicBucketsDataSize.Sub(int64(s.historicBucketsDataSize))
		s.historicBucketsDataSize = 0
		s.mu.Unlock()
	}
}

// VerifW1SetAllAlive overrides the liveness view (used only on an already killed agent).
func VerifW1SetAllAlive(a *Agent, v bool) {
	for _, sr := range a.ShardReplicas {
		sr.alive.Store(v)
	}
}

// VerifW1HistoricQueue lists the seconds waiting in memory for the historic conveyor.
func VerifW1HistoricQueue(a *Agent) []uint32 {
	var out []uint32
	for _, s := range a.Shards {
		s.mu.Lock()
		for _, cbd := range s.historicBucketsToSend {
			out = append(out, cbd.time)
		}
		s.mu.Unlock()
	}
	sort.Slice(out, func(i, j int) bool { return out[i] < out[j] })
	return out
}

// VerifW1ReplicaAlive reports the agent's liveness view of its shard replicas.
func VerifW1ReplicaAlive(a *Agent) []bool {
	out := make([]bool, len(a.ShardReplicas))
	for i, sr := range a.ShardReplicas {
		out[i] = sr.alive.Load()
	}
	return out
}

// VerifW1WakeHistoricSenders makes every parked historic sender of a killed agent call its (fenced)
// client once more, where the simulator terminates it (see VerifW1ExitHistoricSender). The entries
// are never sent anywhere: the agent's send context is already cancelled.
func VerifW1WakeHistoricSenders(a *Agent, nowUnix uint32, n int) {
	for _, s := range a.Shards {
		s.mu.Lock()
		for i := 0; i < n; i++ {
			s.historicBucketsToSend = append(s.historicBucketsToSend, compressedBucketData{time: nowUnix - 1, data: []byte{0, 0, 0, 0, 0}})
			s.historicBucketsDataSize += 5
			a.historicBucketsDataSize.Add(5)
		}
		s.mu.Unlock()
		s.cond.Broadcast()
	}
}

// VerifW1ExitHistoricSender terminates the calling goSendHistoric goroutine of a killed agent:
// that goroutine runs sendHistoric with the shard mutex released and has `defer s.mu.Unlock()`
// pending, so the mutex is taken first. Never returns.
func VerifW1ExitHistoricSender(a *Agent, shardNum int) {
	a.Shards[shardNum].mu.Lock()
	runtime.Goexit()
}

// VerifW1SaveImmediately reads the effective SaveSecondsImmediately knob.
func VerifW1SaveImmediately(a *Agent) bool {
	s := a.Shards[0]
	s.mu.Lock()
	defer s.mu.Unlock()
	return s.config.SaveSecondsImmediately
}

// VerifW1Clock reads the agent's own clock: the second it currently receives into and the oldest
// second it has not yet handed to the preprocessor (events stamped older than that join that second).
func VerifW1Clock(a *Agent) (currentTime uint32, sendTime uint32) {
	if len(a.Shards) != 1 {
		panic("w1 harness: the world is built for agents with exactly one shard")
	}
	s := a.Shards[0]
	s.mu.Lock()
	defer s.mu.Unlock()
	return s.CurrentTime, s.SendTime
}
