#!/bin/bash
# usage: tools/confirm_seed.sh <dir with patch.diff + demo_test.go> <name>
# Confirms in a scratch worktree of /repo: demo passes without the patch; with the patch the tree
# builds, the existing tests of the touched package pass, and the demo fails. Prints one summary line.
set -u
D=$(readlink -f "$1"); NAME=$2
WT=/tmp/confirm-$NAME-$$
export GOFLAGS=-mod=mod GOPROXY=off
git -C /repo worktree add -q --detach $WT HEAD || exit 3
for d in internal/sqlite/sqlite0 internal/vkgo/sqlitev2/sqlite0; do
  cp /verif/third_party/sqlite/sqlite3.c /verif/third_party/sqlite/sqlite3.h $WT/$d/ 2>/dev/null
done
PATCHPKG=$(grep -m1 '^+++ b/' $D/patch.diff | sed 's#^+++ b/##; s#/[^/]*$##')
PKG=${DEMO_PKG:-$PATCHPKG}
TESTS=$(grep -ho '^func Test[A-Za-z0-9_]*' $D/demo_test.go | sed 's/func //' | paste -sd'|')
cd $WT
cp $D/demo_test.go $PKG/zz_seed_demo_test.go
go test ${SEED_TAGS:+-tags $SEED_TAGS} -count=1 -run "^($TESTS)\$" ./$PKG > /tmp/confirm-$NAME-clean.log 2>&1; CLEAN=$?
git apply $D/patch.diff; APPLY=$?
go build ./... > /tmp/confirm-$NAME-build.log 2>&1; BUILD=$?
go test ${SEED_TAGS:+-tags $SEED_TAGS} -count=1 -run "^($TESTS)\$" ./$PKG > /tmp/confirm-$NAME-patched.log 2>&1; PATCHED=$?
rm $PKG/zz_seed_demo_test.go
go test -count=1 ./$PATCHPKG/... > /tmp/confirm-$NAME-suite.log 2>&1; SUITE=$?
cd /
git -C /repo worktree remove --force $WT
echo "SEED $NAME pkg=$PKG apply=$APPLY build=$BUILD existing_tests=$SUITE demo_clean=$CLEAN demo_patched=$PATCHED"
