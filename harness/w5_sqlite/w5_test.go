//go:build verif

package sqlite

// W5: binlog-backed SQLite engine vs its binlog across process kills (property C17).
// Real: sqlite.Engine (Do/View, wait-commit queue, periodic commit, binlog apply on restart),
// SQLite C library, fsbinlog. Simulated: binlog disk (gofs-sim), clock (bubble), commit
// notification timing, crash = image of (SQLite files, binlog files) taken synchronously at
// verifhook points and at binlog write/fsync entry.

import (
	"context"
	"encoding/binary"
	"fmt"
	"os"
	"path/filepath"
	"sort"
	"strings"
	"testing"
	"time"

	"github.com/VKCOM/statshouse-go"
	"github.com/myxo/gofs"
	pgrand "pgregory.net/rand"

	"github.com/VKCOM/statshouse/internal/verifhook"
	"github.com/VKCOM/statshouse/internal/verifsim"
	"github.com/VKCOM/statshouse/internal/vkgo/basictl"
	binlog2 "github.com/VKCOM/statshouse/internal/vkgo/binlog"
	"github.com/VKCOM/statshouse/internal/vkgo/binlog/fsbinlog"
)

const w5Schema = "CREATE TABLE IF NOT EXISTS test_db (id INTEGER PRIMARY KEY AUTOINCREMENT, t TEXT UNIQUE);"
const w5Magic uint32 = 0xf00

var w5RunCounter int

func w5Event(s string, cache []byte) []byte {
	cache = append(cache, 0, 0, 0, 0, 0, 0, 0, 0)
	binary.LittleEndian.PutUint32(cache[len(cache)-8:], w5Magic)
	binary.LittleEndian.PutUint32(cache[len(cache)-4:], uint32(len(s)))
	return append(cache, s...)
}

// apply function given to the engine (replay / scan)
func w5Apply(scanOnly bool) ApplyEventFunction {
	return func(conn Conn, offset int64, bytes []byte) (int, error) {
		read := 0
		for len(bytes) > 0 {
			if len(bytes) < 4 {
				return fsbinlog.AddPadding(read), binlog2.ErrorNotEnoughData
			}
			mark, _, err := basictl.NatReadTag(bytes)
			if err != nil {
				return fsbinlog.AddPadding(read), err
			}
			if mark != w5Magic {
				return fsbinlog.AddPadding(read), binlog2.ErrorUnknownMagic
			}
			if len(bytes) < 8 {
				return fsbinlog.AddPadding(read), binlog2.ErrorNotEnoughData
			}
			n := binary.LittleEndian.Uint32(bytes[4:8])
			if len(bytes) < int(n)+8 {
				return fsbinlog.AddPadding(read), binlog2.ErrorNotEnoughData
			}
			str := bytes[8:][:n]
			if !scanOnly {
				if _, err = conn.Exec("test", "INSERT INTO test_db(t) VALUES ($t)", BlobString("$t", string(str))); err != nil {
					return fsbinlog.AddPadding(read), err
				}
			}
			adv := fsbinlog.AddPadding(8 + int(n))
			read += adv
			if adv > len(bytes) {
				adv = len(bytes)
			}
			bytes = bytes[adv:]
		}
		return fsbinlog.AddPadding(read), nil
	}
}

type w5GateBinlog struct {
	fsbinlog.BinlogReadWrite
	w *w5World
}

func (b *w5GateBinlog) Run(off int64, meta, cmeta []byte, e binlog2.Engine) error {
	return b.BinlogReadWrite.Run(off, meta, cmeta, &w5GateEngine{Engine: e, w: b.w})
}

type w5GateEngine struct {
	binlog2.Engine
	w *w5World
}

func (g *w5GateEngine) Commit(off int64, meta []byte, safe int64) error {
	return g.Engine.Commit(off, meta, safe)
}

type w5Op struct {
	kind     string // insert, insert_fail, read_do, view
	viaQuery bool   // inserts: the INSERT is issued through Conn.Query (RETURNING) instead of Conn.Exec
	s        string
	done     bool
	err      error
	off      int64 // dbOffset returned
	// read_do: binlog offset of the state the read saw, and the committed binlog offset when Do returned
	seenDBOff, commitAtReturn int64
	rows                      []string
	call                      uint64
	panic                     string
}

type w5Client struct {
	id   int
	ch   chan *w5Op
	cur  *w5Op
	busy bool
}

type w5Image struct {
	at        string
	hit       int
	files     map[string][]byte // sqlite files by base name
	bl        []gofs.SimFile
	execLen   int      // len(execOrder) when the image was taken
	acked     []string // strings acknowledged in wait-commit mode before the image
	failedSet []string
}

type w5World struct {
	r *verifsim.Run
	c *verifsim.Choices

	dir              string
	ndir             int
	memfs            *gofs.InMemoryFS
	eng              *Engine
	mode             DurabilityMode
	every            time.Duration
	gate             bool
	parked           []chan struct{}
	parkedDisk       []w5Parked
	takeImage        func(at string)
	insertsSinceIdle int
	armedCancel      context.CancelFunc // cancels the context of the write that is about to reach sqlite.do.after_fn
	mustDrain        bool

	clients []*w5Client
	nextStr int

	execOrder []string         // strings whose callback succeeded, in lock order == binlog order
	endOff    map[string]int64 // known end offset of an event (from DoWithOffset)
	acked     []string         // wait-commit acknowledged
	failed    map[string]bool  // callback returned an error after executing SQL

	images    []*w5Image
	hits      int
	imageRate uint64
	maxImages int
	ioFault   string // armed binlog disk fault: "", write_error, fsync_error
	ioAtOp    int
	ioOps     int
	ioFired   bool
}

func w5Exec(t *testing.T, r *verifsim.Run) {
	verifsim.Bubble(t, func(t *testing.T) { w5Run(t, r) })
}

func (w *w5World) blOptions(fs *gofs.InMemoryFS) fsbinlog.Options {
	zero := time.Duration(0)
	return fsbinlog.Options{PrefixPath: "/sb", Magic: 3456, Fs: fs, WriteCallDelay: &zero}
}

func (w *w5World) openEngine(dbpath string, fs *gofs.InMemoryFS, gated bool) (*Engine, error) {
	bl, err := fsbinlog.NewFsBinlog(&binlog2.EmptyLogger{}, w.blOptions(fs))
	if err != nil {
		return nil, err
	}
	var b fsbinlog.BinlogReadWrite = bl
	if gated {
		b = &w5GateBinlog{BinlogReadWrite: bl, w: w}
	}
	return OpenEngine(Options{Path: dbpath, APPID: 32, Scheme: w5Schema, DurabilityMode: w.mode, CommitEvery: w.every,
		CacheMaxSizePerConnect: 1}, b, w5Apply(false), w5Apply(true))
}

func w5CloseEngine(e *Engine) error {
	err := e.Close(context.Background())
	e.stop() // Close leaves txLoop running
	time.Sleep(e.opt.CommitEvery + 100*time.Millisecond)
	verifsim.Wait()
	return err
}

func (w *w5World) newDir() string {
	w.ndir++
	d := filepath.Join(w.dir, fmt.Sprintf("d%d", w.ndir))
	if err := os.MkdirAll(d, 0755); err != nil {
		panic(err)
	}
	return d
}

func w5Run(t *testing.T, r *verifsim.Run) {
	c := r.C
	rng := verifsim.NewSplitMix(c.Seed ^ 0x55)
	pgrand.SetSimSource(rng.Next)
	defer pgrand.SetSimSource(nil)
	w5RunCounter++
	base := os.Getenv("VERIF_TMP")
	if base == "" {
		base = "/dev/shm"
	}
	w := &w5World{r: r, c: c, endOff: map[string]int64{}, failed: map[string]bool{}}
	w.dir = filepath.Join(base, fmt.Sprintf("w5-%d-%d", os.Getpid(), w5RunCounter))
	_ = os.RemoveAll(w.dir)
	defer os.RemoveAll(w.dir)
	start := time.Now()
	defer func() { r.SimNanos = int64(time.Since(start)) }()

	if c.Intn(4, "engine_role") == 3 {
		if err := os.MkdirAll(w.dir, 0755); err != nil {
			panic(err)
		}
		w5ReplicaRun(r, w.dir)
		return
	}
	w.mode = []DurabilityMode{WaitCommit, NoWaitCommit}[c.Intn(2, "mode")]
	w.every = []time.Duration{time.Second, 100 * time.Millisecond, 5 * time.Second}[c.Intn(3, "commit_every")]
	nClients := 1 + c.Intn(3, "clients")
	gated := c.Intn(3, "gated") != 0
	nOps := 6 + c.Intn(30, "ops")
	w.imageRate = uint64([]int{4, 2, 8, 1}[c.Intn(4, "image_rate")])
	w.maxImages = 4 + c.Intn(8, "max_images")
	if r.Tier == "thorough" {
		w.maxImages *= 3
	}
	faulty := c.Intn(3, "faulty") != 0
	phases := 1 + c.Intn(2, "phases")
	r.Config["mode"], r.Config["commit_every_ms"], r.Config["clients"], r.Config["gated"], r.Config["ops"] = int(w.mode), w.every.Milliseconds(), nClients, gated, nOps
	r.Config["faulty"], r.Config["phases"], r.Config["max_images"] = faulty, phases, w.maxImages

	w.memfs = gofs.NewThreadSafeMemoryFs()
	w.memfs.TrackDirtyPages()
	if _, err := fsbinlog.CreateEmptyFsBinlog(w.blOptions(w.memfs)); err != nil {
		panic(err)
	}
	dbdir := w.newDir()
	eng, err := w.openEngine(filepath.Join(dbdir, "db"), w.memfs, true)
	if err != nil {
		panic(err)
	}
	w.eng = eng
	for i := 0; i < nClients; i++ {
		cl := &w5Client{id: i, ch: make(chan *w5Op)}
		w.clients = append(w.clients, cl)
		go w.clientLoop(cl)
	}
	defer func() {
		for _, cl := range w.clients {
			close(cl.ch)
		}
		verifhook.SetOnPoint(nil)
		if w.eng != nil {
			w.gate = false
			w.releaseAll()
			_ = w5CloseEngine(w.eng)
		}
	}()

	for phase := 0; phase < phases && !r.Failed(); phase++ {
		w.images = nil
		w.phase(dbdir, nOps, gated, faulty)
		if r.Failed() {
			return
		}
		// Close while binlog I/O is still pending (the disk is slow): Close asks the binlog to shut down and
		// must not commit SQLite before the binlog has committed everything the database holds. Crash
		// images keep being taken at the engine's hook points and before every disk operation.
		closedWithPendingIO := false
		idleClients := true
		for _, cl := range w.clients {
			idleClients = idleClients && !cl.busy
		}
		if gated && idleClients && len(w.parkedDisk) > 0 && !w.ioFired && w.lockFree() && c.Intn(2, "close_with_pending_binlog_io") == 1 {
			r.Probe("close_with_binlog_io_pending")
			r.Sched("close", "engine")
			r.Event("engine", "Close with %d binlog disk operation(s) parked", len(w.parkedDisk))
			// the periodic commit is stopped first: while Close holds the connection lock and waits for the
			// binlog, a periodic commit would wait on that mutex, which freezes the simulated clock
			w.eng.stop()
			closeDone := false
			go func() { _ = w.eng.Close(context.Background()); closeDone = true }()
			for i := 0; i < 2000 && !closeDone; i++ {
				verifsim.Wait()
				if closeDone {
					break
				}
				if len(w.parkedDisk) > 0 {
					w.releaseOne(true)
				} else {
					time.Sleep(10 * time.Millisecond)
				}
			}
			if !closeDone {
				r.Fail("C17", "close_hang", "close", "Close did not return although every binlog disk operation was let through")
				return
			}
			closedWithPendingIO = true
		}
		// stop the live engine, then verify every image taken in this phase
		w.takeImage = nil
		w.gate = false
		w.releaseAll()
		verifhook.SetOnPoint(nil)
		w.memfs.SetSimHooks(nil)
		hung := false
		if !closedWithPendingIO {
			hung = w.drain()
		}
		if hung && !w.ioFired {
			r.Fail("C17", "op_hang", "hang", "operations still in flight after all commit notifications were delivered and time passed, without any injected disk fault")
			return
		}
		if hung {
			r.Probe("ops_hang_after_binlog_disk_fault")
		}
		liveClosed := closedWithPendingIO
		if closedWithPendingIO {
			time.Sleep(w.eng.opt.CommitEvery + 100*time.Millisecond)
			verifsim.Wait()
		}
		if !hung && !closedWithPendingIO {
			if err := w5CloseEngine(w.eng); err != nil {
				r.Probe("close_error")
			}
			liveClosed = true
		}
		var adopt *w5Image
		for i, img := range w.images {
			ok := w.verifyImage(img, i)
			if r.Failed() {
				return
			}
			if ok && adopt == nil && c.Intn(3, "adopt") == 0 {
				adopt = img
			}
		}
		if !liveClosed {
			// leave the stuck engine behind (its goroutines are durably blocked), but close its SQLite
			// handle: an open handle keeps SQLite's per-inode lock state alive, and tmpfs reuses inode
			// numbers, so a later run's fresh database file could otherwise appear locked (5 s real-time
			// busy waits per statement, which trips the watchdog)
			w.eng.stop()
			_ = w.eng.rw.rw.Close()
			w.eng = nil
			return
		}
		w.eng = nil
		if phase+1 >= phases || adopt == nil {
			return
		}
		// continue the run on a recovered crash image (process-kill image of the binlog)
		dbdir = w.newDir()
		for name, data := range adopt.files {
			if err := os.WriteFile(filepath.Join(dbdir, name), data, 0644); err != nil {
				panic(err)
			}
		}
		w.memfs = w5ImageFS(adopt.bl, 0, c)
		w.memfs.TrackDirtyPages()
		eng, err := w.openEngine(filepath.Join(dbdir, "db"), w.memfs, true)
		if err != nil {
			r.Fail("C17", "recovery_failed", "adopt", "engine does not reopen on a process-kill image: %v", err)
			return
		}
		w.eng = eng
		rows, off, err := w5ReadAll(eng)
		if err != nil {
			r.Fail("C17", "recovery_failed", "adopt", "cannot read the recovered engine: %v", err)
			return
		}
		// new lineage: exactly the recovered rows
		w.execOrder = append([]string(nil), rows...)
		keep := map[string]int64{}
		for _, s := range rows {
			if e, ok := w.endOff[s]; ok {
				keep[s] = e
			}
		}
		w.endOff = keep // offsets of events that did not survive the crash no longer mean anything
		w.acked = nil
		for _, s := range rows {
			w.acked = append(w.acked, s)
		}
		_ = off
		r.Event("admin", "adopted image #%d (%s): %d rows", adopt.hit, adopt.at, len(rows))
		nOps = 4 + c.Intn(12, "ops2")
		faulty = false
	}
}

const w5BinlogFile = "/sb.000000.bin"

// lockFree reports whether nobody holds the engine's connection lock right now. A binlog disk
// fault is injected only then: if the writer dies while an operation (must-commit-now path) or the
// periodic commit holds that lock waiting for the commit, the engine's own error path
// (binlogRun: rw.mu.Lock before close(binlogEnd)) deadlocks with it. That is a liveness defect of
// the engine after a binlog failure, outside C17's statement; a goroutine stuck on a mutex would
// freeze the fake clock, so the harness steers around it (recorded in DESIGN.md).
func (w *w5World) lockFree() bool {
	if w.eng.rw.mu.TryLock() {
		w.eng.rw.mu.Unlock()
		return true
	}
	w.r.Probe("disk_fault_postponed_lock_held")
	return false
}

type w5Parked struct {
	what string
	ch   chan struct{}
}

// parkDisk is called on the fsbinlog writer goroutine (holding only the simulated file's lock).
func (w *w5World) parkDisk(what string) {
	if !w.gate || w.ioFired {
		return // after an injected disk error the dying writer is not slowed down any more (see lockFree)
	}
	p := w5Parked{what: what, ch: make(chan struct{})}
	w.parkedDisk = append(w.parkedDisk, p)
	<-p.ch
}

func (w *w5World) releaseOne(image bool) {
	if len(w.parkedDisk) == 0 {
		return
	}
	p := w.parkedDisk[0]
	w.parkedDisk = w.parkedDisk[1:]
	if image && w.takeImage != nil {
		w.takeImage(p.what) // everything is quiescent: SQLite files and binlog files are stable
	}
	close(p.ch)
}

func (w *w5World) releaseAll() {
	for len(w.parkedDisk) > 0 {
		w.releaseOne(w.takeImage != nil)
		verifsim.Wait()
	}
}

// drain lets everything in flight finish; reports true if something stays stuck.
func (w *w5World) drain() bool {
	for i := 0; i < 300; i++ {
		verifsim.Wait()
		w.collect()
		if len(w.parkedDisk) > 0 {
			w.releaseAll()
			continue
		}
		busy := false
		for _, cl := range w.clients {
			busy = busy || cl.busy
		}
		if !busy {
			return false
		}
		time.Sleep(100 * time.Millisecond)
	}
	return true
}

func (w *w5World) clientLoop(cl *w5Client) {
	for op := range cl.ch {
		func() {
			defer func() {
				if p := recover(); p != nil {
					op.panic = fmt.Sprint(p)
				}
				op.done = true
			}()
			w.exec(op)
		}()
	}
}

func (w *w5World) exec(op *w5Op) {
	ctx := context.Background()
	e := w.eng
	if op.kind == "insert_cancel" {
		var cancel context.CancelFunc
		ctx, cancel = context.WithCancel(ctx)
		defer cancel()
		w.armedCancel = cancel
		defer func() { w.armedCancel = nil }()
	}
	switch op.kind {
	case "insert", "insert_fail", "insert_cancel":
		fail := op.kind == "insert_fail"
		op.off, _, op.err = e.DoWithOffset(ctx, "test", func(conn Conn, cache []byte) ([]byte, error) {
			var err error
			if op.viaQuery {
				// the callback's first modifying statement goes through Query (INSERT ... RETURNING)
				rows := conn.Query("test_ret", "INSERT INTO test_db(t) VALUES ($t) RETURNING id", BlobString("$t", op.s))
				for rows.Next() {
				}
				err = rows.Error()
			} else {
				_, err = conn.Exec("test", "INSERT INTO test_db(t) VALUES ($t)", BlobString("$t", op.s))
			}
			if err != nil {
				return cache, err
			}
			if fail {
				w.failed[op.s] = true
				return w5Event(op.s, cache), fmt.Errorf("callback failed on purpose")
			}
			w.execOrder = append(w.execOrder, op.s) // under the engine's connection lock: binlog order
			return w5Event(op.s, cache), nil
		})
		if op.kind == "insert_cancel" && op.err != nil {
			// refused as a whole: it never happened (this goroutine has not blocked since the engine
			// rolled the savepoint back, so the entry is still where the callback put it)
			for i := len(w.execOrder) - 1; i >= 0; i-- {
				if w.execOrder[i] == op.s {
					w.execOrder = append(w.execOrder[:i], w.execOrder[i+1:]...)
					break
				}
			}
			w.failed[op.s] = true
		}
	case "read_do":
		op.err = e.Do(ctx, "test", func(conn Conn, cache []byte) ([]byte, error) {
			rows := conn.Query("test", "SELECT t FROM test_db ORDER BY id")
			for rows.Next() {
				s, _ := rows.ColumnBlobString(0)
				op.rows = append(op.rows, s)
			}
			// (5) a reader never observes a row whose event is not in the binlog yet: at this
			// instant (connection lock held) every visible row must be in execOrder
			op.off = int64(len(w.execOrder))
			op.seenDBOff = e.dbOffset
			return cache, rows.Error()
		})
		op.commitAtReturn = e.commitOffset.Load()
	case "view":
		op.err = e.View(ctx, "test", func(conn Conn) error {
			rows := conn.Query("test", "SELECT t FROM test_db ORDER BY id")
			for rows.Next() {
				s, _ := rows.ColumnBlobString(0)
				op.rows = append(op.rows, s)
			}
			return rows.Error()
		})
	}
}

func (w *w5World) collect() {
	r := w.r
	for _, cl := range w.clients {
		if !cl.busy || !cl.cur.done {
			continue
		}
		op := cl.cur
		cl.busy = false
		if op.panic != "" {
			r.Fail("C17", "panic", "panic:"+op.kind, "%s panicked: %s", op.kind, op.panic)
			return
		}
		if op.kind == "insert_cancel" {
			if op.err != nil {
				r.Event(fmt.Sprintf("client%d", cl.id), "insert_cancel %s -> err=%v", op.s, w5Err(op.err))
				r.Probe("write_cancelled_after_callback")
				continue
			}
			op.kind = "insert" // the cancellation came too late to matter: an ordinary write
		}
		switch op.kind {
		case "insert":
			r.Event(fmt.Sprintf("client%d", cl.id), "insert %s -> off=%d err=%v", op.s, op.off, w5Err(op.err))
			if op.err == nil {
				w.endOff[op.s] = op.off
				if w.mode == WaitCommit {
					w.acked = append(w.acked, op.s)
				}
			} else if !w.ioFired {
				r.Fail("C17", "write_failed", "insert", "insert %q failed without an injected fault: %v", op.s, op.err)
			} else {
				r.Probe("write_error_after_disk_fault")
			}
		case "insert_fail":
			r.Event(fmt.Sprintf("client%d", cl.id), "insert_fail %s -> err=%v", op.s, w5Err(op.err))
			if op.err == nil {
				r.Fail("C17", "failed_callback_acked", "insert_fail", "Do returned nil although the callback returned an error")
			}
		case "read_do", "view":
			r.Event(fmt.Sprintf("client%d", cl.id), "%s -> %d rows err=%v", op.kind, len(op.rows), w5Err(op.err))
			if op.err != nil {
				if !w.ioFired {
					r.Fail("C17", "read_failed", op.kind, "%s failed without an injected fault: %v", op.kind, op.err)
				}
				break
			}
			// rows must be a prefix of the binlog order and contain no failed-callback row
			lim := len(w.execOrder)
			if op.kind == "read_do" {
				lim = int(op.off)
			}
			if len(op.rows) > lim {
				r.Fail("C17", "reader_sees_unlogged", op.kind, "%s saw %d rows but only %d events were in the binlog", op.kind, len(op.rows), lim)
				break
			}
			for i, s := range op.rows {
				if w.failed[s] {
					r.Fail("C17", "failed_callback_visible", op.kind, "%s saw row %q of a write whose callback failed", op.kind, s)
					break
				}
				if s != w.execOrder[i] {
					r.Fail("C17", "reader_not_prefix", op.kind, "%s row %d is %q, binlog order has %q", op.kind, i, s, w.execOrder[i])
					break
				}
			}
			if op.kind == "read_do" && w.mode == WaitCommit && !w.ioFired && op.commitAtReturn < op.seenDBOff {
				r.Fail("C17", "reader_sees_uncommitted", "read_do", "wait-for-commit mode: a read through Do returned the state at binlog offset %d (%d rows) while the binlog was committed only up to %d: the caller holds effects of events that are not durable in the binlog", op.seenDBOff, len(op.rows), op.commitAtReturn)
				break
			}
			if op.kind == "read_do" && len(op.rows) != lim {
				r.Fail("C17", "reader_missing_rows", op.kind, "a read through the write connection saw %d rows, %d writes were executed before it", len(op.rows), lim)
			}
		}
	}
}

func w5Err(e error) string {
	if e == nil {
		return "nil"
	}
	s := e.Error()
	if len(s) > 70 {
		s = s[:70]
	}
	return s
}

func (w *w5World) phase(dbdir string, nOps int, gated, faulty bool) {
	r, c := w.r, w.c
	w.hits = 0
	w.ioFault, w.ioFired, w.ioOps = "", false, 0
	if faulty && c.Intn(3, "disk_fault") == 1 {
		w.ioFault = []string{"write_error", "fsync_error"}[c.Intn(2, "disk_fault_kind")]
		w.ioAtOp = 1 + c.Intn(20, "disk_fault_at")
	}
	dbfile := w.eng.opt.Path
	takeImage := func(at string) {
		w.hits++
		if len(w.images) >= w.maxImages || w.c.Keyed(w.imageRate, uint64(w.hits), 77) != 0 {
			return
		}
		img := &w5Image{at: at, hit: w.hits, files: map[string][]byte{}, execLen: len(w.execOrder),
			acked: append([]string(nil), w.acked...)}
		for _, suf := range []string{"", "-journal", "-wal", "-wal2", "-shm"} {
			if b, err := os.ReadFile(dbfile + suf); err == nil {
				img.files["db"+suf] = b
			}
		}
		img.bl = w.memfs.SimSnapshotHeld(w5BinlogFile) // the writer may be parked inside this file's lock
		for s := range w.failed {
			img.failedSet = append(img.failedSet, s)
		}
		sort.Strings(img.failedSet)
		w.images = append(w.images, img)
	}
	// crash points inside the engine: the hitting goroutine holds the connection lock, so the
	// SQLite files are quiescent while they are copied
	verifhook.SetOnPoint(func(name string) {
		if name == "sqlite.do.after_fn" && w.armedCancel != nil {
			w.armedCancel()
			w.armedCancel = nil
			r.Fault("context_cancelled_after_callback")
		}
		if strings.HasPrefix(name, "sqlite.") {
			takeImage(name)
		}
	})
	// the binlog disk is slow: the fsbinlog writer goroutine parks at every write and fsync entry
	// until the scheduler lets the operation through (this also makes the binlog file content a
	// deterministic function of the schedule). Crash images "before binlog write/fsync #k" are
	// taken by the scheduler right before it releases the parked operation.
	w.memfs.SetSimHooks(&gofs.SimHooks{
		BeforeWrite: func(name string, off int64, b []byte) (int, error) {
			w.ioOps++
			if w.ioFault == "write_error" && w.ioOps >= w.ioAtOp && !w.ioFired && w.lockFree() {
				w.ioFired = true
				r.Fault("binlog_write_error")
				r.Event("disk", "write error injected at binlog op %d", w.ioOps)
				return 0, fmt.Errorf("simulated I/O error")
			}
			w.parkDisk("binlog.before_write")
			return 0, nil
		},
		BeforeSync: func(name string) error {
			w.ioOps++
			if w.ioFault == "fsync_error" && w.ioOps >= w.ioAtOp && !w.ioFired && w.lockFree() {
				w.ioFired = true
				r.Fault("binlog_fsync_error")
				r.Event("disk", "fsync error injected at binlog op %d", w.ioOps)
				return fmt.Errorf("simulated fsync error")
			}
			w.parkDisk("binlog.before_sync")
			return nil
		},
	})
	w.takeImage = takeImage

	issued := 0
	w.gate = true // the writer always parks; in "not gated" runs the scheduler releases it at once
	for step := 0; step < nOps*6 && !r.Failed(); step++ {
		verifsim.Wait()
		if !gated {
			w.releaseAll()
		}
		w.collect()
		if r.Failed() {
			return
		}
		var idle []*w5Client
		for _, cl := range w.clients {
			if !cl.busy {
				idle = append(idle, cl)
			}
		}
		if issued >= nOps && len(idle) == len(w.clients) {
			break
		}
		if len(w.parkedDisk) == 0 {
			w.insertsSinceIdle, w.mustDrain = 0, false
		}
		var acts []string
		// an operation may hold the connection lock while it waits for the binlog commit (the
		// must-commit-now path): a second operation would then wait on a mutex, which is not a
		// durable block, and fake time could never advance. Issue only when the lock is free.
		lockFree := w.eng.rw.mu.TryLock()
		if lockFree {
			w.eng.rw.mu.Unlock()
		} else {
			r.Probe("connection_lock_held_at_quiescence")
		}
		if len(idle) > 0 && issued < nOps && lockFree && !w.mustDrain {
			acts = append(acts, "issue")
		}
		if len(w.parkedDisk) > 0 {
			acts = append(acts, "commit")
		}
		acts = append(acts, "clock")
		switch acts[c.Intn(len(acts), "act")] {
		case "issue":
			cl := idle[c.Intn(len(idle), "client")]
			op := &w5Op{}
			switch k := c.Intn(8, "opkind"); {
			case k <= 3:
				op.kind = "insert"
			case k == 4:
				op.kind = "insert"
				if c.Intn(2, "cancel_after_callback") == 1 {
					// the caller's context ends right after the callback returned (hook sqlite.do.after_fn):
					// the write must fail as a whole - no row, no binlog record - and the engine stays usable
					op.kind = "insert_cancel"
				}
			case k == 5:
				op.kind = "insert_fail"
			default:
				// read through the write connection. Read-only View connections are not used: with the
				// stock (non-WAL2) SQLite build a reader blocks the writer's COMMIT for the real-time
				// busy timeout, which is an artefact of the amalgamation, not of the engine.
				op.kind = "read_do"
			}
			if op.kind == "insert" || op.kind == "insert_cancel" {
				w.insertsSinceIdle++
			}
			if strings.HasPrefix(op.kind, "insert") {
				op.viaQuery = c.Intn(3, "insert_via_query") == 1
				w.nextStr++
				op.s = fmt.Sprintf("s%04d-%s", w.nextStr, strings.Repeat("x", c.Intn(40, "strlen")))
			}
			cl.cur, cl.busy = op, true
			issued++
			r.Sched("issue:"+op.kind, fmt.Sprintf("client%d", cl.id))
			r.Event(fmt.Sprintf("client%d", cl.id), "issue %s %s", op.kind, op.s)
			cl.ch <- op
		case "commit":
			r.Sched("disk", "binlog")
			r.Fault("binlog_disk_op_delayed")
			r.Event("disk", "release %s (%d parked)", w.parkedDisk[0].what, len(w.parkedDisk))
			w.releaseOne(true)
		case "clock":
			// Time may pass while binlog disk operations are still parked: the engine's periodic
			// commit then has to wait for the binlog commit (holding the connection lock, which is
			// why operations are only issued when that lock is free). Value 0 = benign: drain first.
			// Determinism guard: the fsbinlog writer selects on {data signal, 500 ms flush timer}; if both
			// are ready when it returns to that select Go picks at random. So time passes with I/O
			// pending only when at most one append happened since the writer was last idle (its signal
			// was consumed when the writer woke), and no new operation is issued until the disk queue
			// has drained.
			if c.Intn(2, "clock_with_pending_disk") == 0 || w.insertsSinceIdle > 1 {
				w.releaseAll()
			} else if len(w.parkedDisk) > 0 {
				r.Probe("time_passes_with_binlog_io_pending")
				w.mustDrain = true
			}
			r.Sched("clock", "clock")
			r.Event("clock", "advance")
			time.Sleep([]time.Duration{50 * time.Millisecond, time.Second, 6 * time.Second}[c.Intn(3, "dt")])
		}
	}
}

// w5ImageFS builds the binlog file system of a crash image. policy 0: process kill (all written
// bytes), 1: power loss worst case (synced only), 2: synced + part of the unsynced tail.
func w5ImageFS(snap []gofs.SimFile, policy int, c *verifsim.Choices, boundaries ...int64) *gofs.InMemoryFS {
	var files []gofs.SimImageFile
	for _, f := range snap {
		if f.IsDir {
			continue
		}
		content := f.Cur
		if policy > 0 {
			base := 0
			if f.SyncedValid {
				base = len(f.Synced)
			} else if len(f.Cur) > 0 && policy == 1 {
				continue
			}
			if base > len(f.Cur) {
				base = len(f.Cur)
			}
			content = f.Cur[:base]
			if policy == 2 && len(f.Cur) > base {
				// part of the unsynced tail survived: whole events only (a torn event makes fsbinlog
				// refuse to start as a writer until an operator truncates the file; that is C18's
				// territory, see W6)
				var cand []int64
				for _, b := range boundaries {
					if b > int64(base) && b <= int64(len(f.Cur)) {
						cand = append(cand, b)
					}
				}
				sort.Slice(cand, func(i, j int) bool { return cand[i] < cand[j] })
				if len(cand) > 0 {
					k := c.Intn(len(cand)+1, "bl_cut")
					if k > 0 {
						content = f.Cur[:cand[k-1]]
					}
				}
			}
		}
		files = append(files, gofs.SimImageFile{Name: f.Name, Perm: 0640, Content: append([]byte(nil), content...)})
	}
	return gofs.NewMemoryFsFromImage(files)
}

func w5ReadAll(e *Engine) (rows []string, off int64, err error) {
	err = e.Do(context.Background(), "test", func(conn Conn, cache []byte) ([]byte, error) {
		rs := conn.Query("test", "SELECT t FROM test_db ORDER BY id")
		for rs.Next() {
			s, _ := rs.ColumnBlobString(0)
			rows = append(rows, s)
		}
		if rs.Error() != nil {
			return cache, rs.Error()
		}
		var e2 error
		off, _, e2 = binlogLoadPosition(conn)
		return cache, e2
	})
	return
}

func w5SyncedLen(snap []gofs.SimFile) (synced int64, written int64) {
	for _, f := range snap {
		if f.IsDir {
			continue
		}
		if f.SyncedValid {
			synced += int64(len(f.Synced))
		}
		written += int64(len(f.Cur))
	}
	return
}

// verifyImage checks one crash image; returns whether it can be adopted.
func (w *w5World) verifyImage(img *w5Image, idx int) bool {
	r, c := w.r, w.c
	r.Extra["crash_images"]++
	what := strings.TrimPrefix(img.at, "sqlite.")
	// (1) the raw SQLite image, opened without any binlog: rows == binlog prefix up to its offset
	d1 := w.newDir()
	for name, data := range img.files {
		if err := os.WriteFile(filepath.Join(d1, name), data, 0644); err != nil {
			panic(err)
		}
	}
	raw, err := OpenEngine(Options{Path: filepath.Join(d1, "db"), APPID: 32, Scheme: w5Schema, DurabilityMode: NoBinlog}, nil, w5Apply(false), w5Apply(true))
	if err != nil {
		r.Fail("C17", "image_unreadable", what, "SQLite files of crash image #%d (%s) do not open: %v", img.hit, img.at, err)
		return false
	}
	rows, off, err := w5ReadAll(raw)
	_ = raw.Close(context.Background())
	raw.stop()
	if err != nil {
		r.Fail("C17", "image_unreadable", what, "cannot read crash image #%d (%s): %v", img.hit, img.at, err)
		return false
	}
	checkPrefix := func(rows []string, stage string) bool {
		for i, s := range rows {
			if i >= len(w.execOrder) || w.execOrder[i] != s {
				exp := "<nothing>"
				if i < len(w.execOrder) {
					exp = w.execOrder[i]
				}
				cls := "not_prefix"
				for _, f := range img.failedSet {
					if f == s {
						cls = "failed_callback_row"
					}
				}
				r.Fail("C17", "db_"+cls, what+":"+stage, "crash image #%d (%s), %s: row %d is %q but the binlog order has %q: the database is not the application of a binlog prefix", img.hit, img.at, stage, i, s, exp)
				return false
			}
		}
		return true
	}
	if !checkPrefix(rows, "raw") {
		return false
	}
	synced, written := w5SyncedLen(img.bl)
	if off > synced {
		r.Fail("C17", "db_ahead_of_durable_binlog", what, "crash image #%d (%s): the database's committed binlog offset is %d but only %d binlog bytes were fsynced (%d written): SQLite committed before the binlog commit", img.hit, img.at, off, synced, written)
		return false
	}
	if len(rows) > 0 {
		if e, ok := w.endOff[rows[len(rows)-1]]; ok && e != off {
			r.Fail("C17", "offset_mismatch", what, "crash image #%d (%s): database holds %d rows, last event ends at %d, stored offset is %d", img.hit, img.at, len(rows), e, off)
			return false
		}
		if len(rows) < len(w.execOrder) {
			if e, ok := w.endOff[w.execOrder[len(rows)]]; ok && e <= off {
				r.Fail("C17", "offset_mismatch", what, "crash image #%d (%s): stored offset %d covers event %q which is not in the database", img.hit, img.at, off, w.execOrder[len(rows)])
				return false
			}
		}
	}
	// (2)(3) recover with the binlog image under a drawn policy
	policy := c.Intn(3, "recover_policy")
	var bounds []int64
	for _, e := range w.endOff {
		bounds = append(bounds, e)
	}
	sort.Slice(bounds, func(i, j int) bool { return bounds[i] < bounds[j] })
	fs := w5ImageFS(img.bl, policy, c, bounds...)
	d2 := w.newDir()
	for name, data := range img.files {
		if err := os.WriteFile(filepath.Join(d2, name), data, 0644); err != nil {
			panic(err)
		}
	}
	saveMode := w.mode
	rec, err := w.openEngine(filepath.Join(d2, "db"), fs, false)
	w.mode = saveMode
	if err != nil {
		r.Fail("C17", "recovery_failed", what, "engine does not restart on crash image #%d (%s, binlog policy %d): %v", img.hit, img.at, policy, err)
		return false
	}
	rrows, roff, err := w5ReadAll(rec)
	cerr := w5CloseEngine(rec)
	_ = cerr
	if err != nil {
		r.Fail("C17", "recovery_failed", what, "cannot read the engine recovered from image #%d: %v", img.hit, err)
		return false
	}
	if !checkPrefix(rrows, "recovered") {
		return false
	}
	if len(rrows) < len(rows) {
		r.Fail("C17", "recovery_lost_rows", what, "image #%d: recovery went from %d to %d rows", img.hit, len(rows), len(rrows))
		return false
	}
	have := map[string]bool{}
	for _, s := range rrows {
		have[s] = true
	}
	for _, s := range img.acked {
		if !have[s] {
			r.Fail("C17", "acked_write_lost", what, "crash image #%d (%s, binlog policy %d): write %q was acknowledged in wait-for-commit mode before the crash but is missing after restart (%d rows)", img.hit, img.at, policy, s, len(rrows))
			return false
		}
	}
	if len(rrows) > 0 {
		if e, ok := w.endOff[rrows[len(rrows)-1]]; ok && e != roff {
			r.Fail("C17", "offset_mismatch", what+":recovered", "image #%d after recovery: last event ends at %d, stored offset %d", img.hit, e, roff)
			return false
		}
	}
	r.Event("verify", "image #%d at %s: raw rows=%d off=%d synced=%d; recovered(policy %d) rows=%d acked=%d", img.hit, img.at, len(rows), off, synced, policy, len(rrows), len(img.acked))
	if len(img.files) > 1 {
		r.Probe("image_with_hot_journal")
	}
	if len(rrows) > len(rows) {
		r.Probe("recovery_applied_binlog_tail")
	}
	return policy == 0
}

func TestVerifW5(t *testing.T) {
	_ = statshouse.Close() // stop the metrics client's real timer goroutine: nothing listens in the sandbox
	verifsim.Main(t, &verifsim.World{Name: "w5_sqlite", Props: []string{"C17"}, Exec: w5Exec})
}
