//go:build verif

package agent

// W2: agent shard placement (property C08).
//
// Real: Agent.Map / mapAllTags (tag order, tag aliases, mapping cache hits and misses),
// Agent.ApplyMetric (primary + secondary shard, resolution hash over original tag values),
// Shard.Apply{Counter,Values,Unique}, resolutionShardFromHashLocked, gap detection,
// Agent.goFlushIteration / Shard.flushBuckets (send-time advance, jump-ahead),
// Shard.StopReceivingIncomingData / Agent.ShutdownFlusher, Agent.FlushAllData.
// Simulated: the clock (goFlushIteration takes it as an argument), the preprocessor (a consumer
// of BucketsToPreprocess that the scheduler can stall), event sources, the mapping cache contents.
//
// No synctest bubble: every shard method holds the shard mutex for its whole effect, so a seeded
// total order of operations is the interleaving space (see "assumptions" in world.json).
//
// Event identity: every event is a counter/value/unique event of some series (metric, raw tag
// "1" = series id) whose count is a distinct power of two inside its series. The count of every
// row found in a bucket therefore decodes into the exact set of events merged into that row,
// which makes "exactly one bucket" checkable even though rows of one series are merged.

import (
	"context"
	"fmt"
	"math"
	"sort"
	"strconv"
	"sync"
	"testing"
	"time"

	pgrand "pgregory.net/rand"

	"github.com/VKCOM/statshouse/internal/data_model"
	"github.com/VKCOM/statshouse/internal/data_model/gen2/tl"
	"github.com/VKCOM/statshouse/internal/data_model/gen2/tlstatshouse"
	"github.com/VKCOM/statshouse/internal/format"
	"github.com/VKCOM/statshouse/internal/pcache"
	"github.com/VKCOM/statshouse/internal/verifsim"
)

const (
	w2Prop        = "C08"
	w2MaxBits     = 40 // events per series; 2^40 sums are exact in float64
	w2MaxAgents   = 2
	w2MaxShards   = 2
	w2MetricFirst = 101
)

type w2MetricDef struct {
	meta      *format.MetricMetaValue
	res       uint32
	primary   int // shard index
	secondary int // shard index or -1
	start     uint32
}

type w2Place struct {
	offered, accepted bool
	role              int    // 0 primary, 1 secondary
	reason            string // why not accepted
	cur, send         uint32 // shard cursors immediately before the call
	clamped, rowTs    uint32
	notLate           bool
	seen              int
	gotRowTs, gotTime uint32
}

type w2Series struct {
	mi     int
	sid    int32
	vals   [5]string // original tag values of tags 0..4 ("" = tag not sent); vals[1] is the sid
	events []*w2Ev
}

type w2Ev struct {
	id     int
	series *w2Series
	bit    int
	ts     uint32
	kind   int
	place  [w2MaxAgents][w2MaxShards]w2Place
}

type w2Row struct {
	metric, series int32
	ts             uint32
	count          float64
	top            int
}

type w2Bucket struct {
	time uint32
	rows []w2Row
}

type w2Shard struct {
	sh      *Shard
	stalled bool
	stopped bool
	buckets []w2Bucket
	// when this shard's flushBuckets ran last (simulated clock of its agent)
	lastFlush time.Time
}

type w2Agent struct {
	name      string
	ag        *Agent
	shards    []*w2Shard
	skew      time.Duration
	disturbed bool // the flusher or a consumer deviated from the regular regime at least once
	stopping  bool // shutdown has begun
	lastGasp  bool // the one flush iteration that may still complete after shutdown began was used
	scratch   []byte
}

type w2World struct {
	r       *verifsim.Run
	c       *verifsim.Choices
	now     time.Time
	metrics []*w2MetricDef
	ids     map[int32]int // metric id -> index
	series  map[[2]int32]*w2Series
	bySid   []*w2Series
	events  []*w2Ev
	agents  []*w2Agent
	vocab   []string
	srcSkew []time.Duration
}

func w2NewAgent(name string, nShards int, now time.Time, seed uint64) *w2Agent {
	config := Config{}
	ctx, cancel := context.WithCancel(context.Background())
	ag := &Agent{
		config:                                   config,
		logF:                                     func(f string, a ...any) {},
		mappingsCache:                            pcache.NewMappingsCache(data_model.NewChunkedStorageNop(), 1024*1024, 86400),
		shardByMetricCount:                       uint32(nShards),
		componentTag:                             format.TagValueIDComponentAgent,
		cancelFlushCtx:                           ctx,
		cancelFlushFunc:                          cancel,
		builtinMetricMetaUsageCPU:                *format.BuiltinMetricMetaUsageCPU,
		builtinMetricMetaUsageMemory:             *format.BuiltinMetricMetaUsageMemory,
		builtinMetricMetaHeartbeatVersion:        *format.BuiltinMetricMetaHeartbeatVersion,
		builtinMetricMetaHeartbeatVersionAgent:   *format.BuiltinMetricMetaHeartbeatVersionAgent,
		builtinMetricMetaHeartbeatVersionIngress: *format.BuiltinMetricMetaHeartbeatVersionIngress,
	}
	nowUnix := uint32(now.Unix())
	ag.beforeFlushTime = nowUnix
	ag.startTimestamp = nowUnix
	a := &w2Agent{name: name, ag: ag}
	for i := 0; i < nShards; i++ {
		sh := &Shard{
			config:               config,
			agent:                ag,
			ShardNum:             i,
			ShardKey:             int32(i) + 1,
			rng:                  pgrand.New(seed + uint64(i)),
			CurrentTime:          nowUnix,
			SendTime:             nowUnix - 2, // as MakeAgent does
			BucketsToPreprocess:  make(chan *data_model.MetricsBucket, 1),
			metricBudgetsFromAgg: data_model.NewExpDecay(data_model.ExpDecayHalfLife),
		}
		for j := 0; j < superQueueLen; j++ {
			sh.SuperQueue[j] = &data_model.MetricsBucket{}
		}
		sh.cond = sync.NewCond(&sh.mu)
		ag.Shards = append(ag.Shards, sh)
		a.shards = append(a.shards, &w2Shard{sh: sh, lastFlush: now})
	}
	ag.shardByMetricCount = uint32(nShards) // as the aggregator reports it for a cluster of nShards shards
	ag.initBuiltInMetrics()
	return a
}

func w2Peek(sh *Shard) (cur, send uint32, stop bool, gap int64) {
	sh.mu.Lock()
	defer sh.mu.Unlock()
	return sh.CurrentTime, sh.SendTime, sh.stopReceivingIncomingData, sh.gapInReceivingQueueLocked()
}

func (w *w2World) agentNow(a *w2Agent) time.Time { return w.now.Add(a.skew) }

// record copies the rows of the test metrics out of a bucket handed to preprocessing.
func (w *w2World) record(a *w2Agent, si int, b *data_model.MetricsBucket) {
	wb := w2Bucket{time: b.Time}
	for _, item := range b.MultiItems {
		if _, ok := w.ids[item.Key.Metric]; !ok {
			continue // built-in metrics of the agent itself
		}
		wb.rows = append(wb.rows, w2Row{metric: item.Key.Metric, series: item.Key.Tags[1], ts: item.Key.Timestamp,
			count: item.Tail.Value.Count(), top: len(item.Top)})
	}
	sort.Slice(wb.rows, func(i, j int) bool {
		x, y := wb.rows[i], wb.rows[j]
		if x.metric != y.metric {
			return x.metric < y.metric
		}
		if x.series != y.series {
			return x.series < y.series
		}
		if x.ts != y.ts {
			return x.ts < y.ts
		}
		return x.count < y.count
	})
	a.shards[si].buckets = append(a.shards[si].buckets, wb)
	w.r.Event("consumer", "%s/%d bucket time=%d rows=%d", a.name, si, wb.time, len(wb.rows))
}

func (w *w2World) drainOne(a *w2Agent, si int) bool {
	select {
	case b, ok := <-a.shards[si].sh.BucketsToPreprocess:
		if !ok {
			return false
		}
		w.record(a, si, b)
		return true
	default:
		return false
	}
}

// flush runs one flusher iteration of agent a at the simulated instant, then lets every consumer
// that is not stalled take what the flusher produced (as goPreProcess would).
func (w *w2World) flush(a *w2Agent, onlyShard int) {
	now := w.agentNow(a)
	for si, ws := range a.shards {
		if onlyShard >= 0 && si != onlyShard {
			continue
		}
		if now.Sub(ws.lastFlush) > time.Second {
			a.disturbed = true // the flusher was late (jump, pause of the process, skipped ticks)
		}
		ws.lastFlush = now
	}
	if onlyShard < 0 {
		a.ag.goFlushIteration(now)
	} else {
		// goFlushIteration visits the shards one after another without a common lock; events can
		// be applied between two shards' flushBuckets calls. This is that window.
		a.shards[onlyShard].sh.flushBuckets(now)
	}
	for si, ws := range a.shards {
		if onlyShard >= 0 && si != onlyShard {
			continue
		}
		if ws.stalled {
			a.disturbed = true
			continue
		}
		w.drainOne(a, si)
	}
	for si, ws := range a.shards {
		cur, send, _, gap := w2Peek(ws.sh)
		if gap > 0 {
			w.r.Probe("gap_in_receive_queue")
		}
		w.r.Event("flusher", "%s/%d now=%d.%03d C=%d S=%d gap=%d", a.name, si, now.Unix(), now.Nanosecond()/1e6, cur, send, gap)
	}
}

func (w *w2World) newSeries(mi int) *w2Series {
	c := w.c
	s := &w2Series{mi: mi, sid: int32(len(w.bySid) + 1)}
	s.vals[0] = []string{"", "prod", "dev"}[c.Intn(3, "env")]
	s.vals[1] = strconv.Itoa(int(s.sid))
	for i := 2; i <= 4; i++ {
		if v := c.Intn(len(w.vocab)+1, "tagval"); v > 0 {
			s.vals[i] = w.vocab[v-1]
		}
	}
	w.bySid = append(w.bySid, s)
	w.series[[2]int32{w.metrics[mi].meta.MetricID, s.sid}] = s
	return s
}

var w2TagNames = [5]string{"", "sid", "color", "size", "zone"}

// apply offers one event to one agent through the real Map + ApplyMetric path. variant selects tag
// order and tag name aliases (0 = canonical order, canonical names).
func (w *w2World) apply(a *w2Agent, ai int, ev *w2Ev, variant int) {
	md := w.metrics[ev.series.mi]
	// ---- model: what the statement says must happen, from the shard state right now ----
	inTs := ev.ts
	for role, si := range []int{md.primary, md.secondary} {
		if si < 0 || si >= len(a.shards) || (role == 1 && si == md.primary) {
			continue
		}
		cur, send, stop, gap := w2Peek(a.shards[si].sh)
		p := &ev.place[ai][si]
		p.offered, p.role, p.cur, p.send = true, role, cur, send
		if role == 1 && cur != ev.place[ai][md.primary].cur {
			w.r.Probe("shards_out_of_step")
		}
		t := inTs
		if t == 0 {
			t = cur // "no timestamp" means the shard's current second
		}
		// The clamp rule itself is not part of the statement ("clamped timestamp"); the window is
		// taken from the package constant by name, not copied.
		if t > cur+superQueueFutureSlots {
			t = cur + superQueueFutureSlots
			w.r.Probe("future_clamped")
		}
		p.clamped = t
		p.rowTs = t / md.res * md.res
		switch {
		case stop:
			p.reason = "shutdown"
		case gap > 0:
			p.reason = "gap"
		case role == 1 && p.rowTs < md.start:
			// The row's (rounded) second is before the secondary shard's start. The statement
			// says "before its configured start time" without saying which of the two
			// timestamps; the row's own second is what the secondary shard would store, so that
			// is the reading used here (both readings coincide for start times that are
			// multiples of the resolution, which 2/3 of the runs use).
			p.reason = "before_start"
		default:
			p.accepted = true
		}
		if p.accepted {
			// not late: the row's natural send second has not been passed by the send cursor.
			// For resolution R>1 rows are spread over the R seconds after their interval, so
			// rowTs+R >= SendTime is a sufficient (hash independent) condition.
			if md.res == 1 {
				p.notLate = p.clamped >= send
			} else {
				p.notLate = p.rowTs+md.res >= send
			}
			if !p.notLate {
				w.r.Probe("late_row")
			}
			if role == 0 {
				// ApplyMetric hands the same key (already clamped and rounded by the primary
				// shard) to the secondary shard: that is the event the secondary shard is offered.
				inTs = p.rowTs
			}
			if role == 1 {
				w.r.Probe("secondary_accepted")
			}
		} else {
			w.r.Probe("not_accepted_" + p.reason)
			if p.reason == "gap" && !a.disturbed {
				w.r.Fail(w2Prop, "drop_without_gap", fmt.Sprintf("res%d", md.res),
					"%s shard %d discards events (CurrentTime=%d SendTime=%d gap=%d) although the flusher ticked regularly and the consumer never stalled",
					a.name, si, cur, send, gap)
			}
		}
	}
	// ---- the real call ----
	var m tlstatshouse.MetricBytes
	m.Name = []byte(md.meta.Name)
	type kv struct{ k, v string }
	var tags []kv
	for i, v := range ev.series.vals {
		if v == "" {
			continue
		}
		name := strconv.Itoa(i)
		switch (variant >> (2 * uint(i))) & 3 {
		case 1:
			if w2TagNames[i] != "" {
				name = w2TagNames[i]
			}
		case 2:
			name = "key" + name // legacy alias
		}
		tags = append(tags, kv{name, v})
	}
	if variant != 0 {
		// permutation derived from the variant (rotation + optional reversal)
		n := len(tags)
		if n > 1 {
			rot := (variant >> 10) % n
			tags = append(tags[rot:], tags[:rot]...)
			if (variant>>14)&1 == 1 {
				for i, j := 0, n-1; i < j; i, j = i+1, j-1 {
					tags[i], tags[j] = tags[j], tags[i]
				}
			}
		}
	}
	for _, t := range tags {
		m.Tags = append(m.Tags, tl.DictFieldStringStringBytes{Key: []byte(t.k), Value: []byte(t.v)})
	}
	cnt := math.Ldexp(1, ev.bit)
	m.Counter = cnt
	switch ev.kind {
	case 1:
		m.Value = []float64{float64(ev.id % 7)}
	case 2:
		m.Unique = []int64{int64(ev.id) + 1}
	}
	h := data_model.MappedMetricHeader{ReceiveTime: w.agentNow(a), MetricMeta: md.meta}
	h.Key.Metric = md.meta.MetricID
	h.Key.Timestamp = ev.ts
	a.ag.Map(data_model.HandlerArgs{MetricBytes: &m}, &h, nil)
	if h.IngestionStatus != 0 {
		panic(fmt.Sprintf("w2 harness: event rejected by mapping, status %d", h.IngestionStatus))
	}
	a.ag.ApplyMetric(&m, &h, &a.scratch)
}

func w2Exec(t *testing.T, r *verifsim.Run) {
	c := r.C
	rng := verifsim.NewSplitMix(c.Seed ^ 0x77322)
	pgrand.SetSimSource(rng.Next)
	defer pgrand.SetSimSource(nil)

	w := &w2World{r: r, c: c, ids: map[int32]int{}, series: map[[2]int32]*w2Series{}}
	// ---- configuration (swarm) ----
	nShards := 1 + c.Intn(2, "shards")
	twin := c.Intn(3, "twin")          // 0 single agent, 1 mirrored twin, 2 twin scheduled on its own
	faulty := c.Intn(3, "faulty") != 0 // 1/3 of the runs: regular clock, consumers never stall
	steps := 40 + c.Intn(260, "steps")
	nSources := 2 + c.Intn(3, "sources")
	shutdownMode := c.Intn(3, "shutdown") // 0 at the end; 1 ShutdownFlusher mid-run; 2 shard by shard mid-run
	base := int64(1000*24*3600) + int64(c.Intn(7200, "base"))
	w.now = time.Unix(base, int64(c.Intn(10, "base_ms"))*int64(100*time.Millisecond))
	start0 := w.now
	startKind := c.Intn(6, "sec_start")
	var secStart uint32
	switch startKind {
	case 0, 1: // started long ago
		secStart = uint32(base)/60*60 - 600
	case 2, 3: // starts during the run, aligned to a minute
		secStart = (uint32(base)/60 + 1 + uint32(c.Intn(3, "sec_start_min"))) * 60
	case 4: // starts during the run, not aligned
		secStart = uint32(base) + 7 + uint32(c.Intn(120, "sec_start_off"))
	default: // never
		secStart = uint32(base) + 1000000
	}
	secCfg := c.Intn(5, "secondary_cfg")
	r.Config["secondary_cfg"] = secCfg
	r.Config["shards"] = nShards
	r.Config["twin"] = twin
	r.Config["faulty"] = faulty
	r.Config["steps"] = steps
	r.Config["sources"] = nSources
	r.Config["shutdown_mode"] = shutdownMode
	r.Config["secondary_start"] = secStart
	r.Config["base"] = base

	w.vocab = []string{"red", "green", "blue", "xl", "eu-west", "a"}
	for i, res := range []uint32{1, 5, 15, 60, 1, 5, 15, 60} {
		meta := &format.MetricMetaValue{MetricID: int32(w2MetricFirst + i), Name: fmt.Sprintf("w2_metric_%d", i), Resolution: int(res),
			Tags: []format.MetricMetaTag{{}, {Name: "sid", RawKind: "int"}, {Name: "color"}, {Name: "size"}, {Name: "zone"}}}
		md := &w2MetricDef{meta: meta, res: res, primary: 0, secondary: -1}
		if i >= 4 { // lives on shard 1, secondary shard 2 from secStart on (when there is a second shard)
			meta.ShardFixedKey = 1
			meta.ShardFixedKey2 = 2
			meta.ShardFixedKey2Timestamp = secStart
			md.start = secStart
			if nShards > 1 {
				md.secondary = 1
			}
			// the primary shard may also come from the sharding strategy instead of the "shard" key;
			// a configured secondary shard that IS the strategy's primary is no secondary at all
			switch {
			case nShards > 1 && secCfg == 1: // legacy zero-based shard_num, same shard as shard2
				meta.ShardFixedKey, meta.ShardStrategy, meta.ShardNum = 0, format.ShardFixed, 1
				md.primary, md.secondary = 1, -1
			case nShards > 1 && secCfg == 2: // by metric id, shard2 names the very same shard
				meta.ShardFixedKey, meta.ShardStrategy = 0, format.ShardByMetricID
				md.primary, md.secondary = int(uint32(meta.MetricID)%uint32(nShards)), -1
				meta.ShardFixedKey2 = uint32(md.primary) + 1
			case nShards > 1 && secCfg == 3: // strategy primary on shard 1, secondary on shard 2
				meta.ShardFixedKey, meta.ShardStrategy, meta.ShardNum = 0, format.ShardFixed, 0
			}
		} else {
			meta.ShardFixedKey = uint32(1 + i%nShards)
			md.primary = i % nShards
		}
		if err := meta.RestoreCachedInfo(); err != nil {
			panic(err)
		}
		if uint32(meta.EffectiveResolution) != res {
			panic("w2 harness: resolution not accepted")
		}
		w.metrics = append(w.metrics, md)
		w.ids[meta.MetricID] = i
	}
	for i := 0; i < nSources; i++ {
		sk := time.Duration(0)
		if faulty {
			sk = []time.Duration{0, time.Second, -time.Second, 3 * time.Second, -30 * time.Second, 90 * time.Second}[c.Intn(6, "src_skew")]
		}
		w.srcSkew = append(w.srcSkew, sk)
	}
	w.agents = append(w.agents, w2NewAgent("A", nShards, w.now, c.Seed))
	if twin != 0 {
		b := w2NewAgent("B", nShards, w.now, c.Seed+99)
		if twin == 2 && faulty {
			b.skew = []time.Duration{0, time.Second, -time.Second, 2500 * time.Millisecond, -400 * time.Millisecond}[c.Intn(5, "twin_skew")]
			// the twin's cursors start from its own clock
			nu := uint32(w.now.Add(b.skew).Unix())
			for _, ws := range b.shards {
				ws.sh.CurrentTime, ws.sh.SendTime = nu, nu-2
				ws.lastFlush = w.now.Add(b.skew)
			}
			b.ag.beforeFlushTime, b.ag.startTimestamp = nu, nu
		}
		w.agents = append(w.agents, b)
	}
	// mapping cache contents: A knows a drawn subset of the vocabulary, B another one (0 = none)
	for ai, a := range w.agents {
		mask := c.Intn(1<<len(w.vocab), "mapped_mask")
		if ai == 0 && mask == 0 && twin != 0 {
			mask = 1<<len(w.vocab) - 1 // benign default with a twin: A fully cached, B not at all
		}
		var pairs []pcache.MappingPair
		for i, s := range w.vocab {
			if mask>>uint(i)&1 == 1 {
				pairs = append(pairs, pcache.MappingPair{Str: s, Value: int32(1000 + i)})
			}
		}
		a.ag.mappingsCache.AddValues(uint32(base), pairs)
		r.Config["mapped_"+a.name] = mask
	}
	defer func() { r.SimNanos = int64(w.now.Sub(start0)) }()

	shutdownAt := -1
	if shutdownMode != 0 {
		shutdownAt = steps/2 + c.Intn(steps-steps/2, "shutdown_at")
	}
	// ---- the scheduler ----
	for step := 0; step < steps && !r.Failed(); step++ {
		if step == shutdownAt {
			for _, a := range w.agents {
				a.stopping = true
			}
		}
		k := c.Intn(24, "act")
		switch {
		case k < 6 || k >= 22: // tick: the clock moves, every flusher that is still running iterates
			d := 100 * time.Millisecond
			if faulty {
				switch k := c.Intn(24, "clk"); {
				case k < 16:
				case k < 18:
					d = time.Second
				case k == 18:
					d = 0 // the flusher iterates again within the same instant (paused clock)
					r.Probe("clock_pause")
				case k == 19:
					d = time.Duration(c.Intn(5000, "clk_ms")) * time.Millisecond
				case k == 20:
					d = time.Duration(6+c.Intn(120, "clk_fwd_s")) * time.Second
					r.Fault("clock_jump_forward")
				case k == 21:
					d = time.Duration(126+c.Intn(875, "clk_fwd_far_s")) * time.Second
					r.Fault("clock_jump_forward_far")
				case k == 22:
					d = -time.Duration(1+c.Intn(30, "clk_back_s")) * time.Second
					r.Fault("clock_jump_backward")
				default:
					d = -time.Duration(100+c.Intn(900, "clk_back_far_s")) * time.Second
					r.Fault("clock_jump_backward_far")
				}
			} else if c.Intn(4, "clk_1s") == 3 {
				d = time.Second
			}
			w.now = w.now.Add(d)
			r.Sched("tick", "flusher")
			for ai, a := range w.agents {
				if a.stopping {
					// WaitFlusher: an iteration that was already running may complete, no more
					if a.lastGasp || c.Intn(2, "last_flush") == 0 {
						a.lastGasp = true
						continue
					}
					a.lastGasp = true
					r.Probe("flush_after_shutdown_began")
				}
				if ai == 1 && twin == 2 && faulty && c.Intn(4, "twin_skip_flush") == 3 {
					r.Probe("twin_skipped_tick")
					continue
				}
				w.flush(a, -1)
			}
		case k < 16: // an event from one of the sources
			src := c.Intn(nSources, "src")
			mi := c.Intn(len(w.metrics), "metric")
			var s *w2Series
			// reuse an existing series of the metric (merging rows) or start a new one
			var cands []*w2Series
			for _, x := range w.bySid {
				if x.mi == mi && len(x.events) < w2MaxBits {
					cands = append(cands, x)
				}
			}
			if len(cands) == 0 || c.Intn(3, "new_series") == 2 {
				s = w.newSeries(mi)
			} else {
				s = cands[c.Intn(len(cands), "series")]
			}
			srcNow := uint32(w.now.Add(w.srcSkew[src]).Unix())
			var ts uint32
			switch c.Intn(10, "ts_kind") {
			case 0, 1:
				ts = srcNow
			case 2:
				ts = 0
			case 3:
				ts = srcNow - 1 - uint32(c.Intn(10, "ts_past"))
			case 4:
				ts = srcNow + 1 + uint32(c.Intn(3, "ts_fut"))
			case 5:
				ts = srcNow + 4 + uint32(c.Intn(200, "ts_fut_far"))
			case 6:
				ts = srcNow - 11 - uint32(c.Intn(300, "ts_past_far"))
			case 7:
				ts = []uint32{math.MaxUint32, math.MaxUint32 - 59, srcNow + 100000, 1 << 31}[c.Intn(4, "ts_huge")]
			case 8:
				ts = []uint32{1, 59, 60, srcNow - 100000}[c.Intn(4, "ts_tiny")]
			default:
				ts = srcNow - uint32(c.Intn(3, "ts_recent"))
			}
			ev := &w2Ev{id: len(w.events), series: s, bit: len(s.events), ts: ts, kind: c.Intn(3, "kind")}
			s.events = append(s.events, ev)
			w.events = append(w.events, ev)
			actor := fmt.Sprintf("src%d", src)
			r.Sched("event", actor)
			for ai, a := range w.agents {
				variant := 0
				if ai == 1 || c.Intn(4, "perm_a") == 3 {
					variant = 1 + c.Intn(1<<15-1, "variant")
				}
				w.apply(a, ai, ev, variant)
			}
			md := w.metrics[mi]
			line := fmt.Sprintf("ev=%d metric=%d res=%d sid=%d bit=%d ts=%d kind=%d", ev.id, md.meta.MetricID, md.res, s.sid, ev.bit, ts, ev.kind)
			for ai, a := range w.agents {
				for si := range a.shards {
					if p := ev.place[ai][si]; p.offered {
						line += fmt.Sprintf(" | %s/%d C=%d S=%d acc=%v%s clamp=%d row=%d", a.name, si, p.cur, p.send, p.accepted, p.reason, p.clamped, p.rowTs)
					}
				}
			}
			r.Event(actor, "%s", line)
		case k == 16: // a stalled consumer takes one bucket
			ai := c.Intn(len(w.agents), "drain_agent")
			si := c.Intn(nShards, "drain_shard")
			r.Sched("drain", "consumer")
			if w.drainOne(w.agents[ai], si) {
				r.Probe("manual_drain")
			}
		case k == 17: // stall / resume a consumer
			if !faulty {
				continue
			}
			ai := c.Intn(len(w.agents), "stall_agent")
			si := c.Intn(nShards, "stall_shard")
			ws := w.agents[ai].shards[si]
			ws.stalled = !ws.stalled
			if twin == 1 && ai == 0 { // the mirrored twin shares the fate of A's consumers
				w.agents[1].shards[si].stalled = ws.stalled
			}
			if ws.stalled {
				r.Fault("consumer_stall")
			}
			r.Sched("stall", "consumer")
			r.Event("consumer", "%s/%d stalled=%v", w.agents[ai].name, si, ws.stalled)
		case k == 18: // the clock moves while no flusher runs (process not scheduled)
			if !faulty {
				continue
			}
			d := time.Duration(c.Intn(4000, "idle_ms")) * time.Millisecond
			w.now = w.now.Add(d)
			for _, a := range w.agents {
				a.disturbed = true
			}
			r.Sched("idle", "clock")
			r.Event("clock", "advance %v without a flush", d)
		case k == 19: // one shard's part of a flusher iteration
			ai := c.Intn(len(w.agents), "fs_agent")
			si := c.Intn(nShards, "fs_shard")
			if w.agents[ai].stopping {
				continue
			}
			if c.Intn(2, "fs_adv") == 1 { // the iteration reached this shard a little later than the other one
				w.now = w.now.Add(time.Duration(1+c.Intn(14, "fs_adv_100ms")) * 100 * time.Millisecond)
			}
			r.Sched("flush_shard", "flusher")
			w.flush(w.agents[ai], si)
		case k == 20: // a mapping arrives (as if an aggregator response carried it)
			ai := c.Intn(len(w.agents), "map_agent")
			vi := c.Intn(len(w.vocab), "map_word")
			w.agents[ai].ag.mappingsCache.AddValues(uint32(w.now.Unix()), []pcache.MappingPair{{Str: w.vocab[vi], Value: int32(1000 + vi)}})
			r.Sched("mapping", "mapper")
			r.Event("mapper", "%s learns %s", w.agents[ai].name, w.vocab[vi])
		default: // k == 21: shutdown progress
			for _, a := range w.agents {
				if !a.stopping {
					continue
				}
				if shutdownMode == 1 {
					all := true
					for _, ws := range a.shards {
						all = all && ws.stopped
					}
					if !all {
						a.ag.ShutdownFlusher()
						for _, ws := range a.shards {
							ws.stopped = true
						}
						r.Sched("shutdown", "shutdown")
						r.Event("shutdown", "%s ShutdownFlusher", a.name)
					}
				} else {
					for si, ws := range a.shards {
						if !ws.stopped {
							ws.sh.StopReceivingIncomingData()
							ws.stopped = true
							r.Sched("shutdown", "shutdown")
							r.Event("shutdown", "%s/%d StopReceivingIncomingData", a.name, si)
							break // one shard per step: events interleave between the shards' stops
						}
					}
				}
			}
		}
	}
	if r.Failed() {
		return
	}
	// ---- end of run: shutdown as statshouse.go does: ShutdownFlusher, (WaitFlusher), FlushAllData ----
	for _, a := range w.agents {
		a.stopping = true
		a.ag.ShutdownFlusher()
		r.Event("shutdown", "%s ShutdownFlusher (final)", a.name)
	}
	// events offered after shutdown must appear nowhere
	for i := 0; i < 2 && len(w.bySid) > 0; i++ {
		s := w.bySid[c.Intn(len(w.bySid), "late_series")]
		if len(s.events) >= w2MaxBits {
			continue
		}
		ev := &w2Ev{id: len(w.events), series: s, bit: len(s.events), ts: uint32(w.now.Unix()), kind: 0}
		s.events = append(s.events, ev)
		w.events = append(w.events, ev)
		for ai, a := range w.agents {
			w.apply(a, ai, ev, 0)
		}
		r.Event("src0", "ev=%d after shutdown", ev.id)
	}
	for _, a := range w.agents {
		var wg sync.WaitGroup
		collected := make([][]*data_model.MetricsBucket, len(a.shards))
		for si, ws := range a.shards {
			wg.Add(1)
			go func(si int, ch chan *data_model.MetricsBucket) {
				defer wg.Done()
				for b := range ch {
					collected[si] = append(collected[si], b)
				}
			}(si, ws.sh.BucketsToPreprocess)
		}
		n := a.ag.FlushAllData()
		wg.Wait()
		r.Event("shutdown", "%s FlushAllData nonEmpty=%d", a.name, n)
		for si := range a.shards {
			for _, b := range collected[si] {
				w.record(a, si, b)
			}
		}
	}
	w.oracle()
}

func (w *w2World) oracle() {
	r := w.r
	// 1. decode every row of every bucket into events
	for ai, a := range w.agents {
		for si, ws := range a.shards {
			var last uint32
			for bi, b := range ws.buckets {
				if bi > 0 && b.time <= last {
					r.Probe("bucket_time_not_increasing")
				}
				last = b.time
				for _, row := range b.rows {
					s := w.series[[2]int32{row.metric, row.series}]
					cnt := row.count
					if s == nil || row.top != 0 || cnt < 1 || cnt != math.Trunc(cnt) || cnt >= math.Ldexp(1, len(s.events)) {
						r.Fail(w2Prop, "phantom_row", "row", "%s shard %d bucket %d holds a row (metric %d series %d ts %d count %v) that is not a sum of offered events",
							a.name, si, b.time, row.metric, row.series, row.ts, cnt)
						return
					}
					bits := uint64(cnt)
					if bits&(bits-1) != 0 {
						r.Probe("merged_row")
					}
					for bit := 0; bits != 0; bit, bits = bit+1, bits>>1 {
						if bits&1 == 0 {
							continue
						}
						p := &s.events[bit].place[ai][si]
						p.seen++
						if p.seen == 1 {
							p.gotRowTs, p.gotTime = row.ts, b.time
						} else if p.seen == 2 {
							// keep the second sighting for the message
							r.Event("oracle", "event %d seen again in bucket %d (first in %d)", s.events[bit].id, b.time, p.gotTime)
						}
					}
				}
			}
		}
	}
	// 2. per event and placement
	for _, ev := range w.events {
		md := w.metrics[ev.series.mi]
		for ai, a := range w.agents {
			for si := range a.shards {
				p := &ev.place[ai][si]
				role := []string{"primary", "secondary"}[p.role]
				sig := fmt.Sprintf("res%d/%s", md.res, role)
				where := fmt.Sprintf("event %d (metric %d res %d series %d ts %d) on %s shard %d (%s; at the call CurrentTime=%d SendTime=%d)",
					ev.id, md.meta.MetricID, md.res, ev.series.sid, ev.ts, a.name, si, role, p.cur, p.send)
				switch {
				case !p.offered:
					if p.seen != 0 {
						r.Fail(w2Prop, "event_on_wrong_shard", sig, "%s was never offered to this shard but appears in bucket %d", where, p.gotTime)
						return
					}
				case !p.accepted:
					if p.seen != 0 {
						r.Fail(w2Prop, "dropped_event_delivered", sig+"/"+p.reason, "%s was offered while the shard was not accepting (%s) but appears in bucket %d", where, p.reason, p.gotTime)
						return
					}
				case p.seen == 0:
					r.Fail(w2Prop, "event_lost", sig, "%s was accepted (clamped ts %d) but is in no bucket handed to preprocessing", where, p.clamped)
					return
				case p.seen > 1:
					r.Fail(w2Prop, "event_duplicated", sig, "%s was accepted once but appears in %d buckets", where, p.seen)
					return
				case p.gotRowTs != p.rowTs:
					r.Fail(w2Prop, "row_timestamp", sig, "%s: row timestamp %d, expected %d (clamped %d rounded down to %d s)", where, p.gotRowTs, p.rowTs, p.clamped, md.res)
					return
				case p.gotTime < p.clamped:
					r.Fail(w2Prop, "bucket_before_timestamp", sig, "%s: sent in bucket %d, earlier than its clamped timestamp %d", where, p.gotTime, p.clamped)
					return
				}
				if p.accepted {
					w.r.Extra["events_placed"]++
				}
			}
		}
	}
	// 3. twins: same series, same (clamped) second, not late on both => same send second
	if len(w.agents) < 2 {
		return
	}
	for _, ev := range w.events {
		md := w.metrics[ev.series.mi]
		for si := range w.agents[0].shards {
			pa, pb := &ev.place[0][si], &ev.place[1][si]
			if !pa.accepted || !pb.accepted || pa.clamped != pb.clamped {
				continue
			}
			if !pa.notLate || !pb.notLate {
				continue
			}
			// A row that waited in the ring while the send cursor jumped ahead by whole ring turns
			// (machine slept) is sent late by construction; "not late" in the statement excludes it.
			if pa.gotTime-pa.send >= superQueueLen || pb.gotTime-pb.send >= superQueueLen {
				r.Probe("twin_skipped_ring_turn")
				continue
			}
			w.r.Extra["twin_pairs_compared"]++
			if pa.gotTime != pb.gotTime {
				r.Fail(w2Prop, "twin_mismatch", fmt.Sprintf("res%d", md.res),
					"event %d (metric %d res %d series %d, clamped ts %d, not late on either agent) was sent in second %d by agent A and in second %d by agent B (different mapping cache / tag order) on shard %d",
					ev.id, md.meta.MetricID, md.res, ev.series.sid, pa.clamped, pa.gotTime, pb.gotTime, si)
				return
			}
		}
	}
}

func TestVerifW2(t *testing.T) {
	verifsim.Main(t, &verifsim.World{Name: "w2_agent_shard", Props: []string{w2Prop}, Exec: w2Exec})
}
