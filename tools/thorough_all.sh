#!/bin/bash
# usage: tools/thorough_all.sh <seed> [props...]  -- runs the thorough tier of every claimed property, one after the other
cd "$(dirname "$0")/.."
SEED=${1:-101}; shift
PROPS="$@"
[ -z "$PROPS" ] && PROPS=$(python3 -c "import json;print(' '.join(c['property_id'] for c in json.load(open('MANIFEST.json'))['checks']))")
for p in $PROPS; do
  echo "=== $p seed=$SEED $(date +%H:%M:%S)"
  ./check $p --tier thorough --seed $SEED 2>&1 | grep -v "^20[0-9][0-9]/" | tail -40 | cut -c1-300
  echo "=== $p exit=${PIPESTATUS[0]}"
done
