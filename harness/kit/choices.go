// Package verifsim is the deterministic-simulation kit used by the /verif harness worlds.
// It lives in /verif/harness/kit and is overlaid into the module at build time.
package verifsim

import (
	"encoding/binary"
	"hash/fnv"
)

// SplitMix64 PRNG. One instance per run; the only source of sequential randomness.
type SplitMix struct{ s uint64 }

func NewSplitMix(seed uint64) *SplitMix { return &SplitMix{s: seed} }

func (r *SplitMix) Next() uint64 {
	r.s += 0x9E3779B97F4A7C15
	z := r.s
	z = (z ^ (z >> 30)) * 0xBF58476D1CE4E5B9
	z = (z ^ (z >> 27)) * 0x94D049BB133111EB
	return z ^ (z >> 31)
}

// Mix derives an independent seed from parts (run index, world id, ...).
func Mix(parts ...uint64) uint64 {
	r := SplitMix{s: 0x1234567}
	var acc uint64
	for _, p := range parts {
		r.s ^= p
		acc = r.Next()
		r.s = acc
	}
	return acc
}

// Draw is one recorded decision.
type Draw struct {
	Label string `json:"l"`
	N     int    `json:"n"`
	V     int    `json:"v"`
}

// Choices is the single decision source of a run. It first consumes Prefix (replay / minimise),
// then either the PRNG (search mode) or zeros (replay mode). Value 0 is always the benign option.
type Choices struct {
	Seed   uint64
	Prefix []int
	Replay bool // after the prefix: zeros instead of PRNG
	rng    *SplitMix
	pos    int
	Trace  []Draw
}

func NewChoices(seed uint64) *Choices {
	return &Choices{Seed: seed, rng: NewSplitMix(seed)}
}

func NewReplay(seed uint64, prefix []int) *Choices {
	return &Choices{Seed: seed, rng: NewSplitMix(seed), Prefix: prefix, Replay: true}
}

// Intn returns a value in [0,n). n<=1 returns 0 without recording.
func (c *Choices) Intn(n int, label string) int {
	if n <= 1 {
		return 0
	}
	var v int
	if c.pos < len(c.Prefix) {
		v = c.Prefix[c.pos]
		if v < 0 {
			v = 0
		}
		if v >= n {
			v = v % n
		}
	} else if c.Replay {
		v = 0
	} else {
		v = int(c.rng.Next() % uint64(n))
	}
	c.pos++
	c.Trace = append(c.Trace, Draw{label, n, v})
	return v
}

// Chance returns true with probability num/den; false (benign) is value 0.
func (c *Choices) Chance(num, den int, label string) bool {
	if num <= 0 {
		return false
	}
	// value 0..den-1, true iff value >= den-num, so that 0 is benign.
	return c.Intn(den, label) >= den-num
}

// Range returns a value in [lo,hi] (inclusive); lo is the benign option.
func (c *Choices) Range(lo, hi int, label string) int {
	if hi <= lo {
		return lo
	}
	return lo + c.Intn(hi-lo+1, label)
}

// Pick returns an index biased toward small values is NOT done: uniform.
func (c *Choices) Values() []int {
	out := make([]int, len(c.Trace))
	for i, d := range c.Trace {
		out[i] = d.V
	}
	return out
}

// Keyed returns a hash-derived value in [0,n) that depends only on the run seed and the key
// parts, not on the order in which the system under test asks. Used for per-message decisions.
func (c *Choices) Keyed(n uint64, parts ...uint64) uint64 {
	if n == 0 {
		return 0
	}
	h := fnv.New64a()
	var b [8]byte
	binary.LittleEndian.PutUint64(b[:], c.Seed)
	h.Write(b[:])
	for _, p := range parts {
		binary.LittleEndian.PutUint64(b[:], p)
		h.Write(b[:])
	}
	// final avalanche
	x := SplitMix{s: h.Sum64()}
	return x.Next() % n
}

func HashStr(s string) uint64 {
	h := fnv.New64a()
	h.Write([]byte(s))
	return h.Sum64()
}
