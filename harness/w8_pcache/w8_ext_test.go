//go:build verif

package pcache_test

// W8, external half: the real metajournal.MappingsStorage as the incremental-append owner of the
// "append" runs. metajournal imports pcache (through agent), so only the external test package of
// pcache can import it; the world itself lives in package pcache and reaches this code through
// pcache.W8NewRealOwner.

import (
	"context"
	"io"
	"log"

	"github.com/VKCOM/statshouse-go"

	"github.com/VKCOM/statshouse/internal/data_model"
	"github.com/VKCOM/statshouse/internal/data_model/gen2/tlstatshouse"
	"github.com/VKCOM/statshouse/internal/metajournal"
	"github.com/VKCOM/statshouse/internal/pcache"
)

func init() {
	// MappingsStorage reports through the global statshouse client (1 s ticker goroutine, UDP to
	// localhost) and logs every update: stop the client (metrics then pile up to a bounded bucket and
	// are never sent) and drop the log lines
	_ = statshouse.Close()
	log.SetOutput(io.Discard)
	pcache.W8NewRealOwner = func(st *data_model.ChunkedStorage2) pcache.W8Owner {
		// one shard; st was read to the end by the world (MappingsStorage.load is unexported and
		// LoadMappingsFiles wants *os.File), so the mappings map starts empty and every fed pair is new
		ms := metajournal.MakeMappings(context.Background(), 0, false, 0, []*data_model.ChunkedStorage2{st})
		return &w8Real{ms: ms}
	}
}

type w8Real struct {
	ms  *metajournal.MappingsStorage
	ver int32
}

func (o *w8Real) Feed(pairs []pcache.W8Pair) {
	if len(pairs) == 0 {
		return
	}
	batch := make([]tlstatshouse.Mapping, 0, len(pairs))
	for _, p := range pairs {
		batch = append(batch, tlstatshouse.Mapping{Str: p.Str, Value: p.Value})
	}
	o.ver++
	ver := o.ver
	err := o.ms.UpdateMappingsUntilVersion(ver, 0, func(ctx context.Context, lastVersion int32, returnIfEmpty bool) ([]tlstatshouse.Mapping, int32, int32, error) {
		b := batch
		batch = nil
		return b, ver, ver, nil
	})
	if err != nil {
		panic("w8 harness: UpdateMappingsUntilVersion: " + err.Error())
	}
}

func (o *w8Real) Save() (bool, error) { return o.ms.Save() }
