#!/bin/bash
# usage: tools/thorough_short.sh <seed> <budget_s> [props...]  -- thorough-tier configuration of every claimed property with a shorter wall budget
cd "$(dirname "$0")/.."
SEED=${1:-606}; BUDGET=${2:-240}; shift; shift
PROPS="$@"
[ -z "$PROPS" ] && PROPS=$(python3 -c "import json;print(' '.join(c['property_id'] for c in json.load(open('MANIFEST.json'))['checks']))")
for p in $PROPS; do
  echo "=== $p seed=$SEED $(date +%H:%M:%S)"
  VERIF_NO_EVIDENCE=1 ./check $p --tier thorough --seed $SEED --budget $BUDGET 2>&1 | grep -v "^20[0-9][0-9]/" | tail -30 | cut -c1-300
  echo "=== $p exit=${PIPESTATUS[0]}"
done
