module github.com/VKCOM/statshouse

go 1.24.11

require (
	github.com/ClickHouse/ch-go v0.69.0
	github.com/ClickHouse/clickhouse-go/v2 v2.42.0
	github.com/VKCOM/statshouse-go v0.5.17
	github.com/VKCOM/tl v1.5.7
	github.com/cloudflare/tableflip v1.2.3
	github.com/fsnotify/fsnotify v1.9.0
	github.com/go-kit/log v0.2.1
	github.com/gogo/protobuf v1.3.2
	github.com/golang-jwt/jwt/v4 v4.5.2
	github.com/google/btree v1.1.3
	github.com/google/go-cmp v0.7.0
	github.com/google/uuid v1.6.0
	github.com/gorilla/handlers v1.5.2
	github.com/gorilla/mux v1.8.1
	github.com/grafana/grafana-plugin-sdk-go v0.284.0
	github.com/hrissan/tdigest v0.0.3
	github.com/mailru/easyjson v0.9.1
	github.com/petar/GoLLRB v0.0.0-20210522233825-ae3b015fd3e9
	github.com/pierrec/lz4 v2.6.1+incompatible
	github.com/pkg/errors v0.9.1
	github.com/prometheus/common v0.67.2
	github.com/prometheus/procfs v0.19.2
	github.com/prometheus/prometheus v0.36.2
	github.com/spf13/pflag v1.0.10
	github.com/stretchr/testify v1.11.1
	github.com/testcontainers/testcontainers-go v0.40.0
	github.com/testcontainers/testcontainers-go/modules/clickhouse v0.40.0
	github.com/tinylib/msgp v1.6.1
	github.com/xi2/xz v0.0.0-20171230120015-48954b6210f8
	github.com/zeebo/xxh3 v1.0.2
	go.uber.org/atomic v1.11.0
	go.uber.org/multierr v1.11.0
	go4.org/mem v0.0.0-20240501181205-ae6ca9944745
	golang.org/x/exp v0.0.0-20251209150349-8475f28825e9
	golang.org/x/image v0.30.0
	golang.org/x/sync v0.19.0
	golang.org/x/sys v0.39.0
	gonum.org/v1/plot v0.17.0
	google.golang.org/protobuf v1.36.11
	gopkg.in/yaml.v2 v2.4.0
	k8s.io/apimachinery v0.34.3
	pgregory.net/rand v1.0.2
	pgregory.net/rapid v1.2.0
)

require (
	codeberg.org/go-fonts/liberation v0.5.0 // indirect
	codeberg.org/go-latex/latex v0.2.0 // indirect
	codeberg.org/go-pdf/fpdf v0.11.1 // indirect
	dario.cat/mergo v1.0.2 // indirect
	git.sr.ht/~sbinet/gg v0.7.0 // indirect
	github.com/Azure/go-ansiterm v0.0.0-20250102033503-faa5f7b0171c // indirect
	github.com/Microsoft/go-winio v0.6.2 // indirect
	github.com/ajstarks/svgo v0.0.0-20211024235047-1546f124cd8b // indirect
	github.com/apache/arrow-go/v18 v18.4.1 // indirect
	github.com/aws/aws-sdk-go v1.44.20 // indirect
	github.com/cenkalti/backoff/v4 v4.3.0 // indirect
	github.com/cenkalti/backoff/v5 v5.0.3 // indirect
	github.com/containerd/errdefs v1.0.0 // indirect
	github.com/containerd/errdefs/pkg v0.3.0 // indirect
	github.com/containerd/log v0.1.0 // indirect
	github.com/containerd/platforms v0.2.1 // indirect
	github.com/cpuguy83/dockercfg v0.3.2 // indirect
	github.com/dchest/siphash v1.2.3 // indirect
	github.com/dgryski/go-maglev v0.0.0-20200611225407-8961b9b1b8e6 // indirect
	github.com/distribution/reference v0.6.0 // indirect
	github.com/docker/docker v28.5.2+incompatible // indirect
	github.com/docker/go-connections v0.6.0 // indirect
	github.com/docker/go-units v0.5.0 // indirect
	github.com/ebitengine/purego v0.9.1 // indirect
	github.com/frankban/quicktest v1.14.6 // indirect
	github.com/go-faster/xor v1.0.0 // indirect
	github.com/go-ole/go-ole v1.3.0 // indirect
	github.com/goccy/go-json v0.10.5 // indirect
	github.com/gogo/googleapis v1.4.1 // indirect
	github.com/golang/freetype v0.0.0-20170609003504-e2365dfdc4a0 // indirect
	github.com/gotd/ige v0.2.2 // indirect
	github.com/grafana/otel-profiling-go v0.5.1 // indirect
	github.com/grafana/pyroscope-go/godeltaprof v0.1.9 // indirect
	github.com/grpc-ecosystem/go-grpc-middleware/providers/prometheus v1.1.0 // indirect
	github.com/grpc-ecosystem/go-grpc-middleware/v2 v2.3.3 // indirect
	github.com/grpc-ecosystem/grpc-gateway/v2 v2.27.2 // indirect
	github.com/hashicorp/errwrap v1.1.0 // indirect
	github.com/hashicorp/go-multierror v1.1.1 // indirect
	github.com/jaegertracing/jaeger-idl v0.5.0 // indirect
	github.com/jmespath/go-jmespath v0.4.0 // indirect
	github.com/lufia/plan9stats v0.0.0-20251013123823-9fd1530e3ec3 // indirect
	github.com/magiconair/properties v1.8.10 // indirect
	github.com/moby/docker-image-spec v1.3.1 // indirect
	github.com/moby/go-archive v0.1.0 // indirect
	github.com/moby/patternmatcher v0.6.0 // indirect
	github.com/moby/sys/sequential v0.6.0 // indirect
	github.com/moby/sys/user v0.4.0 // indirect
	github.com/moby/sys/userns v0.1.0 // indirect
	github.com/moby/term v0.5.2 // indirect
	github.com/morikuni/aec v1.1.0 // indirect
	github.com/munnerz/goautoneg v0.0.0-20191010083416-a7dc8b61c822 // indirect
	github.com/opencontainers/go-digest v1.0.0 // indirect
	github.com/opencontainers/image-spec v1.1.1 // indirect
	github.com/patrickmn/go-cache v2.1.0+incompatible // indirect
	github.com/power-devops/perfstat v0.0.0-20240221224432-82ca36839d55 // indirect
	github.com/prometheus/common/sigv4 v0.1.0 // indirect
	github.com/rivo/uniseg v0.4.7 // indirect
	github.com/shirou/gopsutil/v4 v4.25.11 // indirect
	github.com/sirupsen/logrus v1.9.3 // indirect
	github.com/tklauser/go-sysconf v0.3.16 // indirect
	github.com/tklauser/numcpus v0.11.0 // indirect
	github.com/yusufpapurcu/wmi v1.2.4 // indirect
	go.opentelemetry.io/auto/sdk v1.2.1 // indirect
	go.opentelemetry.io/contrib/instrumentation/google.golang.org/grpc/otelgrpc v0.63.0 // indirect
	go.opentelemetry.io/contrib/instrumentation/net/http/httptrace/otelhttptrace v0.63.0 // indirect
	go.opentelemetry.io/contrib/instrumentation/net/http/otelhttp v0.64.0 // indirect
	go.opentelemetry.io/contrib/propagators/jaeger v1.38.0 // indirect
	go.opentelemetry.io/contrib/samplers/jaegerremote v0.32.0 // indirect
	go.opentelemetry.io/otel/exporters/otlp/otlptrace v1.38.0 // indirect
	go.opentelemetry.io/otel/exporters/otlp/otlptrace/otlptracegrpc v1.38.0 // indirect
	go.opentelemetry.io/otel/sdk v1.39.0 // indirect
	go.opentelemetry.io/proto/otlp v1.7.1 // indirect
	go.yaml.in/yaml/v2 v2.4.3 // indirect
	go.yaml.in/yaml/v3 v3.0.4 // indirect
	golang.org/x/crypto v0.46.0 // indirect
	golang.org/x/net v0.48.0 // indirect
	golang.org/x/telemetry v0.0.0-20251203150158-8fff8a5912fc // indirect
	golang.org/x/text v0.32.0 // indirect
	golang.org/x/time v0.13.0 // indirect
	google.golang.org/genproto/googleapis/api v0.0.0-20250929231259-57b25ae835d4 // indirect
	google.golang.org/genproto/googleapis/rpc v0.0.0-20251002232023-7c0ddcbb5797 // indirect
	k8s.io/api v0.34.1 // indirect
	k8s.io/client-go v0.34.1 // indirect
)

require (
	github.com/alecthomas/units v0.0.0-20240927000941-0f3dac36c52b // indirect
	github.com/andybalholm/brotli v1.2.0 // indirect
	github.com/anishathalye/porcupine v1.3.0
	github.com/armon/go-metrics v0.4.1 // indirect
	github.com/beorn7/perks v1.0.1 // indirect
	github.com/cespare/xxhash/v2 v2.3.0 // indirect
	github.com/cheekybits/genny v1.0.0 // indirect
	github.com/davecgh/go-spew v1.1.2-0.20180830191138-d8f796af33cc // indirect
	github.com/dmarkham/enumer v1.6.1 // indirect
	github.com/fatih/color v1.16.0 // indirect
	github.com/felixge/httpsnoop v1.0.4 // indirect
	github.com/go-faster/city v1.0.1 // indirect
	github.com/go-faster/errors v0.7.1 // indirect
	github.com/go-logfmt/logfmt v0.6.1 // indirect
	github.com/go-logr/logr v1.4.3 // indirect
	github.com/go-logr/stdr v1.2.2 // indirect
	github.com/golang/protobuf v1.5.4 // indirect
	github.com/google/flatbuffers v25.2.10+incompatible // indirect
	github.com/grafana/regexp v0.0.0-20250905093917-f7b3be9d1853 // indirect
	github.com/hashicorp/consul/api v1.32.0 // indirect
	github.com/hashicorp/go-cleanhttp v0.5.2 // indirect
	github.com/hashicorp/go-hclog v1.6.3 // indirect
	github.com/hashicorp/go-immutable-radix v1.3.1 // indirect
	github.com/hashicorp/go-plugin v1.7.0 // indirect
	github.com/hashicorp/go-rootcerts v1.0.2 // indirect
	github.com/hashicorp/go-version v1.8.0 // indirect
	github.com/hashicorp/golang-lru v0.6.0 // indirect
	github.com/hashicorp/serf v0.10.1 // indirect
	github.com/hashicorp/yamux v0.1.2 // indirect
	github.com/jackc/puddle/v2 v2.2.2 // indirect
	github.com/josharian/intern v1.0.0 // indirect
	github.com/jpillora/backoff v1.0.0 // indirect
	github.com/json-iterator/go v1.1.12 // indirect
	github.com/klauspost/compress v1.18.2 // indirect
	github.com/klauspost/cpuid/v2 v2.3.0 // indirect
	github.com/mattetti/filebuffer v1.0.1 // indirect
	github.com/mattn/go-colorable v0.1.13 // indirect
	github.com/mattn/go-isatty v0.0.20 // indirect
	github.com/mattn/go-runewidth v0.0.16 // indirect
	github.com/mitchellh/go-homedir v1.1.0 // indirect
	github.com/mitchellh/mapstructure v1.5.0 // indirect
	github.com/modern-go/concurrent v0.0.0-20180306012644-bacd9c7ef1dd // indirect
	github.com/modern-go/reflect2 v1.0.3-0.20250322232337-35a7c28c31ee // indirect
	github.com/mwitkow/go-conntrack v0.0.0-20190716064945-2f068394615f // indirect
	github.com/myxo/gofs v0.0.8
	github.com/oklog/run v1.2.0 // indirect
	github.com/olekukonko/tablewriter v0.0.5 // indirect
	github.com/pascaldekloe/name v1.0.1 // indirect
	github.com/paulmach/orb v0.12.0 // indirect
	github.com/philhofer/fwd v1.2.0 // indirect
	github.com/pierrec/lz4/v4 v4.1.22 // indirect
	github.com/pmezard/go-difflib v1.0.1-0.20181226105442-5d4384ee4fb2 // indirect
	github.com/prometheus/client_golang v1.23.2 // indirect
	github.com/prometheus/client_model v0.6.2 // indirect
	github.com/segmentio/asm v1.2.1 // indirect
	github.com/shopspring/decimal v1.4.0 // indirect
	go.opentelemetry.io/otel v1.39.0 // indirect
	go.opentelemetry.io/otel/metric v1.39.0 // indirect
	go.opentelemetry.io/otel/trace v1.39.0 // indirect
	go.uber.org/zap v1.27.1
	golang.org/x/mod v0.31.0 // indirect
	golang.org/x/oauth2 v0.33.0 // indirect
	golang.org/x/tools v0.40.0 // indirect
	golang.org/x/xerrors v0.0.0-20240903120638-7835f813f4da // indirect
	google.golang.org/grpc v1.76.0 // indirect
	gopkg.in/yaml.v3 v3.0.1 // indirect
)

replace github.com/myxo/gofs => /verif/third_party/gofs-sim

replace pgregory.net/rand => /verif/third_party/pgrand
