//go:build verif

package balancer

// W12: balancer ingress handler + Egress against a simulated upstream, inside a synctest bubble
// (property C31: every accepted packet is forwarded upstream promptly, in order, byte for byte;
// drops only when both buffers are full, counted and reported).
//
// Real: handler.HandleMetricsBatchRaw, Egress (tcpPool.writeLocked, both tcpSender.sendLoop,
// pktBuffer push/pop/swap, reconnect loop, write deadlines, stuck-reconnect, DNS refresh loop,
// reportWouldBlockIfAny). Simulated: the upstream (connections handed out through verifhook.Dial
// are in-memory sockets with a bounded send buffer, write deadlines, and a reader the scheduler
// controls: fast / stalled / slow (explicit pulls) / reset; addresses can refuse or black-hole
// dials), the clock (bubble), the address pool (IP literals, no resolver).

import (
	"bytes"
	"encoding/binary"
	"errors"
	"fmt"
	"io"
	"log"
	"net"
	"os"
	"runtime"
	"runtime/debug"
	"sort"
	"strings"
	"sync"
	"sync/atomic"
	"testing"
	"time"

	"github.com/VKCOM/statshouse/internal/data_model/gen2/tlstatshouse"
	"github.com/VKCOM/statshouse/internal/receiver"
	"github.com/VKCOM/statshouse/internal/verifhook"
	"github.com/VKCOM/statshouse/internal/verifsim"
)

const w12Prop = "C31"

func TestVerifW12(t *testing.T) {
	log.SetOutput(io.Discard) // the senders log every reconnect attempt
	// A GC cycle that starts while the scheduler goroutine is in the middle of an action preempts it
	// and lets woken senders run early (each Egress allocates ~50 MB, so cycles would be frequent).
	// Collect explicitly between runs instead.
	debug.SetGCPercent(-1)
	verifsim.Main(t, &verifsim.World{Name: "w12_balancer", Props: []string{w12Prop}, Exec: w12Exec})
}

func w12Exec(t *testing.T, r *verifsim.Run) {
	runtime.GC()
	verifsim.Bubble(t, func(t *testing.T) { w12Run(r) })
}

// ---------------------------------------------------------------- workload packets

var w12Magic = [4]byte{'W', '1', '2', 'P'}

const w12MinPayload = 8

// w12Payload is the body of workload packet idx: magic, index, deterministic filler.
func w12Payload(idx, n int) []byte {
	if n < w12MinPayload {
		n = w12MinPayload
	}
	b := make([]byte, n)
	copy(b, w12Magic[:])
	binary.LittleEndian.PutUint32(b[4:], uint32(idx))
	x := uint32(idx)*2654435761 + 977
	for i := 8; i < n; i++ {
		x = x*1664525 + 1013904223
		b[i] = byte(x >> 24)
	}
	return b
}

type w12Pkt struct {
	n        int
	tAccept  time.Duration
	accepted bool
	seen     int // times it appeared in an upstream read stream
	seenT    time.Duration
	seenConn int
}

// ---------------------------------------------------------------- simulated upstream socket

var errW12Reset = errors.New("w12: connection reset by peer")
var errW12Refused = errors.New("w12: connection refused")
var errW12DNS = errors.New("w12: resolver failure")

type w12Timeout struct{}

func (w12Timeout) Error() string   { return "w12: i/o timeout" }
func (w12Timeout) Timeout() bool   { return true }
func (w12Timeout) Temporary() bool { return true }
func (w12Timeout) Is(target error) bool {
	return target == os.ErrDeadlineExceeded
}

type w12Chunk struct {
	end int // offset in rd after this chunk
	t   time.Duration
}

// w12WriteTimeout is one Write call that failed on the write deadline.
type w12WriteTimeout struct {
	t       time.Duration
	paused  time.Duration // how long the upstream was not reading during the write timeout before t
	dead    bool          // the peer had died silently
	blocked bool          // the call waited for socket buffer space (otherwise: deadline already over at the call)
	report  bool
	idx     int // workload packet carried by the call, -1 if none
}

type w12Frame struct {
	kind int // 0 workload packet, 1 would-block report
	idx  int
	t    time.Duration
}

// w12Conn is the balancer's end of an upstream connection: Write goes into a bounded send buffer
// (the "socket buffer"); the upstream consumes it immediately (fast) or only when the scheduler
// pulls (manual = stalled/slow). Reset discards unread bytes and fails writers.
type w12Conn struct {
	w    *w12World
	id   int
	addr string

	mu           sync.Mutex
	cond         *sync.Cond
	cap          int
	fast         bool
	everManual   bool
	dead         bool   // the peer died silently: it never reads again and never resets (only the sender can end this connection)
	buf          []byte // accepted by Write, not yet read by the upstream
	wr           []byte // everything accepted by Write
	rd           []byte // everything the upstream has read
	chunks       []w12Chunk
	localClosed  bool
	remoteReset  bool
	deadline     time.Time
	dtimer       *time.Timer
	failedW      int     // Write calls that returned an error
	failedIdx    []int   // workload packets whose Write call failed (the sender issues one Write per frame)
	failedReport float64 // byte counts of would-block reports whose Write call failed
	blockedTO    int     // Write calls that sat on a full socket buffer until the write deadline
	staleDL      int     // Write calls failed only because the deadline had expired before the call on a healthy conn

	// periods in which the upstream did not read at once (stalled, slow, dead, receive window closed)
	pauses []w12Interval
	// trapReport (armed by the scheduler): the upstream closes its receive window at the moment the
	// sender starts writing a write-error report on this connection (window0: no byte of it is taken)
	// and keeps it closed until the scheduler lets it read again. A TCP peer may stop reading at any
	// byte; this picks the one byte boundary at which the sender's report write is in progress.
	trapReport     bool
	window0        bool
	trapped        int
	loggedTrapped  int
	loggedTimeouts int
	nWrites        int
	curReportOn    bool    // a Write call carrying a write-error report is in progress
	curReport      float64 // its value
	timeouts       []w12WriteTimeout
	longBlockedOK  int // Write calls that waited 2 s or more for the upstream to read and then completed

	// scheduler-side parse state
	parseOff    int
	hsDone      bool
	frames      []w12Frame
	lastIdx     int
	chunkPtr    int
	loggedOpen  bool
	loggedClose bool
	loggedReset bool
}

func (c *w12Conn) now() time.Duration { return time.Since(c.w.t0) }

// w12ReportValue decodes a would-block report body (TL1 boxed addMetricsBatch with one
// __src_client_write_err metric) and returns the byte count it carries.
func w12ReportValue(body []byte) (float64, error) {
	var batch tlstatshouse.AddMetricsBatch
	tail, err := batch.ReadTL1Boxed(body)
	if err != nil {
		return 0, err
	}
	if len(tail) != 0 || len(batch.Metrics) != 1 || batch.Metrics[0].Name != "__src_client_write_err" {
		return 0, errors.New("not a single __src_client_write_err metric")
	}
	var sum float64
	for _, v := range batch.Metrics[0].Value {
		sum += v
	}
	return sum, nil
}

func (c *w12Conn) noteFail(p []byte, n int) {
	c.failedW++
	if len(p) >= pktHeadLen+w12MinPayload && bytes.Equal(p[pktHeadLen:pktHeadLen+4], w12Magic[:]) {
		c.failedIdx = append(c.failedIdx, int(binary.LittleEndian.Uint32(p[pktHeadLen+4:])))
	} else if len(p) > pktHeadLen {
		if v, err := w12ReportValue(p[pktHeadLen:]); err == nil {
			c.failedReport += v
		}
	}
}

// pauseLocked opens / closes the current "upstream is not reading at once" period.
func (c *w12Conn) pauseLocked(on bool) {
	open := len(c.pauses) > 0 && c.pauses[len(c.pauses)-1].to < 0
	switch {
	case on && !open:
		c.pauses = append(c.pauses, w12Interval{c.now(), -1})
	case !on && open:
		c.pauses[len(c.pauses)-1].to = c.now()
	}
}

// pausedLocked: total time within [from, to] during which the upstream was not reading at once.
func (c *w12Conn) pausedLocked(from, to time.Duration) time.Duration {
	var sum time.Duration
	for _, iv := range c.pauses {
		a, b := iv.from, iv.to
		if b < 0 || b > to {
			b = to
		}
		if a < from {
			a = from
		}
		if b > a {
			sum += b - a
		}
	}
	return sum
}

func (c *w12Conn) noteTimeout(p []byte, blocked, report bool) {
	now := c.now()
	idx := -1
	if len(p) >= pktHeadLen+w12MinPayload && bytes.Equal(p[pktHeadLen:pktHeadLen+4], w12Magic[:]) {
		idx = int(binary.LittleEndian.Uint32(p[pktHeadLen+4:]))
	}
	c.timeouts = append(c.timeouts, w12WriteTimeout{t: now, paused: c.pausedLocked(now-c.w.writeTimeout, now),
		dead: c.dead, blocked: blocked, report: report, idx: idx})
}

func (c *w12Conn) deliverLocked(p []byte) {
	c.rd = append(c.rd, p...)
	c.chunks = append(c.chunks, w12Chunk{end: len(c.rd), t: c.now()})
}

func (c *w12Conn) Write(p []byte) (int, error) {
	c.mu.Lock()
	defer c.mu.Unlock()
	n := 0
	first := true
	isReport := false
	waitFrom := time.Duration(-1)
	if c.nWrites > 0 && len(p) > pktHeadLen && !(len(p) >= pktHeadLen+w12MinPayload && bytes.Equal(p[pktHeadLen:pktHeadLen+4], w12Magic[:])) {
		if v, err := w12ReportValue(p[pktHeadLen:]); err == nil {
			isReport = true
			c.curReportOn, c.curReport = true, v
			defer func() { c.curReportOn, c.curReport = false, 0 }()
			if c.trapReport && !c.dead && !c.localClosed && !c.remoteReset {
				c.trapReport = false
				c.fast, c.everManual, c.window0 = false, true, true
				c.pauseLocked(true)
				c.trapped++
			}
		}
	}
	c.nWrites++
	for {
		if c.localClosed {
			c.noteFail(p, n)
			return n, net.ErrClosed
		}
		if c.remoteReset {
			c.noteFail(p, n)
			return n, errW12Reset
		}
		if !c.deadline.IsZero() && !time.Now().Before(c.deadline) {
			if first && !c.everManual {
				c.staleDL++
			}
			if !first {
				c.blockedTO++
			}
			c.noteTimeout(p, !first, isReport)
			c.noteFail(p, n)
			return n, w12Timeout{}
		}
		first = false
		if n == len(p) {
			if waitFrom >= 0 && c.now()-waitFrom >= 2*time.Second {
				c.longBlockedOK++
			}
			return n, nil
		}
		if c.fast {
			c.wr = append(c.wr, p[n:]...)
			c.deliverLocked(p[n:])
			if waitFrom >= 0 && c.now()-waitFrom >= 2*time.Second {
				c.longBlockedOK++
			}
			return len(p), nil
		}
		space := c.cap - len(c.buf)
		if c.window0 {
			space = 0
		}
		if space > 0 {
			k := len(p) - n
			if k > space {
				k = space
			}
			c.buf = append(c.buf, p[n:n+k]...)
			c.wr = append(c.wr, p[n:n+k]...)
			n += k
			continue
		}
		if waitFrom < 0 {
			waitFrom = c.now()
		}
		c.cond.Wait()
	}
}

func (c *w12Conn) Read(p []byte) (int, error) { return 0, io.EOF }

func (c *w12Conn) Close() error {
	c.mu.Lock()
	defer c.mu.Unlock()
	if c.localClosed {
		return net.ErrClosed
	}
	c.localClosed = true
	if c.dtimer != nil {
		c.dtimer.Stop()
		c.dtimer = nil
	}
	c.cond.Broadcast()
	return nil
}

type w12NetAddr string

func (a w12NetAddr) Network() string { return "tcp" }
func (a w12NetAddr) String() string  { return string(a) }

func (c *w12Conn) LocalAddr() net.Addr               { return w12NetAddr("10.9.9.9:1") }
func (c *w12Conn) RemoteAddr() net.Addr              { return w12NetAddr(c.addr) }
func (c *w12Conn) SetDeadline(t time.Time) error     { return c.SetWriteDeadline(t) }
func (c *w12Conn) SetReadDeadline(t time.Time) error { return nil }
func (c *w12Conn) SetWriteDeadline(t time.Time) error {
	c.mu.Lock()
	defer c.mu.Unlock()
	if c.localClosed {
		return net.ErrClosed
	}
	c.deadline = t
	if c.dtimer != nil {
		c.dtimer.Stop()
		c.dtimer = nil
	}
	if t.IsZero() {
		return nil
	}
	d := time.Until(t)
	if d <= 0 {
		c.cond.Broadcast()
		return nil
	}
	c.dtimer = time.AfterFunc(d, func() {
		c.mu.Lock()
		c.cond.Broadcast()
		c.mu.Unlock()
	})
	return nil
}

// scheduler side

func (c *w12Conn) open() bool {
	c.mu.Lock()
	defer c.mu.Unlock()
	return !c.localClosed && !c.remoteReset
}

func (c *w12Conn) kill() {
	c.mu.Lock()
	defer c.mu.Unlock()
	c.fast, c.everManual, c.dead = false, true, true
	c.trapReport = false
	c.pauseLocked(true)
}

func (c *w12Conn) isDead() bool {
	c.mu.Lock()
	defer c.mu.Unlock()
	return c.dead
}

func (c *w12Conn) setFast(fast bool) {
	c.mu.Lock()
	defer c.mu.Unlock()
	if c.dead {
		return
	}
	c.fast = fast
	c.pauseLocked(!fast)
	if !fast {
		c.everManual = true
		return
	}
	c.window0 = false
	if len(c.buf) > 0 {
		c.deliverLocked(c.buf)
		c.buf = c.buf[:0]
	}
	c.cond.Broadcast()
}

func (c *w12Conn) pull(n int) int {
	c.mu.Lock()
	defer c.mu.Unlock()
	if n > len(c.buf) {
		n = len(c.buf)
	}
	if n > 0 {
		c.deliverLocked(c.buf[:n])
		c.buf = append(c.buf[:0], c.buf[n:]...)
		c.cond.Broadcast()
	}
	if c.window0 { // the upstream reads again (slowly): the window reopens
		c.window0 = false
		c.cond.Broadcast()
	}
	return n
}

// arm makes the upstream close its receive window when the next write-error report begins.
func (c *w12Conn) arm(on bool) {
	c.mu.Lock()
	defer c.mu.Unlock()
	c.trapReport = on
}

func (c *w12Conn) trappable() bool {
	c.mu.Lock()
	defer c.mu.Unlock()
	return !c.trapReport && !c.dead && c.fast && !c.localClosed && !c.remoteReset
}

func (c *w12Conn) pullable() bool {
	c.mu.Lock()
	defer c.mu.Unlock()
	return !c.fast && !c.dead && (len(c.buf) > 0 || c.window0)
}

func (c *w12Conn) reset() (unread int) {
	c.mu.Lock()
	defer c.mu.Unlock()
	if c.remoteReset {
		return 0
	}
	c.remoteReset = true
	unread = len(c.buf)
	c.buf = nil
	c.cond.Broadcast()
	return unread
}

func (c *w12Conn) stopTimer() {
	c.mu.Lock()
	if c.dtimer != nil {
		c.dtimer.Stop()
		c.dtimer = nil
	}
	c.mu.Unlock()
}

// ---------------------------------------------------------------- burst gate

// w12GateLocker replaces pktBuffer.cond.L (which is &pktBuffer.mu) by a locker that locks the same
// mutex, but first waits while a burst is in progress. A burst offers many packets at one instant
// "before any sender is scheduled"; the senders are woken by push's cond.Signal and would normally
// not run before the scheduler goroutine blocks, but the Go runtime may preempt it (GC, >10 ms time
// slice on a loaded machine) and let a sender swap a half-filled buffer. With the gate a woken
// sender parks (durably, on a channel) until the burst is over: the same legal schedule, made
// independent of preemption. Outside bursts the locker is a pass-through.
type w12GateLocker struct {
	mu   *sync.Mutex
	gate *atomic.Pointer[chan struct{}]
}

func (g *w12GateLocker) Lock() {
	if ch := g.gate.Load(); ch != nil {
		<-*ch
	}
	g.mu.Lock()
}

func (g *w12GateLocker) Unlock() { g.mu.Unlock() }

// ---------------------------------------------------------------- world

const (
	w12AddrUp = iota
	w12AddrRefuse
	w12AddrBlackhole
)

type w12Addr struct {
	mode          int
	downForGood   bool // the upstream at this address went away for the rest of the run (never healed)
	newConnManual bool
	dials         int
	refused       int
	blackholed    int
	logRefused    int
	logBlackholed int
}

type w12Interval struct{ from, to time.Duration } // to < 0: still open

type w12World struct {
	r  *verifsim.Run
	t0 time.Time

	mu      sync.Mutex // conns and address tables (the dial hook runs on sender goroutines)
	addrs   []string   // distinct, sorted
	addrSt  map[string]*w12Addr
	conns   []*w12Conn
	sockCap int

	eg  *Egress
	h   *handler
	key []byte

	// dials made while NewEgress is still sleeping are held until it returns, so that the moment a
	// sender gets its first connection does not depend on which start-up goroutine ran first
	startGate chan struct{}
	nextID    int
	burstGate atomic.Pointer[chan struct{}]

	pkts      []w12Pkt
	failovers int
	disturbed bool // see pushMany

	// effective configuration (read back after fillDefaults)
	reconnectDelay, dialTimeout, writeTimeout time.Duration
	bound, settle                             time.Duration

	faulty        []w12Interval
	faultsFired   int
	droppedFrames int64 // sum of len|payload sizes of dropped packets
	droppedBodies int64 // sum of payload sizes of dropped packets
	droppedCount  int
	reported      float64
	reportFrames  int
	lastWriteErr  uint64
	lastReconErr  uint64
	lastDNSErr    uint64
	dnsFailing    bool // the resolver fails (scheduler-controlled, through the verifhook.Resolve seam); guarded by mu
}

func (w *w12World) now() time.Duration { return time.Since(w.t0) }

// resolve is the address-resolution seam: nil targets = resolve the configured list as usual.
func (w *w12World) resolve(network, address string) ([]string, error) {
	w.mu.Lock()
	defer w.mu.Unlock()
	if w.dnsFailing {
		return nil, errW12DNS
	}
	return nil, nil
}

func (w *w12World) dial(network, addr string, timeout time.Duration) (net.Conn, error) {
	<-w.startGate
	w.mu.Lock()
	st := w.addrSt[addr]
	if st == nil {
		w.mu.Unlock()
		return nil, fmt.Errorf("w12: unknown address %q", addr)
	}
	st.dials++
	switch st.mode {
	case w12AddrRefuse:
		st.refused++
		w.mu.Unlock()
		return nil, errW12Refused
	case w12AddrBlackhole:
		st.blackholed++
		w.mu.Unlock()
		time.Sleep(timeout)
		return nil, w12Timeout{}
	}
	c := &w12Conn{w: w, addr: addr, cap: w.sockCap, fast: !st.newConnManual, everManual: st.newConnManual, lastIdx: -1}
	c.cond = sync.NewCond(&c.mu)
	if st.newConnManual {
		c.pauses = append(c.pauses, w12Interval{w.now(), -1})
	}
	w.conns = append(w.conns, c)
	w.mu.Unlock()
	return c, nil
}

// connList returns the connections in canonical order. Ids are given here (scheduler goroutine,
// system quiescent): connections made since the last call are numbered by address, because two
// senders that connect at the same instant (to different addresses) do so in an arbitrary order.
func (w *w12World) connList() []*w12Conn {
	w.mu.Lock()
	defer w.mu.Unlock()
	var fresh []*w12Conn
	for _, c := range w.conns {
		if c.id == 0 {
			fresh = append(fresh, c)
		}
	}
	sort.SliceStable(fresh, func(i, j int) bool { return fresh[i].addr < fresh[j].addr })
	for _, c := range fresh {
		w.nextID++
		c.id = w.nextID
	}
	out := append([]*w12Conn(nil), w.conns...)
	sort.Slice(out, func(i, j int) bool { return out[i].id < out[j].id })
	return out
}

func (w *w12World) openConns() []*w12Conn {
	var out []*w12Conn
	for _, c := range w.connList() {
		if c.open() {
			out = append(out, c)
		}
	}
	return out
}

// tick lets the system run to quiescence after an action and observes the upstream.
func (w *w12World) tick(d time.Duration) {
	if d < time.Microsecond {
		d = time.Microsecond
	}
	time.Sleep(d)
	verifsim.Wait()
	w.observe()
}

func (w *w12World) fail(clause, sig, format string, args ...any) {
	w.r.Fail(w12Prop, clause, sig, format, args...)
}

func (w *w12World) isFaultyNow() bool {
	w.mu.Lock()
	for _, a := range w.addrs {
		st := w.addrSt[a]
		if st.mode != w12AddrUp || st.newConnManual {
			w.mu.Unlock()
			return true
		}
	}
	conns := append([]*w12Conn(nil), w.conns...)
	w.mu.Unlock()
	for _, c := range conns {
		c.mu.Lock()
		bad := !c.localClosed && (c.remoteReset || !c.fast || c.trapReport)
		c.mu.Unlock()
		if bad {
			return true
		}
	}
	return false
}

func (w *w12World) noteHealth() {
	f := w.isFaultyNow()
	open := len(w.faulty) > 0 && w.faulty[len(w.faulty)-1].to < 0
	switch {
	case f && !open:
		w.faulty = append(w.faulty, w12Interval{w.now(), -1})
	case !f && open:
		w.faulty[len(w.faulty)-1].to = w.now()
	}
}

func (w *w12World) pointFault() { // an instantaneous upstream fault
	open := len(w.faulty) > 0 && w.faulty[len(w.faulty)-1].to < 0
	if !open {
		w.faulty = append(w.faulty, w12Interval{w.now(), w.now()})
	}
}

// healthyAround: no fault in [t-settle, t+bound] and the run lasted until t+bound.
func (w *w12World) healthyAround(t, end time.Duration) bool {
	if t+w.bound > end {
		return false
	}
	for _, iv := range w.faulty {
		to := iv.to
		if to < 0 {
			to = end + time.Hour
		}
		if iv.from <= t+w.bound && to >= t-w.settle {
			return false
		}
	}
	return true
}

// observe parses what the upstream has read since the last call, logs it, and checks the stream
// clauses (handshake, framing, byte-for-byte, order, exactly-once).
func (w *w12World) observe() {
	r := w.r
	for _, c := range w.connList() {
		c.mu.Lock()
		if !c.loggedOpen {
			c.loggedOpen = true
			r.Event("upstream", "t=%v conn c%d accepted on %s fast=%v", w.now(), c.id, c.addr, c.fast)
		}
		lo, hi, cnt := -1, -1, 0
		var lastAt time.Duration
		flush := func() {
			if cnt > 0 {
				r.Event("upstream", "t=%v c%d has read pkts %d..%d (%d), last at t=%v", w.now(), c.id, lo, hi, cnt, lastAt)
			}
			lo, hi, cnt = -1, -1, 0
		}
		for !r.Failed() {
			rest := c.rd[c.parseOff:]
			if !c.hsDone {
				if len(rest) < len(w.key) {
					if !bytes.HasPrefix(w.key, rest) {
						w.fail("stream_format", "bad-handshake", "conn c%d: handshake bytes %q, want prefix of %q", c.id, rest, w.key)
					}
					break
				}
				if !bytes.Equal(rest[:len(w.key)], w.key) {
					w.fail("stream_format", "bad-handshake", "conn c%d: handshake bytes %q, want %q", c.id, rest[:len(w.key)], w.key)
					break
				}
				c.hsDone = true
				c.parseOff += len(w.key)
				continue
			}
			if len(rest) < pktHeadLen {
				break
			}
			n := int(binary.LittleEndian.Uint32(rest))
			if n > receiver.MaxTCPFrameBody || n == 0 {
				flush()
				w.fail("stream_format", "bad-frame-length", "conn c%d: frame length %d at stream offset %d", c.id, n, c.parseOff)
				break
			}
			if len(rest) < pktHeadLen+n {
				break
			}
			body := rest[pktHeadLen : pktHeadLen+n]
			endOff := c.parseOff + pktHeadLen + n
			for c.chunkPtr < len(c.chunks) && c.chunks[c.chunkPtr].end < endOff {
				c.chunkPtr++
			}
			at := c.chunks[c.chunkPtr].t
			if n >= w12MinPayload && bytes.Equal(body[:4], w12Magic[:]) {
				idx := int(binary.LittleEndian.Uint32(body[4:]))
				if idx >= len(w.pkts) || !w.pkts[idx].accepted {
					flush()
					w.fail("stream_format", "unknown-packet", "conn c%d: frame carries packet #%d which was never accepted", c.id, idx)
					break
				}
				p := &w.pkts[idx]
				if !bytes.Equal(body, w12Payload(idx, p.n)) {
					flush()
					w.fail("byte_for_byte", "payload-differs", "conn c%d: packet #%d arrived with %d bytes differing from the %d accepted", c.id, idx, n, p.n)
					break
				}
				if idx <= c.lastIdx {
					flush()
					sig := "reordered"
					if p.seen > 0 {
						sig = "duplicate"
					}
					w.fail("order", sig, "conn c%d: packet #%d read after packet #%d", c.id, idx, c.lastIdx)
					break
				}
				p.seen++
				if p.seen > 1 {
					flush()
					w.fail("exactly_once", "duplicate", "packet #%d read on conn c%d at %v and again on c%d", idx, p.seenConn, p.seenT, c.id)
					break
				}
				p.seenT, p.seenConn = at, c.id
				lastAt = at
				c.lastIdx = idx
				c.frames = append(c.frames, w12Frame{0, idx, at})
				if cnt > 0 && idx == hi+1 {
					hi, cnt = idx, cnt+1
				} else {
					flush()
					lo, hi, cnt = idx, idx, 1
				}
			} else {
				flush()
				sum, err := w12ReportValue(body)
				if err != nil {
					w.fail("stream_format", "foreign-frame", "conn c%d: frame of %d bytes is neither an accepted packet nor a write-error report (%v)", c.id, n, err)
					break
				}
				w.reported += sum
				w.reportFrames++
				r.Probe("drop_report_seen")
				c.frames = append(c.frames, w12Frame{1, -1, at})
				r.Event("upstream", "t=%v c%d read write-error report value=%v", w.now(), c.id, sum)
			}
			c.parseOff = endOff
		}
		flush()
		if c.trapped != c.loggedTrapped {
			c.loggedTrapped = c.trapped
			r.Probe("report_write_held_by_closed_window")
			r.Event("upstream", "t=%v c%d closed its receive window as a write-error report began (report write in progress)", w.now(), c.id)
		}
		for len(c.timeouts) > c.loggedTimeouts {
			to := c.timeouts[c.loggedTimeouts]
			c.loggedTimeouts++
			r.Event("balancer", "t=%v c%d write timed out at t=%v (upstream not reading for %v of the last %v, blocked=%v report=%v pkt=%d)",
				w.now(), c.id, to.t, to.paused, w.writeTimeout, to.blocked, to.report, to.idx)
		}
		if c.remoteReset && !c.loggedReset {
			c.loggedReset = true
		}
		if c.localClosed && !c.loggedClose {
			c.loggedClose = true
			r.Event("balancer", "t=%v c%d closed by sender (failed writes %d, unread %d)", w.now(), c.id, c.failedW, len(c.buf))
			if !c.remoteReset && !c.everManual {
				if c.failedW > 0 {
					r.Probe("healthy_conn_write_failed")
				} else {
					r.Probe("sender_recycled_healthy_conn")
				}
			}
		}
		c.mu.Unlock()
		if r.Failed() {
			return
		}
	}
	w.mu.Lock()
	for _, a := range w.addrs {
		st := w.addrSt[a]
		if st.refused != st.logRefused || st.blackholed != st.logBlackholed {
			r.Event("upstream", "t=%v %s dials refused +%d timed out +%d", w.now(), a, st.refused-st.logRefused, st.blackholed-st.logBlackholed)
			if st.refused != st.logRefused {
				r.Probe("dial_refused")
			}
			if st.blackholed != st.logBlackholed {
				r.Probe("dial_timed_out")
			}
			st.logRefused, st.logBlackholed = st.refused, st.blackholed
		}
	}
	w.mu.Unlock()
	w.checkDropConservation()
	if r.Failed() {
		return
	}
	if we := w.eg.stats.writeErrors.Load(); we != w.lastWriteErr {
		r.Event("balancer", "t=%v WriteErrors=%d", w.now(), we)
		w.lastWriteErr = we
	}
	if de := w.eg.stats.dnsRefreshErrors.Load(); de != w.lastDNSErr {
		r.Event("balancer", "t=%v DNSRefreshErrors=%d", w.now(), de)
		r.Probe("dns_refresh_failed")
		w.lastDNSErr = de
	}
	if re := w.eg.stats.reconnectErrors.Load(); re != w.lastReconErr {
		r.Event("balancer", "t=%v ReconnectErrors=%d", w.now(), re)
		w.lastReconErr = re
	}
	w.noteHealth()
}

// unread walks the frames a connection accepted that the upstream has not read (yet): workload
// packet indexes, the sum of complete write-error reports, whether a torn non-workload frame (a
// partly accepted report) or a tail too short to classify is among them. c.mu must be held.
func (w *w12World) unread(c *w12Conn) (pkts []int, reports float64, tornReport, anon bool) {
	off := c.parseOff
	if !c.hsDone {
		off = len(w.key)
	}
	for off < len(c.wr) {
		rest := c.wr[off:]
		if len(rest) < pktHeadLen+w12MinPayload {
			anon = true
			break
		}
		n := int(binary.LittleEndian.Uint32(rest))
		if bytes.Equal(rest[pktHeadLen:pktHeadLen+4], w12Magic[:]) {
			pkts = append(pkts, int(binary.LittleEndian.Uint32(rest[pktHeadLen+4:])))
		} else if len(rest) >= pktHeadLen+n {
			if v, err := w12ReportValue(rest[pktHeadLen : pktHeadLen+n]); err == nil {
				reports += v
			}
		} else {
			tornReport = true
		}
		off += pktHeadLen + n
	}
	return
}

// checkDropConservation (system quiescent): every dropped byte is in exactly one place: already read
// by the upstream in a report, on its way (a report some connection accepted and the upstream has
// not read, or a report whose write call is in progress), or still pending in the balancer's local
// would-block counter. Only the lower bound is demanded here (a report that a failed connection
// accepted in part is also pending again); nothing dropped may vanish from all three.
func (w *w12World) checkDropConservation() {
	if w.droppedCount == 0 {
		return
	}
	pending := float64(w.eg.pool.primary.wouldBlockBytes.Load() + w.eg.pool.secondary.wouldBlockBytes.Load())
	if w.reported+pending >= float64(w.droppedBodies) {
		return
	}
	onTheWay := 0.0
	for _, c := range w.connList() {
		c.mu.Lock()
		_, rep, torn, _ := w.unread(c)
		onTheWay += rep
		if c.curReportOn {
			onTheWay += c.curReport
		} else if torn {
			onTheWay += float64(w.droppedFrames) // value unknown
		}
		c.mu.Unlock()
	}
	if w.reported+pending+onTheWay < float64(w.droppedBodies) {
		w.fail("drop_reported", "vanished-from-counter", "%d packets (%d payload bytes) were dropped so far; the upstream has read reports for %v bytes, reports for %v more are on their way, the local would-block counter holds %v: the rest is nowhere and will never be reported",
			w.droppedCount, w.droppedBodies, w.reported, onTheWay, pending)
	}
}

func (w *w12World) bufFill(b *pktBuffer) (wi int, full bool) {
	b.mu.Lock()
	defer b.mu.Unlock()
	return b.wi, b.wi >= bufferLen
}

// push hands one packet to the ingress handler and classifies the outcome (white-box: a packet
// was buffered iff the fill of the two write buffers grew by one). It is kept cheap: a burst must
// not run long enough for the Go runtime to preempt the scheduler goroutine in the middle of it.
// Returns false if a sender visibly ran during the call (see disturbed).
func (w *w12World) push(body []byte) bool {
	r := w.r
	idx := len(w.pkts)
	pool := w.eg.pool
	wi1, full1 := w.bufFill(pool.primary.buf)
	wi2, full2 := w.bufFill(pool.secondary.buf)
	d0 := w.eg.stats.droppedPackets.Load()
	prim0 := *pool.primPtr
	func() {
		defer r.Guard("HandleMetricsBatchRaw")
		_ = w.h.HandleMetricsBatchRaw(body)
	}()
	if r.Failed() {
		return true
	}
	wi1b, _ := w.bufFill(pool.primary.buf)
	wi2b, _ := w.bufFill(pool.secondary.buf)
	if wi1b < wi1 || wi2b < wi2 {
		return false
	}
	accepted := wi1b+wi2b == wi1+wi2+1
	dd := w.eg.stats.droppedPackets.Load() - d0
	w.pkts = append(w.pkts, w12Pkt{n: len(body), tAccept: w.now(), accepted: accepted, seenConn: -1})
	if *pool.primPtr != prim0 {
		w.failovers++
	}
	if accepted {
		if dd != 0 {
			w.fail("drop_counted", "counted-without-drop", "packet #%d was buffered but DroppedPackets grew by %d", idx, dd)
		}
		return true
	}
	w.droppedCount++
	w.droppedFrames += int64(pktHeadLen + len(body))
	w.droppedBodies += int64(len(body))
	if !(full1 && full2) {
		w.fail("drop_only_when_full", "dropped-with-room", "packet #%d refused while the write buffers held %d and %d of %d", idx, wi1, wi2, bufferLen)
		return true
	}
	if dd != 1 {
		w.fail("drop_counted", "drop-not-counted", "packet #%d refused (both buffers full) but DroppedPackets grew by %d", idx, dd)
	}
	return true
}

// pushMany offers k packets at one simulated instant. yieldEvery = j > 0 lets the senders run (to
// quiescence) after every j packets; 0 = the whole burst arrives before any sender is scheduled.
func (w *w12World) pushMany(k, sizeClass, yieldEvery int) {
	r := w.r
	first := len(w.pkts)
	bodies := make([][]byte, k)
	for i := range bodies {
		idx := first + i
		var n int
		switch sizeClass {
		case 0:
			n = w12MinPayload + int(r.C.Keyed(33, uint64(idx), 1))
		case 1:
			n = w12MinPayload + int(r.C.Keyed(1400, uint64(idx), 2))
		default:
			n = w12MinPayload + int(r.C.Keyed(200, uint64(idx), 3))
			if i == 0 {
				n = pktBodyMax - int(r.C.Keyed(3, uint64(idx), 4))
			}
		}
		bodies[i] = w12Payload(idx, n)
	}
	if cap(w.pkts)-len(w.pkts) < k {
		w.pkts = append(make([]w12Pkt, 0, 2*(len(w.pkts)+k)), w.pkts...)
	}
	drop0, fo0 := w.droppedCount, w.failovers
	runtime.Gosched() // fresh time slice for the burst
	gate := make(chan struct{})
	w.burstGate.Store(&gate)
	openGate := func() {
		w.burstGate.Store(nil)
		close(gate)
	}
	defer func() { openGate() }()
	for i := 0; i < k && !r.Failed(); i++ {
		if !w.push(bodies[i]) {
			// The runtime preempted this goroutine inside the burst and a sender consumed a buffer
			// half way: the run no longer follows its choice vector. Abandon it without a verdict.
			w.disturbed = true
			r.Extra["runs_abandoned_preempted_burst"]++
			r.Event("sim", "run abandoned: scheduler goroutine was preempted inside a burst")
			return
		}
		if yieldEvery > 0 && (i+1)%yieldEvery == 0 && i+1 < k {
			openGate()
			time.Sleep(time.Microsecond)
			verifsim.Wait()
			runtime.Gosched()
			gate = make(chan struct{})
			w.burstGate.Store(&gate)
		}
	}
	n := len(w.pkts) - first
	dropped := w.droppedCount - drop0
	r.Extra["packets_offered"] += n
	r.Extra["packets_accepted"] += n - dropped
	r.Extra["packets_dropped"] += dropped
	if dropped > 0 {
		r.Probe("packet_dropped")
		for _, cn := range w.connList() {
			cn.mu.Lock()
			if cn.curReportOn {
				r.Probe("drop_during_report_write")
			}
			cn.mu.Unlock()
		}
		if w.addressless(*w.eg.pool.primPtr) {
			r.Probe("drop_while_addressless_sender_is_primary")
		}
	}
	if w.failovers > fo0 {
		r.Probe("failover_to_other_sender")
	}
	r.Event("ingress", "t=%v offered pkts %d..%d accepted %d dropped %d sender_switches %d", w.now(), first, len(w.pkts)-1, n-dropped, dropped, w.failovers-fo0)
}

func w12Pick[T any](r *verifsim.Run, label string, vals ...T) T {
	return vals[r.C.Intn(len(vals), label)]
}

func w12Run(r *verifsim.Run) {
	c := r.C
	w := &w12World{r: r, t0: time.Now(), addrSt: map[string]*w12Addr{}, startGate: make(chan struct{})}

	// ---- configuration (value 0 = benign/default everywhere)
	faultClass := c.Intn(3, "cfg.faults") // 0 none, 1 connection faults, 2 connection + address faults
	addrSel := c.Intn(4, "cfg.addrs")     // 0 two addresses, 1 three, 2 four, 3 one (the secondary sender gets no address)
	cfg := EgressConfig{
		Network:            "tcp",
		ReconnectDelay:     w12Pick(r, "cfg.reconnect_delay", time.Duration(0), 300*time.Millisecond, 1900*time.Millisecond),
		WriteTimeout:       w12Pick(r, "cfg.write_timeout", time.Duration(0), 4*time.Second, 30*time.Second),
		DialTimeout:        w12Pick(r, "cfg.dial_timeout", time.Duration(0), 1500*time.Millisecond),
		StuckReconDelay:    w12Pick(r, "cfg.stuck_recon_delay", time.Duration(0), 2*time.Second),
		DNSRefreshInterval: w12Pick(r, "cfg.dns_refresh", 60*time.Second, 7*time.Second, 2500*time.Millisecond) + 137*time.Microsecond, // never coincides with reconnect instants
		HostTag:            w12Pick(r, "cfg.host_tag", "w12-balancer", "", "balancer-host.w12.example"),
	}
	w.sockCap = w12Pick(r, "cfg.socket_buffer", 1<<20, 16384, 512, 64)
	nsteps := c.Range(2, 40, "cfg.steps")
	preSleep := c.Range(0, 9, "cfg.start_offset_us")
	// swarm: a third of the runs lean towards overload (more and larger bursts that arrive before any
	// sender is scheduled, upstream windows closing at report frames), the rest draw uniformly
	overload := c.Chance(1, 3, "cfg.overload")
	var list []string
	switch addrSel {
	case 0:
		list = []string{"10.0.0.1:13338", "10.0.0.2:13338"}
	case 1:
		list = []string{"10.0.0.1:13338", "10.0.0.2:13338", "10.0.0.3:13338"}
	case 2:
		list = []string{"10.0.0.1:13338", "10.0.0.2:13338", "10.0.0.3:13338", "10.0.0.4:13338"}
	default:
		// ONE resolved address: newAddressPools gives it to the primary sender and leaves the secondary
		// sender's pool empty (it keeps retrying with errNoAddress and never gets a connection)
		list = []string{"10.0.0.1:13338"}
	}
	if os.Getenv("W12_SINGLE_ADDR") != "" { // exploration knob: every run with one address
		list = list[:1]
	}
	cfg.Address = strings.Join(list, ",")
	for _, a := range list {
		if w.addrSt[a] == nil {
			w.addrSt[a] = &w12Addr{}
			w.addrs = append(w.addrs, a)
		}
	}
	sort.Strings(w.addrs)
	r.Config["faults"] = []string{"none", "connection", "connection+address"}[faultClass]
	r.Config["upstream_addrs"] = cfg.Address
	r.Config["reconnect_delay"] = cfg.ReconnectDelay.String()
	r.Config["write_timeout"] = cfg.WriteTimeout.String()
	r.Config["dial_timeout"] = cfg.DialTimeout.String()
	r.Config["stuck_recon_delay"] = cfg.StuckReconDelay.String()
	r.Config["dns_refresh"] = cfg.DNSRefreshInterval.String()
	r.Config["host_tag"] = cfg.HostTag
	r.Config["socket_buffer"] = w.sockCap
	r.Config["steps"] = nsteps
	r.Config["overload_bias"] = overload

	// expected handshake, built from the receiver's protocol constants
	w.key = append(w.key, receiver.TCPPrefix...)
	w.key = append(w.key, receiver.TCPMagicV2Balancer)
	w.key = binary.LittleEndian.AppendUint32(w.key, uint32(len(cfg.HostTag)))
	w.key = append(w.key, cfg.HostTag...)

	verifhook.SetOnDial(w.dial)
	verifhook.SetOnResolve(w.resolve)
	started := false
	defer func() {
		// release the instance: no new connections, wake every blocked writer, stop all loops
		select {
		case <-w.startGate:
		default:
			close(w.startGate)
		}
		w.mu.Lock()
		for _, a := range w.addrs {
			w.addrSt[a].mode = w12AddrRefuse
		}
		w.mu.Unlock()
		for _, cn := range w.connList() {
			cn.reset()
		}
		if started {
			w.h.Close()
			_ = w.eg.Close()
		}
		for _, cn := range w.connList() {
			cn.stopTimer()
		}
		verifhook.SetOnDial(nil)
		verifhook.SetOnResolve(nil)
		w.eg, w.h = nil, nil
	}()

	{ // effective timeouts are needed by the connections from their first write on
		eff := cfg
		eff.fillDefaults()
		w.reconnectDelay, w.dialTimeout, w.writeTimeout = eff.ReconnectDelay, eff.DialTimeout, eff.WriteTimeout
	}
	time.Sleep(time.Duration(preSleep) * time.Microsecond) // varies the address shuffle seed
	w.faulty = append(w.faulty, w12Interval{0, -1})        // start-up counts as not yet healthy
	w.eg = NewEgress(cfg)
	close(w.startGate)
	w.h = newHandler(w.eg)
	started = true
	w.reconnectDelay, w.dialTimeout, w.writeTimeout = w.eg.cfg.ReconnectDelay, w.eg.cfg.DialTimeout, w.eg.cfg.WriteTimeout
	// the statement's bound: "about one second plus reconnection time"
	w.bound = time.Second + w.reconnectDelay + 500*time.Millisecond
	// after the last upstream fault a sender may still sit in a dial timeout or a reconnect pause
	w.settle = w.dialTimeout + 2*w.reconnectDelay + 2*time.Second
	r.Event("sim", "t=%v egress started bound=%v settle=%v", w.now(), w.bound, w.settle)
	verifsim.Wait()
	// senders are parked (cond.Wait, sleep or dial): install the burst gate (see w12GateLocker)
	for _, b := range []*pktBuffer{w.eg.pool.primary.buf, w.eg.pool.secondary.buf} {
		b.cond.L = &w12GateLocker{mu: &b.mu, gate: &w.burstGate}
	}
	w.observe()
	w.tick(w.settle)

	// ---- main loop
	const (
		aPush1 = iota
		aSleep
		aBurst
		aStall
		aPull
		aReset
		aAddr
		aHeal
		aDead
		aTrap
		aTrickle
		aAddrDown
		aDNS
	)
	for step := 0; step < nsteps && !r.Failed() && !w.disturbed; step++ {
		acts := []int{aPush1, aSleep, aBurst, aPush1, aSleep, aBurst, aTrickle}
		if faultClass >= 1 {
			if len(w.openConns()) > 0 {
				acts = append(acts, aStall, aReset, aStall, aDead)
			}
			trappable := false
			for _, cn := range w.openConns() {
				if cn.pullable() {
					acts = append(acts, aPull, aPull)
					break
				}
			}
			for _, cn := range w.openConns() {
				if cn.trappable() {
					trappable = true
				}
			}
			acts = append(acts, aHeal, aDNS)
			if trappable {
				acts = append(acts, aTrap)
				if overload {
					acts = append(acts, aTrap)
				}
			}
		}
		if faultClass >= 2 {
			acts = append(acts, aAddr, aAddr)
			// With four addresses each sender's half of the (reshuffled) list has two, so while only one
			// address is gone for good every sender always has a live one to rotate to.
			if len(w.addrs) == 4 && !w.anyDownForGood() {
				acts = append(acts, aAddrDown)
			}
		}
		if overload {
			acts = append(acts, aBurst, aBurst)
		}
		switch acts[c.Intn(len(acts), "act")] {
		case aPush1:
			r.Sched("push1", "ingress")
			w.pushMany(1, 0, 0)
			w.tick(0)
		case aTrickle:
			// a steady trickle: single packets at a fixed interval below the batch wait, too few to fill a batch
			k := c.Range(3, 24, "trickle.n")
			gap := w12Pick(r, "trickle.gap", 300*time.Millisecond, 50*time.Millisecond, 600*time.Millisecond, 900*time.Millisecond)
			r.Sched("trickle", "ingress")
			r.Event("ingress", "t=%v trickle of %d packets, one every %v", w.now(), k, gap)
			for i := 0; i < k && !r.Failed() && !w.disturbed; i++ {
				w.pushMany(1, 0, 0)
				w.tick(gap + time.Duration(step+1)*time.Microsecond)
			}
		case aSleep:
			d := w12Pick(r, "sleep", 300*time.Millisecond, time.Millisecond, 20*time.Millisecond, 1100*time.Millisecond,
				2500*time.Millisecond, 6*time.Second, 17*time.Second, 35*time.Second, 4*time.Second, 10*time.Second)
			r.Sched("sleep", "clock")
			r.Event("clock", "t=%v sleep %v", w.now(), d)
			w.tick(d + time.Duration(step+1)*time.Microsecond)
		case aBurst:
			var k int
			class := c.Intn(6, "burst.class")
			if overload {
				class = []int{0, 3, 4, 3, 4, 2}[class]
			}
			switch class {
			case 0:
				k = c.Range(2, 8, "burst.n")
			case 1:
				k = c.Range(30, 50, "burst.n")
			case 2:
				k = c.Range(150, 260, "burst.n")
			case 3:
				k = c.Range(380, 480, "burst.n")
			case 4:
				k = c.Range(850, 1000, "burst.n")
			default:
				k = c.Range(9, 29, "burst.n")
			}
			yieldEvery := w12Pick(r, "burst.yield_every", 1, 16, 0, 64)
			if overload && yieldEvery == 16 {
				yieldEvery = 0
			}
			sizeClass := w12Pick(r, "burst.size", 0, 0, 1, 2)
			r.Sched(fmt.Sprintf("burst%d", k/100), "ingress")
			w.pushMany(k, sizeClass, yieldEvery)
			w.tick(0)
		case aDead:
			oc := w.openConns()
			cn := oc[c.Intn(len(oc), "dead.conn")]
			r.Sched("dead", "upstream")
			if !cn.isDead() {
				cn.kill()
				r.Fault("upstream_peer_dies_silently")
				w.faultsFired++
				r.Event("upstream", "t=%v c%d: peer dies silently (never reads again, no reset)", w.now(), cn.id)
			}
			w.noteHealth()
			w.tick(0)
		case aStall:
			oc := w.openConns()
			cn := oc[c.Intn(len(oc), "stall.conn")]
			cn.mu.Lock()
			fast := cn.fast
			dead := cn.dead
			cn.mu.Unlock()
			r.Sched("stall", "upstream")
			if dead {
				r.Event("upstream", "t=%v c%d stays dead", w.now(), cn.id)
			} else if fast {
				cn.setFast(false)
				r.Fault("upstream_stalls")
				w.faultsFired++
				r.Event("upstream", "t=%v c%d stops reading", w.now(), cn.id)
			} else {
				cn.setFast(true)
				r.Event("upstream", "t=%v c%d resumes reading", w.now(), cn.id)
			}
			w.noteHealth()
			w.tick(0)
		case aPull:
			var cands []*w12Conn
			for _, cn := range w.openConns() {
				if cn.pullable() {
					cands = append(cands, cn)
				}
			}
			cn := cands[c.Intn(len(cands), "pull.conn")]
			n := w12Pick(r, "pull.n", 1<<30, 1, 5, 64, 1000, 20000)
			r.Sched("pull", "upstream")
			got := cn.pull(n)
			r.Fault("upstream_slow_read")
			r.Event("upstream", "t=%v c%d slow reader takes %d bytes", w.now(), cn.id, got)
			w.tick(0)
		case aReset:
			oc := w.openConns()
			cn := oc[c.Intn(len(oc), "reset.conn")]
			r.Sched("reset", "upstream")
			unread := cn.reset()
			r.Fault("upstream_reset")
			w.faultsFired++
			w.pointFault()
			r.Event("upstream", "t=%v c%d reset by upstream, %d unread bytes discarded", w.now(), cn.id, unread)
			w.tick(0)
		case aDNS:
			// Not an upstream fault: a failed refresh must leave the last good addresses in use, so
			// nothing is excused and no timing demand is lifted while the resolver fails (it is never healed).
			r.Sched("dns", "resolver")
			w.mu.Lock()
			w.dnsFailing = !w.dnsFailing
			failing := w.dnsFailing
			w.mu.Unlock()
			if failing {
				r.Fault("resolver_fails")
			}
			r.Event("resolver", "t=%v address resolution now %s", w.now(), map[bool]string{false: "works", true: "fails"}[failing])
			w.tick(0)
		case aAddrDown:
			a := w.addrs[c.Intn(len(w.addrs), "addr_down.which")]
			r.Sched("addr_down", "upstream")
			w.mu.Lock()
			st := w.addrSt[a]
			st.mode, st.newConnManual, st.downForGood = w12AddrRefuse, false, true
			w.mu.Unlock()
			nreset := 0
			for _, cn := range w.openConns() {
				if cn.addr == a {
					cn.reset()
					nreset++
				}
			}
			r.Fault("upstream_address_down_for_good")
			w.faultsFired++
			w.pointFault()
			r.Event("upstream", "t=%v %s goes away for the rest of the run: refuses dials, %d connection(s) reset", w.now(), a, nreset)
			w.noteHealth()
			w.tick(0)
		case aAddr:
			a := w.addrs[c.Intn(len(w.addrs), "addr.which")]
			mode := c.Intn(3, "addr.mode")
			manual := c.Chance(1, 4, "addr.new_conns_stalled")
			r.Sched("addr", "upstream")
			w.mu.Lock()
			st := w.addrSt[a]
			if st.downForGood {
				w.mu.Unlock()
				r.Event("upstream", "t=%v %s stays down", w.now(), a)
				w.tick(0)
				continue
			}
			st.mode, st.newConnManual = mode, manual
			w.mu.Unlock()
			if mode != w12AddrUp || manual {
				r.Fault([]string{"upstream_accepts_stalled", "upstream_refuses_dial", "upstream_blackholes_dial"}[mode])
				w.faultsFired++
			}
			r.Event("upstream", "t=%v %s now %s new_conns_stalled=%v", w.now(), a, []string{"up", "refusing", "blackholed"}[mode], manual)
			w.noteHealth()
			w.tick(0)
		case aTrap:
			var cands []*w12Conn
			for _, cn := range w.openConns() {
				if cn.trappable() {
					cands = append(cands, cn)
				}
			}
			cn := cands[c.Intn(len(cands), "trap.conn")]
			r.Sched("trap", "upstream")
			cn.arm(true)
			r.Fault("upstream_window_closes_at_report")
			w.faultsFired++
			r.Event("upstream", "t=%v c%d will close its receive window when the next write-error report begins", w.now(), cn.id)
			w.noteHealth()
			w.tick(0)
		case aHeal:
			r.Sched("heal", "upstream")
			w.heal()
			w.tick(0)
		}
	}

	// ---- end: heal everything, then SILENCE long enough for every bound to expire
	if w.disturbed {
		r.SimNanos = int64(w.now())
		return
	}
	if !r.Failed() {
		w.heal()
		w.tick(0)
		quiet := w.settle + w.bound + time.Second
		for _, cn := range w.openConns() {
			if cn.isDead() {
				// only the sender's write deadline can get it off a dead connection; eventual delivery is
				// all that is demanded here, so leave room for several expiries
				quiet += 3 * (w.writeTimeout + 3*time.Second)
				r.Probe("run_ends_with_dead_peer_connection")
				break
			}
		}
		if w.anyDownForGood() {
			r.Probe("run_ends_with_an_address_down_for_good")
		}
		w.mu.Lock()
		if w.dnsFailing {
			r.Probe("run_ends_with_resolver_failing")
		}
		w.mu.Unlock()
		r.Event("sim", "t=%v silence for %v", w.now(), quiet)
		for i := 0; i < 4 && !r.Failed(); i++ {
			w.tick(quiet / 4)
		}
	}
	if !r.Failed() {
		w.finalChecks()
	}

	r.SimNanos = int64(w.now())
}

func (w *w12World) heal() {
	w.mu.Lock()
	down := 0
	for _, a := range w.addrs {
		if w.addrSt[a].downForGood {
			down++
			continue
		}
		w.addrSt[a].mode, w.addrSt[a].newConnManual = w12AddrUp, false
	}
	w.mu.Unlock()
	for _, cn := range w.openConns() {
		cn.arm(false)
		cn.setFast(true)
	}
	w.r.Event("upstream", "t=%v healed: all addresses up (%d gone for good stay down), all live connections read fast", w.now(), down)
	w.noteHealth()
}

func (w *w12World) anyDownForGood() bool {
	w.mu.Lock()
	defer w.mu.Unlock()
	for _, a := range w.addrs {
		if w.addrSt[a].downForGood {
			return true
		}
	}
	return false
}

// addressless: the sender's address pool is empty (a single resolved address leaves the secondary so).
func (w *w12World) addressless(s *tcpSender) bool {
	s.poolMu.Lock()
	defer s.poolMu.Unlock()
	return len(s.pool.addrs) == 0
}

// strandedPackets lists the accepted packets that still sit in the buffer of a sender without any
// upstream address (white-box): nothing will ever write them anywhere.
func (w *w12World) strandedPackets() map[int]bool {
	out := map[int]bool{}
	if len(w.addrs) != 1 {
		return out // the recorded finding is about a single resolved address only
	}
	for _, s := range []*tcpSender{w.eg.pool.secondary} {
		if !w.addressless(s) {
			continue
		}
		b := s.buf
		b.mu.Lock()
		for _, set := range [][][]byte{b.w[:b.wi], b.r[b.ri:b.rm]} {
			for _, f := range set {
				if len(f) >= pktHeadLen+w12MinPayload && bytes.Equal(f[pktHeadLen:pktHeadLen+4], w12Magic[:]) {
					out[int(binary.LittleEndian.Uint32(f[pktHeadLen+4:]))] = true
				}
			}
		}
		b.mu.Unlock()
	}
	return out
}

func (w *w12World) finalChecks() {
	r := w.r
	end := w.now()
	conns := w.connList()
	// Recorded finding (known_findings.json: not_forwarded / stranded-on-addressless-secondary): packets
	// that failed over to a sender without an address are never forwarded. It is reported last, so
	// that it cannot mask any other clause (delay of the other packets, drop accounting, reports).
	stranded := w.strandedPackets()
	nStranded, firstStranded := 0, -1

	// which losses an upstream fault excuses: bytes accepted by a connection that was reset or
	// stalled and never read, and the frame whose write call failed on such a connection
	excused := map[int]bool{}
	anon := 0
	// Reports a connection accepted (wholly or in part) and a reset/stalled/dead connection then
	// swallowed unread: the balancer cannot know, so they are credited. A report whose write call
	// failed outright is known to the balancer not to have been reported and is NOT credited.
	reportLost := 0.0
	failedConns := 0
	// A write timeout is an upstream fault only if the upstream really kept the sender waiting for about
	// the write timeout. The sender's deadline arithmetic promises WriteTimeout minus its declared
	// accuracy (writeTimeoutAccuracy) at the deadline check, and up to two batch waits (swapWaitMax
	// each) may pass between that check and a write call; one more second of margin is granted. A live
	// upstream (not reset, peer not dead) that was not reading for less than that in the whole write
	// timeout before the failure merely paused: its connection must not be closed for a timeout and
	// what it held is not an excused loss.
	slack := writeTimeoutAccuracy + 2*swapWaitMax + time.Second
	var spurConn *w12Conn
	var spur w12WriteTimeout
	for _, c := range conns {
		c.mu.Lock()
		if c.failedW > 0 {
			failedConns++
		}
		spurious := false
		for _, to := range c.timeouts {
			if to.dead {
				continue
			}
			if to.paused >= w.writeTimeout-slack {
				r.Probe("write_timeout_after_long_stall")
				continue
			}
			spurious = true
			if spurConn == nil {
				spurConn, spur = c, to
			}
		}
		if spurious {
			// nothing on this connection is excused
		} else if c.remoteReset || c.everManual {
			for _, idx := range c.failedIdx {
				excused[idx] = true
			}
			// frames in wr beyond what was read
			pkts, rep, torn, an := w.unread(c)
			for _, idx := range pkts {
				excused[idx] = true
			}
			reportLost += rep
			if torn {
				reportLost += float64(w.droppedFrames) // a torn frame that is not a workload packet: a report, value unknown
			}
			if an {
				anon++
			}
		} else if c.parseOff != len(c.rd) && c.hsDone {
			w.fail("stream_format", "torn-frame", "conn c%d (never stalled, never reset) ends with %d bytes of an incomplete frame", c.id, len(c.rd)-c.parseOff)
		}
		if c.staleDL > 0 {
			r.Probe("write_failed_on_stale_deadline")
		}
		if c.blockedTO > 0 {
			r.Probe("write_deadline_expired_on_stalled_conn")
		}
		if c.failedReport > 0 {
			r.Probe("drop_report_write_failed")
		}
		if c.longBlockedOK > 0 && !c.dead {
			r.Probe("write_blocked_for_seconds_then_completed")
		}
		c.mu.Unlock()
	}
	if r.Failed() {
		return
	}

	batchWait := false
	// bounded delay, checked only where the upstream was healthy around the acceptance
	for idx := range w.pkts {
		p := &w.pkts[idx]
		if !p.accepted {
			continue
		}
		if p.seen > 0 && p.seenT-p.tAccept > w.bound/3 && !batchWait {
			batchWait = true
			r.Probe("delivered_after_batch_wait")
		}
		if !w.healthyAround(p.tAccept, end) {
			continue
		}
		if p.seen == 0 && stranded[idx] {
			continue // reported below as not_forwarded
		}
		r.Extra["delay_checked"]++
		if p.seen > 0 && p.seenT-p.tAccept <= w.bound {
			continue
		}
		pattern := "then-silence"
		for j := idx + 1; j < len(w.pkts); j++ {
			if w.pkts[j].tAccept > p.tAccept+w.bound {
				break
			}
			if w.pkts[j].tAccept > p.tAccept {
				pattern = "traffic-continues"
				break
			}
		}
		if p.seen == 0 {
			w.fail("bounded_delay", pattern+":never", "packet #%d accepted at t=%v with a healthy reading upstream was not on the wire %v later (run ended at t=%v, bound %v)",
				idx, p.tAccept, end-p.tAccept, end, w.bound)
		} else {
			w.fail("bounded_delay", pattern+":late", "packet #%d accepted at t=%v with a healthy reading upstream reached it only at t=%v (%v later, bound %v)",
				idx, p.tAccept, p.seenT, p.seenT-p.tAccept, w.bound)
		}
		return
	}

	// every accepted packet was forwarded, or its loss is tied to an upstream fault
	lost, lostExcused := 0, 0
	firstLost := -1
	for idx := range w.pkts {
		p := &w.pkts[idx]
		if !p.accepted || p.seen > 0 {
			continue
		}
		if excused[idx] {
			lostExcused++
			continue
		}
		if stranded[idx] {
			nStranded++
			if firstStranded < 0 {
				firstStranded = idx
			}
			continue
		}
		lost++
		if firstLost < 0 {
			firstLost = idx
		}
	}
	r.Extra["lost_to_upstream_faults"] += lostExcused
	if lostExcused > 0 {
		r.Probe("loss_excused_by_upstream_fault")
	}
	if lost > anon {
		sig := "after-faults"
		if w.faultsFired == 0 {
			sig = "fault-free"
		}
		for _, c := range conns {
			c.mu.Lock()
			if c.dead && !c.localClosed {
				sig = "sender-stuck-on-dead-peer" // still writing to a connection whose peer died long ago
			}
			c.mu.Unlock()
		}
		if spurConn != nil {
			w.fail("not_forwarded", "timeout-on-short-stall", "%d accepted packet(s) (first #%d, accepted at t=%v) never reached the upstream and were not counted as dropped: conn c%d was closed for a write timeout at t=%v although its live upstream had not been reading for only %v of the preceding write timeout (%v)",
				lost, firstLost, w.pkts[firstLost].tAccept, spurConn.id, spur.t, spur.paused, w.writeTimeout)
			return
		}
		w.fail("not_forwarded", sig, "%d accepted packet(s) (first #%d, accepted at t=%v) never reached the upstream although it was healthy for the last %v and no reset/stalled connection held them",
			lost, firstLost, w.pkts[firstLost].tAccept, w.settle+w.bound)
		return
	}

	if spurConn != nil {
		w.fail("live_conn_timeout", "short-stall", "conn c%d to a live upstream was closed for a write timeout at t=%v although the upstream had not been reading for only %v of the preceding write timeout (%v)",
			spurConn.id, spur.t, spur.paused, w.writeTimeout)
		return
	}

	// write failures are counted
	if we := w.eg.stats.writeErrors.Load(); int(we) < failedConns {
		w.fail("write_error_counted", "fewer-than-failed-conns", "%d connections failed a write but WriteErrors=%d", failedConns, we)
		return
	}
	if lostExcused > 0 && w.eg.stats.writeErrors.Load() == 0 && failedConns > 0 {
		w.fail("write_error_counted", "loss-without-error", "%d packets lost on failed connections but WriteErrors=0", lostExcused)
		return
	}

	// every drop reported upstream (byte count): what the upstream read, plus what reset/stalled
	// connections swallowed, covers the dropped payload bytes; never more than the dropped frames
	if w.reported > float64(w.droppedFrames) {
		w.fail("drop_reported", "over-reported", "upstream was told %v dropped bytes, only %d (with length frames) were dropped", w.reported, w.droppedFrames)
		return
	}
	if w.droppedCount > 0 {
		if reportLost == 0 {
			r.Extra["drop_report_checked_strictly"]++
		}
		if w.reported+reportLost < float64(w.droppedBodies) {
			sig := "under-reported"
			if w.reportFrames == 0 {
				sig = "never-reported"
			}
			w.fail("drop_reported", sig, "%d packets (%d payload bytes) were dropped, upstream was told %v bytes in %d report(s) (%v more bytes of reports died with reset/stalled connections)",
				w.droppedCount, w.droppedBodies, w.reported, w.reportFrames, reportLost)
			return
		}
	}

	if nStranded > 0 {
		r.Probe("packets_stranded_on_addressless_sender")
		w.fail("not_forwarded", "stranded-on-addressless-secondary", "%d accepted packet(s) (first #%d, accepted at t=%v) were never forwarded and never counted as dropped: they failed over into the buffer of the sender that has no upstream address (single resolved address) and sit there for good, although the upstream was healthy for the last %v",
			nStranded, firstStranded, w.pkts[firstStranded].tAccept, w.settle+w.bound)
	}
}
