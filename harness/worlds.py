# Loads the world tables used by /verif/check from harness/*/world.json.
# world.json: {"name": ..., "world": {dir,pkg,test,quick,thorough,real,stubbed,...},
#              "props": {"Cxx": {level, rule, assumptions, [quick], [thorough]}}}
import glob, json, os

HERE = os.path.dirname(os.path.abspath(__file__))
WORLDS, PROPS = {}, {}
for path in sorted(glob.glob(os.path.join(HERE, "*", "world.json"))):
    d = json.load(open(path))
    WORLDS[d["name"]] = d["world"]
    for pid, meta in d["props"].items():
        meta = dict(meta)
        meta["world"] = d["name"]
        PROPS[pid] = meta
