//go:build verif

package metajournal

// W7: journal replication chain metadata -> aggregator -> agent (property C20).
// No synctest bubble: JournalFast takes its loader as a function and has no timers on the
// update path, so the harness calls JournalFast.updateJournalIsFinished (the body of one
// iteration of goUpdateMetrics) itself; the loader function is the simulated link.
//
// Real: JournalFast (applyUpdate, compaction, addEventLocked, dead-journal handling, save/load
// through ChunkedStorage2 on a byte slice), getJournalDiffLocked3Limits (the body of the
// aggregator's RPC handler), MetricsStorage.ApplyEvent and getters, event converters, format.
// Simulated: the metadata DB (w7Source), RPC transport (function call + drawn faults), disk
// (byte slices, drawn truncation / byte flip / restart from an older saved image).

import (
	"context"
	"errors"
	"fmt"
	"io"
	"log"
	"os"
	"sort"
	"strings"
	"testing"

	"github.com/VKCOM/statshouse/internal/data_model"
	"github.com/VKCOM/statshouse/internal/data_model/gen2/tlmetadata"
	"github.com/VKCOM/statshouse/internal/format"
	"github.com/VKCOM/statshouse/internal/verifsim"
)

const w7Prop = "C20"

var errW7Link = errors.New("simulated link error")

type w7Link struct {
	err    bool
	items  int
	bytes  int
	trunc  int // -1: no truncation
	up     int // aggregator index (agents)
	called bool
	from   int64
	rie    bool
	got    int
	first  int64
	last   int64
	upName string
	behind bool
	evs    []tlmetadata.Event // what the loader returned
}

type w7Replica struct {
	w            *w7World
	name         string
	agent        bool
	compactFlag  bool // JournalFast.compact
	compactClass bool // content is the compact form (aggregator compact journal, agents fed from it)
	home         int  // agents: preferred aggregator
	drainItems   int

	j      *JournalFast
	st     *MetricsStorage
	file   *[]byte
	images []w7Image
	// recorded during Save: end offset of every WriteAt (one per chunk), content before the save
	writeEnds []int64

	// latest metric event delivered to the current MetricsStorage instance, per metric id
	delivered map[int32]tlmetadata.Event
	// names that some delivered metric held and later left (for the failure signature)
	leftNames map[string]bool
	// newest delivered version of any metric carrying the name (who claimed the name last)
	nameClaim map[string]int64
	// names for which an index rebuild handed the name to a metric that is not its newest holder
	rebuiltStale map[string]bool
	reloads      int
}

// w7Image is one saved file: its content, what the file held before that save, and where each
// chunk write of the save ended (recorded by a wrapper around the storage's WriteAt).
type w7Image struct {
	data []byte
	prev []byte
	ends []int64
}

type w7Agg struct {
	normal  *w7Replica
	compact *w7Replica
}

type w7World struct {
	r    *verifsim.Run
	c    *verifsim.Choices
	src  *w7Source
	aggs []*w7Agg
	reps []*w7Replica

	faulty                                             bool
	fErr, fTrunc, fCrash, fDamage, fOldImage, batching bool
	switching                                          bool
	link                                               w7Link
	memo                                               map[w7MemoKey]tlmetadata.Event
	// entities for which some compact journal dropped a delivered event because its compact
	// content equalled what it had (it keeps the older version number)
	skipped map[w7Key]bool
	// the versions so dropped, by any compact journal / per compact journal (by replica name)
	dropped   map[w7Key]map[int64]bool
	droppedBy map[string]map[w7Key]map[int64]bool
}

func TestVerifW7(t *testing.T) {
	log.SetOutput(io.Discard) // updateJournalIsFinished logs every loader error
	verifsim.Main(t, &verifsim.World{Name: "w7_journal", Props: []string{w7Prop}, Exec: w7Exec})
}

func w7Exec(t *testing.T, r *verifsim.Run) {
	c := r.C
	w := &w7World{r: r, c: c, memo: map[w7MemoKey]tlmetadata.Event{}, skipped: map[w7Key]bool{},
		dropped: map[w7Key]map[int64]bool{}, droppedBy: map[string]map[w7Key]map[int64]bool{}}
	nAgg := 1 + c.Intn(2, "aggregators")
	nAgents := 2 + c.Intn(3, "agents")
	w.faulty = c.Intn(3, "faulty") != 0 // one third of the runs are fault free
	w.batching = c.Intn(4, "batching") != 3
	w.switching = nAgg > 1 && c.Intn(2, "switching") == 1
	if w.faulty {
		w.fErr = c.Intn(2, "f_loader_error") == 1
		w.fTrunc = c.Intn(2, "f_truncated_response") == 1
		w.fCrash = c.Intn(2, "f_crash") == 1
		w.fDamage = w.fCrash && c.Intn(2, "f_file_damage") == 1
		w.fOldImage = w.fCrash && c.Intn(2, "f_old_image") == 1
	}
	ops := 4 + c.Intn(37, "ops")
	steps := ops*2 + c.Intn(120, "steps")
	w.src = newW7Source(w)
	if w.faulty && w.src.bigEvents { // files of several chunks are there to be damaged
		w.fCrash, w.fDamage = true, true
	}
	r.Config["aggregators"] = nAgg
	r.Config["agents"] = nAgents
	r.Config["faulty"] = w.faulty
	r.Config["batching"] = w.batching
	r.Config["switching"] = w.switching
	r.Config["faults"] = fmt.Sprintf("err=%v trunc=%v crash=%v damage=%v old=%v", w.fErr, w.fTrunc, w.fCrash, w.fDamage, w.fOldImage)
	r.Config["ops"] = ops
	r.Config["steps"] = steps
	r.Config["metric_pool"] = strings.Join(w.src.metricPool, ",")
	r.Config["group_pool"] = strings.Join(w.src.groupPool, ",")
	r.Config["big_events"] = w.src.bigEvents

	for i := 0; i < nAgg; i++ {
		a := &w7Agg{
			normal:  w.newReplica(fmt.Sprintf("agg%d.normal", i), false, false, false, i),
			compact: w.newReplica(fmt.Sprintf("agg%d.compact", i), false, true, true, i),
		}
		w.aggs = append(w.aggs, a)
	}
	for i := 0; i < nAgents; i++ {
		// new agents ask for the compact journal, old ones for the normal one
		fromCompact := c.Intn(3, "agent_from_normal") != 2
		home := i % nAgg
		kind := "n"
		if fromCompact {
			kind = "c"
		}
		w.newReplica(fmt.Sprintf("agent%d%s", i, kind), true, false, fromCompact, home)
	}
	defer func() {
		r.SimNanos = int64(w.src.now-w.src.start) * 1e9
		if os.Getenv("VERIF_W7_LOG") != "" && !r.Quiet { // debugging aid: full event log of every run
			for _, e := range r.Events() {
				fmt.Println("   |", e)
			}
		}
	}()

	// main phase: edits, deliveries and faults interleave
	opsLeft := ops
	for s := 0; s < steps && !r.Failed(); s++ {
		k := c.Intn(100, "action")
		switch {
		case k < 35 && opsLeft > 0:
			opsLeft--
			r.Sched("edit", "source")
			r.Event("source", "%s", w.src.op())
		case k < 82 || !w.faulty:
			rep := w.reps[c.Intn(len(w.reps), "replica")]
			r.Sched("step", rep.name)
			w.step(rep, false)
		case k < 90:
			rep := w.reps[c.Intn(len(w.reps), "replica")]
			r.Sched("save", rep.name)
			w.save(rep)
		default:
			rep := w.reps[c.Intn(len(w.reps), "replica")]
			if !w.fCrash {
				r.Sched("step", rep.name)
				w.step(rep, false)
				break
			}
			r.Sched("restart", rep.name)
			w.restart(rep)
		}
	}
	for ; opsLeft > 0 && !r.Failed() && c.Intn(2, "late_edit") == 1; opsLeft-- {
		r.Sched("edit", "source")
		r.Event("source", "%s", w.src.op())
	}
	if r.Failed() {
		return
	}
	// faults stop; bounded number of delivery rounds
	r.Event("sim", "drain: source version %d, %d entities", w.src.version, len(w.src.keys))
	quiet := false
	for round := 0; round < 8 && !r.Failed() && !quiet; round++ {
		quiet = true
		for _, rep := range w.reps { // aggregators come first in w.reps
			for i := 0; i < 300 && !r.Failed(); i++ {
				r.Sched("drain", rep.name)
				fin, changed, err := w.step(rep, true)
				if changed || err != nil {
					quiet = false
				}
				if fin || err != nil {
					break
				}
			}
		}
	}
	if r.Failed() {
		return
	}
	if !quiet {
		r.Fail(w7Prop, "no_quiescence", "drain", "replicas still change after 8 fault-free delivery rounds")
		return
	}
	w.finalOracle()
}

func (w *w7World) newReplica(name string, agent, compactFlag, compactClass bool, home int) *w7Replica {
	rep := &w7Replica{w: w, name: name, agent: agent, compactFlag: compactFlag, compactClass: compactClass, home: home}
	rep.drainItems = []int{data_model.MaxJournalItemsSent, 1, 3}[w.c.Intn(3, "drain_items")]
	w.reps = append(w.reps, rep)
	rep.load(nil)
	return rep
}

// load constructs a fresh process image: new MetricsStorage, JournalFast loaded from the file.
func (rep *w7Replica) load(content []byte) error {
	file := append([]byte(nil), content...)
	rep.file = &file
	rep.st = MakeMetricsStorage(nil)
	rep.delivered = map[int32]tlmetadata.Event{}
	rep.leftNames = map[string]bool{}
	rep.nameClaim = map[string]int64{}
	rep.rebuiltStale = map[string]bool{}
	var err error
	rep.w.guard("load "+rep.name, func() {
		rep.j, err = LoadJournalFastSlice(rep.file, 0, rep.compactFlag, []ApplyEvent{rep.apply})
	})
	if rep.j != nil {
		rep.j.metaLoader = rep.loader
		st := rep.j.storage
		orig := st.WriteAt
		st.WriteAt = func(offset int64, data []byte) error {
			rep.writeEnds = append(rep.writeEnds, offset+int64(len(data)))
			return orig(offset, data)
		}
	}
	return err
}

func (w *w7World) guard(where string, f func()) {
	defer func() {
		if p := recover(); p != nil {
			msg := fmt.Sprint(p)
			sig := "panic:" + strings.Fields(where)[0]
			if strings.Contains(msg, "journal order invariant") {
				sig += ":order-invariant"
			}
			w.r.Fail(w7Prop, "panic", sig, "panic in %s: %s", where, msg)
		}
	}()
	f()
}

// apply is the ApplyEvent callback of the replica's journal: it forwards to the current
// MetricsStorage and keeps the oracle's record of what was delivered.
func (rep *w7Replica) apply(evs []tlmetadata.Event) {
	hasGroup := false
	for _, e := range evs {
		switch e.EventType {
		case format.MetricEvent:
			if _, err := MetricMetaFromEvent(e); err != nil {
				continue // ApplyEvent skips it too
			}
			if old, ok := rep.delivered[int32(e.Id)]; ok {
				if old.Version >= e.Version {
					rep.w.r.Fail(w7Prop, "delivery_not_increasing", "storage", "%s: metric %d delivered v%d after v%d", rep.name, e.Id, e.Version, old.Version)
				}
				if old.Name != e.Name {
					rep.leftNames[old.Name] = true
				}
			}
			rep.delivered[int32(e.Id)] = e
			if e.Version > rep.nameClaim[e.Name] {
				rep.nameClaim[e.Name] = e.Version
			}
		case format.MetricsGroupEvent:
			hasGroup = true
		}
	}
	dups := rep.dupNames()
	if !hasGroup || len(dups) == 0 {
		rep.st.ApplyEvent(evs)
		return
	}
	// The batch may trigger ApplyEvent's full rebuild of the name index while two delivered
	// metrics carry the same name. The pinned code rebuilds by ranging over a map, so which of
	// them gets the name depends on Go's map iteration order. The simulator owns that choice:
	// it draws the wanted outcome and re-applies the batch to clones of the storage until the
	// real code produces it (or, when the code is order independent, keeps the only outcome).
	w := rep.w
	w.r.Probe("rebuild_with_duplicate_names")
	wantStale := w.c.Intn(2, "rebuild_order") == 1
	var got string
	var cand *MetricsStorage
	for try := 0; try < 400; try++ {
		cand = w7CloneStorage(rep.st, wantStale)
		cand.ApplyEvent(evs)
		var ok bool
		got, ok = rep.rebuildOutcome(cand, dups, wantStale)
		if ok {
			break
		}
	}
	rep.st = cand
	for _, n := range dups {
		hs := rep.holders(n)
		if m := cand.metricsByName[n]; m != nil && int64(m.MetricID) != hs[len(hs)-1].Id {
			rep.rebuiltStale[n] = true
			w.r.Probe("rebuild_gave_name_to_stale_holder")
		}
	}
	w.r.Event(rep.name, "rebuild with duplicate names %v want_stale=%v -> %s", dups, wantStale, got)
}

// dupNames lists names held (by latest delivered version) by two or more delivered metrics.
func (rep *w7Replica) dupNames() []string {
	cnt := map[string]int{}
	for _, e := range rep.delivered {
		cnt[e.Name]++
	}
	var out []string
	for n, k := range cnt {
		if k > 1 {
			out = append(out, n)
		}
	}
	sort.Strings(out)
	return out
}

func (rep *w7Replica) holders(name string) []tlmetadata.Event {
	var hs []tlmetadata.Event
	for _, e := range rep.delivered {
		if e.Name == name {
			hs = append(hs, e)
		}
	}
	sort.Slice(hs, func(i, j int) bool { return hs[i].Version < hs[j].Version })
	return hs
}

func (rep *w7Replica) rebuildOutcome(st *MetricsStorage, dups []string, wantStale bool) (string, bool) {
	var sb strings.Builder
	all := true
	for _, n := range dups {
		hs := rep.holders(n)
		want := hs[len(hs)-1].Id
		if wantStale {
			want = hs[0].Id
		}
		m := st.metricsByName[n]
		if m == nil {
			fmt.Fprintf(&sb, "%s:none ", n)
			continue
		}
		fmt.Fprintf(&sb, "%s:#%d ", n, m.MetricID)
		if int64(m.MetricID) != want {
			all = false
		}
	}
	return strings.TrimSpace(sb.String()), all
}

// w7CloneStorage copies the index maps (values are immutable). Metrics are inserted ordered by
// version so that the wanted rebuild outcome is a likely one for the clone's map layout.
func w7CloneStorage(src *MetricsStorage, descending bool) *MetricsStorage {
	n := MakeMetricsStorage(nil)
	ms := make([]*format.MetricMetaValue, 0, len(src.metricsByID))
	for _, m := range src.metricsByID {
		ms = append(ms, m)
	}
	sort.Slice(ms, func(i, j int) bool {
		if descending {
			return ms[i].Version > ms[j].Version
		}
		return ms[i].Version < ms[j].Version
	})
	for _, m := range ms {
		n.metricsByID[m.MetricID] = m
	}
	for k, v := range src.metricsByName {
		n.metricsByName[k] = v
	}
	n.dashboardByID = map[int32]*format.DashboardMeta{}
	for k, v := range src.dashboardByID {
		n.dashboardByID[k] = v
	}
	n.groupsByID = map[int32]*format.MetricsGroup{}
	for k, v := range src.groupsByID {
		n.groupsByID[k] = v
	}
	n.groupsByName = map[string]*format.MetricsGroup{}
	for k, v := range src.groupsByName {
		n.groupsByName[k] = v
	}
	n.groupsOrdered = append([]*format.MetricsGroup(nil), src.groupsOrdered...)
	n.namespaceByID = map[int32]*format.NamespaceMeta{}
	for k, v := range src.namespaceByID {
		n.namespaceByID[k] = v
	}
	n.namespaceByName = map[string]*format.NamespaceMeta{}
	for k, v := range src.namespaceByName {
		n.namespaceByName[k] = v
	}
	n.promConfig, n.promConfigGenerated, n.knownTags = src.promConfig, src.promConfigGenerated, src.knownTags
	n.lastVersion = src.lastVersion
	return n
}

// loader is the MetricsStorageLoader of the replica: the simulated link to its upstream.
func (rep *w7Replica) loader(_ context.Context, version int64, returnIfEmpty bool) ([]tlmetadata.Event, int64, error) {
	w := rep.w
	lk := &w.link
	lk.called, lk.from, lk.rie = true, version, returnIfEmpty
	if lk.err {
		w.r.Fault("loader_error")
		return nil, version, errW7Link
	}
	var evs []tlmetadata.Event
	var cur int64
	if !rep.agent {
		lk.upName = "source"
		// the metadata engine counts items and bytes the same way for every client
		evs = w.src.journal(version, lk.items, lk.bytes)
		cur = w.src.version
	} else {
		up := w.aggs[lk.up].normal
		if rep.compactClass {
			up = w.aggs[lk.up].compact
		}
		lk.upName = up.name
		if up.j.metricsDead { // HandleGetMetrics3 answers errDeadMetrics
			w.r.Probe("upstream_dead_journal_refuses")
			return nil, version, errDeadMetrics
		}
		if version > up.j.currentVersion {
			lk.behind = true
			w.r.Probe("upstream_behind_downstream")
		}
		var ret tlmetadata.GetJournalResponsenew
		up.j.getJournalDiffLocked3Limits(version, &ret, lk.items, lk.bytes)
		evs = append([]tlmetadata.Event(nil), ret.Events...)
		cur = ret.CurrentVersion
	}
	if lk.trunc >= 0 && lk.trunc < len(evs) {
		evs = evs[:lk.trunc]
		w.r.Fault("response_truncated")
	}
	lk.got = len(evs)
	lk.evs = append([]tlmetadata.Event(nil), evs...)
	for i, e := range evs {
		if e.EventType == format.MetricEvent && e.Name == format.StatshouseJournalDump && i+1 < len(evs) {
			w.r.Probe("dump_event_cuts_batch")
		}
	}
	if len(evs) > 0 {
		lk.first, lk.last = evs[0].Version, evs[len(evs)-1].Version
		for i := 1; i < len(evs); i++ {
			if evs[i].Version <= evs[i-1].Version {
				w.r.Fail(w7Prop, "diff_not_increasing", "diff", "%s served versions %d then %d to %s", lk.upName, evs[i-1].Version, evs[i].Version, rep.name)
			}
		}
		if evs[0].Version <= version {
			w.r.Fail(w7Prop, "diff_not_after_from", "diff", "%s served version %d for from=%d", lk.upName, evs[0].Version, version)
		}
	}
	return evs, cur, nil
}

type w7Snap struct {
	ver, loader int64
	hash        string
	dead        bool
}

func (rep *w7Replica) snap() w7Snap {
	return w7Snap{rep.j.currentVersion, rep.j.loaderVersion, rep.j.stateHashStr, rep.j.metricsDead}
}

var w7ItemLimits = []int{data_model.MaxJournalItemsSent, 1, 2, 3, 5, 8}
var w7ByteLimits = []int{data_model.MaxJournalBytesSent, 1, 400, 200_000}

// step performs one iteration of the replica's update loop.
func (w *w7World) step(rep *w7Replica, drain bool) (fin bool, changed bool, err error) {
	c := w.c
	lk := w7Link{items: data_model.MaxJournalItemsSent, bytes: data_model.MaxJournalBytesSent, trunc: -1, up: rep.home}
	if drain {
		lk.items = rep.drainItems
	} else {
		if w.batching {
			lk.items = w7ItemLimits[c.Intn(len(w7ItemLimits), "max_items")]
			lk.bytes = w7ByteLimits[c.Intn(len(w7ByteLimits), "max_bytes")]
		}
		if w.fErr && c.Intn(6, "loader_error") == 5 {
			lk.err = true
		}
		if w.fTrunc && c.Intn(5, "truncate_response") == 4 {
			lk.trunc = c.Intn(4, "truncate_to")
		}
	}
	if rep.agent && w.switching {
		lk.up = (rep.home + c.Intn(len(w.aggs), "upstream")) % len(w.aggs)
	}
	w.link = lk
	before := rep.snap()
	w.guard("step "+rep.name, func() {
		fin, err = rep.j.updateJournalIsFinished(nil)
	})
	after := rep.snap()
	lk = w.link
	if rep.compactFlag && err == nil {
		for _, e := range lk.evs {
			if e.EventType == format.DashboardEvent || e.EventType == format.PromConfigEvent {
				continue
			}
			if have, ok := rep.j.journal[journalEventID{typ: e.EventType, id: e.Id}]; ok && have.Version < e.Version {
				key := w7Key{e.EventType, e.Id}
				w.skipped[key] = true
				if w.dropped[key] == nil {
					w.dropped[key] = map[int64]bool{}
				}
				w.dropped[key][e.Version] = true
				if w.droppedBy[rep.name] == nil {
					w.droppedBy[rep.name] = map[w7Key]map[int64]bool{}
				}
				if w.droppedBy[rep.name][key] == nil {
					w.droppedBy[rep.name][key] = map[int64]bool{}
				}
				w.droppedBy[rep.name][key][e.Version] = true
				w.r.Probe("compact_journal_kept_older_version_of_equal_content")
			}
			if e.EventType == format.MetricEvent && e.Name == format.StatshouseJournalDump {
				break // the update step drops what follows a dump event and asks for it again
			}
		}
	}
	changed = before != after
	if before.dead && !after.dead {
		w.r.Probe("dead_journal_recovered")
	}
	if after.dead {
		w.r.Probe("journal_marked_dead")
	}
	es := "nil"
	if err != nil {
		es = err.Error()
	}
	w.r.Event(rep.name, "step from=%d rie=%v up=%s items=%d bytes=%d -> got=%d [%d..%d] fin=%v err=%s | ver=%d loader=%d hash=%s dead=%v n=%d",
		lk.from, lk.rie, lk.upName, lk.items, lk.bytes, lk.got, lk.first, lk.last, fin, es, after.ver, after.loader, after.hash, after.dead, len(rep.j.journal))
	if !w.r.Failed() {
		w.checkReplica(rep)
	}
	return fin, changed, err
}

func (w *w7World) save(rep *w7Replica) {
	var ok bool
	var ver int64
	var err error
	prev := append([]byte(nil), *rep.file...)
	rep.writeEnds = rep.writeEnds[:0]
	w.guard("save "+rep.name, func() { ok, ver, err = rep.j.Save() })
	if err != nil {
		w.r.Fail(w7Prop, "save_error", "save", "%s: Save failed on a healthy in-memory file: %v", rep.name, err)
		return
	}
	if ok {
		rep.images = append(rep.images, w7Image{data: append([]byte(nil), *rep.file...), prev: prev, ends: append([]int64(nil), rep.writeEnds...)})
		if len(rep.images) > 4 {
			rep.images = rep.images[1:]
		}
		if len(rep.writeEnds) > 1 {
			w.r.Probe("saved_file_has_several_chunks")
		}
	}
	w.r.Event(rep.name, "save ok=%v ver=%d size=%d", ok, ver, len(*rep.file))
}

// restart kills the process and starts it again from a saved image, possibly an older one,
// possibly damaged.
func (w *w7World) restart(rep *w7Replica) {
	c := w.c
	if c.Intn(3, "save_before_restart") != 0 { // orderly shutdown saves first; a kill does not
		w.save(rep)
		if w.r.Failed() {
			return
		}
	}
	var img []byte
	var saved w7Image
	which := "none"
	if len(rep.images) > 0 {
		idx := len(rep.images) - 1
		if w.fOldImage && len(rep.images) > 1 && c.Intn(2, "old_image") == 1 {
			idx = c.Intn(len(rep.images)-1, "image_idx")
			w.r.Fault("restart_from_older_file")
		}
		which = fmt.Sprintf("%d/%d", idx+1, len(rep.images))
		img = append([]byte(nil), rep.images[idx].data...)
		saved = rep.images[idx]
	}
	damage := "intact"
	if w.fDamage && len(img) > 0 {
		mode := c.Intn(4, "damage")
		if mode == 3 && len(saved.ends) < 2 {
			mode = 1 // a single chunk has no inner boundary
		}
		switch mode {
		case 3:
			// the process was killed during that save, after k of its chunk writes (chunks are
			// written one by one, Truncate comes last): the first k chunks are new, behind them is
			// whatever the file held before - nothing when it was fresh or shorter (the file then
			// ends exactly on a chunk boundary), old bytes when it was longer
			k := 1 + c.Intn(len(saved.ends)-1, "chunks_written")
			end := saved.ends[k-1]
			prev := saved.prev
			if c.Intn(2, "fresh_file") == 1 {
				prev = nil
			}
			img = append([]byte(nil), saved.data[:end]...)
			if int64(len(prev)) > end {
				img = append(img, prev[end:]...)
				damage = fmt.Sprintf("killed after %d of %d chunk writes, %d old bytes behind", k, len(saved.ends), int64(len(prev))-end)
				w.r.Probe("partial_save_over_longer_file")
			} else {
				damage = fmt.Sprintf("killed after %d of %d chunk writes, file ends on the chunk boundary %d", k, len(saved.ends), end)
				w.r.Probe("partial_save_ends_on_chunk_boundary")
			}
			w.r.Fault("killed_between_chunk_writes")
		case 1:
			cut := c.Intn(len(img), "cut_at")
			img = img[:cut]
			damage = fmt.Sprintf("cut at %d", cut)
			w.r.Fault("file_truncated")
		case 2:
			at := c.Intn(len(img), "flip_at")
			img[at] ^= byte(1 << c.Intn(8, "flip_bit"))
			damage = fmt.Sprintf("byte %d flipped", at)
			w.r.Fault("file_byte_flipped")
		}
	}
	w.r.Fault("restart")
	oldVer := rep.j.currentVersion
	err := rep.load(img)
	rep.reloads++
	es := "nil"
	if err != nil {
		es = err.Error()
		if len(es) > 60 {
			es = es[:60]
		}
		w.r.Probe("load_reported_error")
		if damage == "intact" {
			w.r.Fail(w7Prop, "load_error", "load", "%s: loading an undamaged saved file failed: %v", rep.name, err)
			return
		}
	}
	if w.r.Failed() {
		return
	}
	if rep.j.currentVersion < oldVer {
		w.r.Probe("restart_went_back_in_time")
	}
	if damage != "intact" && rep.j.currentVersion > 0 {
		w.r.Probe("damaged_file_partly_loaded")
	}
	ver, h := rep.j.VersionHash()
	w.r.Event(rep.name, "restart image=%s %s err=%s -> ver=%d loader=%d hash=%s n=%d", which, damage, es, ver, rep.j.loaderVersion, h, len(rep.j.journal))
	w.checkReplica(rep)
}
