//go:build verif

package metadata

// Mapping / flood-limit part of W4 (C19): model of the string<->id bijection with tombstones and
// an upper bound on creations per metric (token bucket inequality, not a mirror of calcBudget).

import (
	"context"
	"fmt"
	"sort"

	"github.com/VKCOM/statshouse/internal/data_model/gen2/tlstatshouse"
	"github.com/VKCOM/statshouse/internal/sqlite"
	"github.com/VKCOM/statshouse/internal/verifsim"
)

type w4MapIn struct {
	Kind   string // getorcreate, put, delete, reset, byid, byvalue, newmappings, putbootstrap, getbootstrap
	Metric string
	Key    string
	Keys   []string
	Vals   []int32
	IDs    []int32
	Limit  int64
	ID     int32
	From   int32
	Page   int32
}

type w4MapOut struct {
	Err     string
	Class   string // existing, created, flood, notfound
	ID      int32
	Str     string
	Found   bool
	List    []tlstatshouse.Mapping
	Max     int32
	Count   int32
	Checked bool
}

func (i w4MapIn) String() string {
	switch i.Kind {
	case "getorcreate":
		return fmt.Sprintf("getOrCreate(metric=%q key=%q)", i.Metric, i.Key)
	case "put":
		if len(i.Keys) > 20 {
			return fmt.Sprintf("put(%d keys %s..%s = ids %d..%d)", len(i.Keys), i.Keys[0], i.Keys[len(i.Keys)-1], i.Vals[0], i.Vals[len(i.Vals)-1])
		}
		return fmt.Sprintf("put(%v=%v)", i.Keys, i.Vals)
	case "delete":
		if len(i.IDs) > 20 {
			return fmt.Sprintf("delete(%d ids %d..%d)", len(i.IDs), i.IDs[0], i.IDs[len(i.IDs)-1])
		}
		return fmt.Sprintf("delete(%v)", i.IDs)
	case "reset":
		return fmt.Sprintf("resetFlood(metric=%q limit=%d)", i.Metric, i.Limit)
	case "byid":
		return fmt.Sprintf("byID(%d)", i.ID)
	case "byvalue":
		return fmt.Sprintf("byValue(%q)", i.Key)
	case "newmappings":
		return fmt.Sprintf("newMappings(from=%d page=%d)", i.From, i.Page)
	case "putbootstrap":
		return fmt.Sprintf("putBootstrap(%v)", i.Keys)
	}
	return i.Kind
}

func (o w4MapOut) String() string {
	if o.Err != "" {
		return "err:" + o.Err
	}
	return fmt.Sprintf("%s id=%d str=%q found=%v list=%d max=%d count=%d", o.Class, o.ID, o.Str, o.Found, len(o.List), o.Max, o.Count)
}

type w4Creation struct {
	at      int64
	limited bool // made after the global budget was exhausted
}

type w4MetricState struct {
	creations  []w4Creation // successful creations since the last reset
	resetValue int64        // 0: never reset (or reset to default)
	hasReset   bool
	resetAt    int64 // clock reading of the reset operation
	// the reset was made after the global budget was exhausted: from then on every creation of the
	// metric is accounted (before that a creation puts the metric's budget back to the maximum)
	resetLimited bool
}

type w4MapModel struct {
	opt           Options
	fwd           map[string]int32
	rev           map[int32]string
	everUsed      map[int32]bool
	maxCreated    int32
	metrics       map[string]*w4MetricState
	bootstrap     []tlstatshouse.Mapping
	resetsEver    int
	clockWentBack bool

	renamesSinceRestart int
	resetsSinceRestart  int
	allowResets         bool
	focusKey            int
	focus               bool            // flood-focused run: one metric, mostly creations
	dirtyByReset        map[string]bool // metric -> budget was reset and no mapping created since

	// bulk runs: one PutMapping call of 501-999 fresh keys (ids from 1000), later one deletion call that
	// names all (or nearly all) of them: the largest call the deletion API takes, replayed as one event
	bulk        bool
	bulkIDs     []int32
	bulkDeleted bool
}

func newW4MapModel(opt Options) *w4MapModel {
	return &w4MapModel{opt: opt, fwd: map[string]int32{}, rev: map[int32]string{}, everUsed: map[int32]bool{}, metrics: map[string]*w4MetricState{}, dirtyByReset: map[string]bool{}}
}

func (m *w4MapModel) afterRestart() {}

var w4Metrics = []string{"mm0", "mm1", "mm2"}

func (m *w4MapModel) gen(c *verifsim.Choices) w4MapIn {
	key := func() string { return fmt.Sprintf("k%d", c.Intn(12, "key")) }
	if m.bulk && m.bulkIDs == nil && c.Intn(3, "bulk_put") == 0 {
		n := 501 + c.Intn(499, "bulk_n")
		in := w4MapIn{Kind: "put"}
		for i := 0; i < n; i++ {
			in.Keys = append(in.Keys, fmt.Sprintf("b%d", i))
			in.Vals = append(in.Vals, int32(1000+i))
		}
		m.bulkIDs = in.Vals
		return in
	}
	if m.bulk && m.bulkIDs != nil && !m.bulkDeleted && c.Intn(3, "bulk_delete") == 0 {
		m.bulkDeleted = true
		in := w4MapIn{Kind: "delete"}
		skip := c.Intn(4, "bulk_keep") // 0: every id of the bulk, else: the last 1-3 stay
		in.IDs = append(in.IDs, m.bulkIDs[:len(m.bulkIDs)-skip]...)
		return in
	}
	if m.focus && m.allowResets && c.Intn(10, "ff_reset") == 0 {
		// flood-focused runs with resets: the one busy metric is reset to a small value now and then
		return w4MapIn{Kind: "reset", Metric: w4Metrics[0], Limit: int64(1 + c.Intn(3, "ff_resetlimit"))}
	}
	if m.focus && c.Intn(8, "ff_op") != 7 {
		// fresh keys so that every call is a creation attempt
		m.focusKey++
		return w4MapIn{Kind: "getorcreate", Metric: w4Metrics[0], Key: fmt.Sprintf("f%d", m.focusKey)}
	}
	switch k := c.Intn(12, "mapop"); {
	case k <= 5:
		return w4MapIn{Kind: "getorcreate", Metric: w4Metrics[c.Intn(len(w4Metrics), "metric")], Key: key()}
	case k == 6:
		n := 1 + c.Intn(2, "putn")
		in := w4MapIn{Kind: "put"}
		for i := 0; i < n; i++ {
			in.Keys = append(in.Keys, key())
			in.Vals = append(in.Vals, int32(1+c.Intn(40, "putid")))
		}
		return in
	case k == 7:
		n := 1 + c.Intn(3, "deln")
		in := w4MapIn{Kind: "delete"}
		ids := m.sortedIDs()
		for i := 0; i < n; i++ {
			if len(ids) > 0 && c.Intn(4, "del_existing") != 3 {
				in.IDs = append(in.IDs, ids[c.Intn(len(ids), "delidx")])
			} else {
				in.IDs = append(in.IDs, int32(1+c.Intn(40, "delid")))
			}
		}
		return in
	case k == 8 && m.allowResets:
		return w4MapIn{Kind: "reset", Metric: w4Metrics[c.Intn(len(w4Metrics), "metric")], Limit: int64([]int{0, 1, 2, 5, -1}[c.Intn(5, "resetlimit")])}
	case k == 9:
		return w4MapIn{Kind: "byid", ID: int32(1 + c.Intn(45, "byid"))}
	case k == 10:
		if c.Intn(2, "readkind") == 0 {
			return w4MapIn{Kind: "byvalue", Key: key()}
		}
		return w4MapIn{Kind: "newmappings", From: int32(c.Intn(20, "from")), Page: int32(1 + c.Intn(20, "page"))}
	default:
		if c.Intn(2, "bootkind") == 0 {
			in := w4MapIn{Kind: "putbootstrap"}
			for i := 0; i < 1+c.Intn(3, "bootn"); i++ {
				in.Keys = append(in.Keys, key())
				in.Vals = append(in.Vals, int32(1+c.Intn(40, "bootid")))
			}
			return in
		}
		return w4MapIn{Kind: "getbootstrap"}
	}
}

func (m *w4MapModel) sortedIDs() []int32 {
	ids := make([]int32, 0, len(m.rev))
	for id := range m.rev {
		ids = append(ids, id)
	}
	sort.Slice(ids, func(a, b int) bool { return ids[a] < ids[b] })
	return ids
}

func (w *w4World) doMap(in w4MapIn) w4MapOut {
	ctx := context.Background()
	switch in.Kind {
	case "getorcreate":
		resp, err := w.db.GetOrCreateMapping(ctx, in.Metric, in.Key)
		if err != nil {
			return w4MapOut{Err: err.Error()}
		}
		switch {
		case resp.IsCreated():
			cr, _ := resp.AsCreated()
			return w4MapOut{Class: "created", ID: cr.Id}
		case resp.IsGetMappingResponse():
			g, _ := resp.AsGetMappingResponse()
			return w4MapOut{Class: "existing", ID: g.Id}
		case resp.IsFloodLimitError():
			return w4MapOut{Class: "flood"}
		}
		return w4MapOut{Class: "other"}
	case "put":
		if err := w.db.PutMapping(ctx, in.Keys, in.Vals); err != nil {
			return w4MapOut{Err: err.Error()}
		}
		return w4MapOut{Class: "ok"}
	case "delete":
		n, err := w.db.deleteMappingsByIdBatched(ctx, in.IDs)
		if err != nil {
			return w4MapOut{Err: err.Error()}
		}
		return w4MapOut{Class: "ok", Count: n}
	case "reset":
		_, after, err := w.db.ResetFlood(ctx, in.Metric, in.Limit)
		if err != nil {
			return w4MapOut{Err: err.Error()}
		}
		return w4MapOut{Class: "ok", Count: int32(after)}
	case "byid":
		s, ok, err := w.db.GetMappingByID(ctx, in.ID)
		if err != nil {
			return w4MapOut{Err: err.Error()}
		}
		return w4MapOut{Class: "read", Str: s, Found: ok}
	case "byvalue":
		id, notExists, err := w.db.GetMappingByValue(ctx, in.Key)
		if err != nil {
			return w4MapOut{Err: err.Error()}
		}
		return w4MapOut{Class: "read", ID: id, Found: !notExists}
	case "newmappings":
		l, max, err := w.db.GetNewMappings(ctx, in.From, in.Page, nil)
		if err != nil {
			return w4MapOut{Err: err.Error()}
		}
		return w4MapOut{Class: "read", List: l, Max: max}
	case "putbootstrap":
		var ms []tlstatshouse.Mapping
		for i := range in.Keys {
			ms = append(ms, tlstatshouse.Mapping{Str: in.Keys[i], Value: in.Vals[i]})
		}
		err := w.db.eng.Do(ctx, "put_bootstrap", func(conn sqlite.Conn, cache []byte) ([]byte, error) {
			_, cache, err := applyPutBootstrap(conn, cache, ms)
			return cache, err
		})
		if err != nil {
			return w4MapOut{Err: err.Error()}
		}
		return w4MapOut{Class: "ok"}
	default:
		bs, err := w.db.GetBootstrap(ctx)
		if err != nil {
			return w4MapOut{Err: err.Error()}
		}
		return w4MapOut{Class: "read", List: bs.Mappings}
	}
}

func w4Steps(a, b int64, step uint32) int64 {
	if step == 0 {
		return 0
	}
	s := b/int64(step) - a/int64(step)
	if s < 0 {
		return 0
	}
	return s
}

// checkMaps applies completed mapping operations to the model in invocation order (the engine's
// single read-write connection executes them in that order: one operation is issued per
// quiescent point and runs its SQL before it parks waiting for the commit).
func (w *w4World) checkMaps() {
	r := w.r
	m := w.maps
	for _, op := range w.history {
		if op.family != "map" || op.mout.Checked {
			continue
		}
		if !op.done {
			return // keep invocation order
		}
		op.mout.Checked = true
		in, out := op.min, op.mout
		r.Extra["mapping_ops_checked"]++
		if out.Err != "" && in.Kind != "delete" {
			r.Fail("C19", "map_op_error", in.Kind, "%s failed: %s", in, out.Err)
			return
		}
		switch in.Kind {
		case "getorcreate":
			id, exists := m.fwd[in.Key]
			ms := m.metrics[in.Metric]
			if ms == nil {
				ms = &w4MetricState{}
				m.metrics[in.Metric] = ms
			}
			switch out.Class {
			case "existing":
				if !exists || id != out.ID {
					r.Fail("C19", "mapping_changed", "getorcreate", "%s answered existing id %d, model has %v (exists=%v): a mapping changed or appeared without a create", in, out.ID, id, exists)
					return
				}
			case "created":
				if exists {
					r.Fail("C19", "duplicate_mapping", "getorcreate", "%s created id %d although the string is already mapped to %d", in, out.ID, id)
					return
				}
				if out.ID <= 0 || m.everUsed[out.ID] {
					r.Fail("C19", "id_reused", "getorcreate", "%s handed out id %d which was already used before (deleted ids must never return)", in, out.ID)
					return
				}
				if _, taken := m.rev[out.ID]; taken {
					r.Fail("C19", "id_collision", "getorcreate", "%s handed out id %d which is mapped to %q", in, out.ID, m.rev[out.ID])
					return
				}
				exhausted := int64(m.maxCreated) > m.opt.GlobalBudget
				m.fwd[in.Key] = out.ID
				m.rev[out.ID] = in.Key
				m.everUsed[out.ID] = true
				if out.ID > m.maxCreated {
					m.maxCreated = out.ID
				}
				ms.creations = append(ms.creations, w4Creation{at: op.at, limited: exhausted})
				delete(m.dirtyByReset, in.Metric)
				if exhausted {
					r.Probe("creation_under_flood_limit_regime")
					n := len(ms.creations)
					base := m.opt.MaxBudget
					if ms.hasReset && ms.resetValue > base {
						base = ms.resetValue
					}
					// with a clock that also steps back, "elapsed steps" of a window is measured up to the
					// latest instant seen inside it (a bucket legitimately keeps the bonus it earned while
					// the clock was ahead)
					hi := op.at
					for i := n - 1; i >= 0 && ms.creations[i].limited; i-- {
						if ms.creations[i].at > hi {
							hi = ms.creations[i].at
						}
						cnt := int64(n - i)
						b := base
						if ms.hasReset && ms.resetLimited && ms.resetValue <= m.opt.MaxBudget {
							// a reset to a value below the maximum: what the metric can have at creation i is that
							// value plus the bonus of the steps since the reset, capped by the maximum
							// (steps up to the latest instant seen since the reset: the bucket's time mark never moves
							// back, so bonus earned by an earlier creation while the clock was ahead stays)
							seen := ms.resetAt
							for j := 0; j <= i; j++ {
								if ms.creations[j].at > seen {
									seen = ms.creations[j].at
								}
							}
							b = ms.resetValue + m.opt.BudgetBonus*w4Steps(ms.resetAt, seen, m.opt.StepSec)
							if b > m.opt.MaxBudget {
								b = m.opt.MaxBudget
							}
						}
						allowed := b + m.opt.BudgetBonus*w4Steps(ms.creations[i].at, hi, m.opt.StepSec)
						if cnt > allowed {
							sig := "steady"
							if m.clockWentBack {
								sig = "clock-went-back"
							}
							if ms.hasReset && ms.resetLimited && ms.resetValue <= m.opt.MaxBudget {
								sig += ":after-reset-to-value"
							}
							r.Fail("C19", "flood_limit_exceeded", sig, "metric %q created %d mappings between t=%d and t=%d; budget %d + bonus %d x %d elapsed steps allows %d", in.Metric, cnt, ms.creations[i].at, op.at, b, m.opt.BudgetBonus, w4Steps(ms.creations[i].at, hi, m.opt.StepSec), allowed)
							return
						}
					}
				}
			case "flood":
				if exists {
					r.Fail("C19", "mapping_changed", "getorcreate", "%s answered flood limit although the string is mapped to %d", in, id)
					return
				}
				r.Probe("flood_limit_error_returned")
			default:
				r.Fail("C19", "map_bad_answer", "getorcreate", "%s -> %s", in, out)
				return
			}
		case "put":
			for i, k := range in.Keys {
				v := in.Vals[i]
				if old, ok := m.fwd[k]; ok {
					delete(m.rev, old)
				}
				if oldk, ok := m.rev[v]; ok {
					delete(m.fwd, oldk)
				}
				m.fwd[k] = v
				m.rev[v] = k
				m.everUsed[v] = true
			}
		case "delete":
			if out.Err != "" {
				r.Fail("C19", "map_op_error", in.Kind, "%s failed: %s", in, out.Err)
				return
			}
			var present int32
			seen := map[int32]bool{}
			for _, id := range in.IDs {
				if k, ok := m.rev[id]; ok && !seen[id] {
					present++
					delete(m.rev, id)
					delete(m.fwd, k)
				}
				seen[id] = true
			}
			if out.Count != present {
				r.Fail("C19", "delete_count", "delete", "%s reported %d present ids, model has %d", in, out.Count, present)
				return
			}
		case "reset":
			m.resetsEver++
			m.resetsSinceRestart++
			m.dirtyByReset[in.Metric] = true
			ms := m.metrics[in.Metric]
			if ms == nil {
				ms = &w4MetricState{}
				m.metrics[in.Metric] = ms
			}
			ms.creations = nil
			if in.Limit <= 0 {
				ms.hasReset, ms.resetValue = false, 0
			} else {
				ms.hasReset, ms.resetValue = true, int64(out.Count) // the value the API says it set
				ms.resetAt = op.at
				ms.resetLimited = int64(m.maxCreated) > m.opt.GlobalBudget
				if int64(out.Count) > in.Limit {
					r.Fail("C19", "reset_value", "reset", "%s reports budget %d above the requested limit", in, out.Count)
					return
				}
			}
		case "byid":
			k, ok := m.rev[in.ID]
			if ok != out.Found || (ok && k != out.Str) {
				r.Fail("C19", "mapping_changed", "byid", "%s -> %q found=%v, model: %q found=%v", in, out.Str, out.Found, k, ok)
				return
			}
		case "byvalue":
			id, ok := m.fwd[in.Key]
			if ok != out.Found || (ok && id != out.ID) {
				r.Fail("C19", "mapping_changed", "byvalue", "%s -> %d found=%v, model: %d found=%v", in, out.ID, out.Found, id, ok)
				return
			}
		case "newmappings":
			var want []tlstatshouse.Mapping
			for _, id := range m.sortedIDs() {
				if id > in.From {
					want = append(want, tlstatshouse.Mapping{Value: id, Str: m.rev[id]})
				}
			}
			n := len(want)
			if n > int(in.Page) {
				n = int(in.Page)
			}
			bad := len(out.List) != n
			for i := 0; !bad && i < n; i++ {
				bad = out.List[i] != want[i]
			}
			if ids := m.sortedIDs(); len(ids) > 0 && out.Max != ids[len(ids)-1] {
				bad = true
			}
			if bad {
				r.Fail("C19", "mapping_listing", "newmappings", "%s -> %v max=%d, model wants first %d of %v", in, out.List, out.Max, n, want)
				return
			}
		case "putbootstrap":
			m.bootstrap = nil
			for i := range in.Keys {
				m.bootstrap = append(m.bootstrap, tlstatshouse.Mapping{Str: in.Keys[i], Value: in.Vals[i]})
			}
		case "getbootstrap":
			bad := len(out.List) != len(m.bootstrap)
			for i := 0; !bad && i < len(m.bootstrap); i++ {
				bad = out.List[i] != m.bootstrap[i]
			}
			if bad {
				r.Fail("C16", "bootstrap_mismatch", "bootstrap", "getBootstrap -> %v, last put was %v", out.List, m.bootstrap)
				return
			}
		}
	}
}
