//go:build verif

package metadata

// W4: metadata database (real DBV2 -> real sqlite.Engine (cgo SQLite) -> real fsbinlog) inside a
// synctest bubble; concurrent clients; commit notifications gated by the scheduler; restarts from
// the binlog into a fresh file and from an older backup. Decides C15, C16, C19.

import (
	"context"
	"errors"
	"fmt"
	"os"
	"path/filepath"
	"reflect"
	"sort"
	"strings"
	"testing"
	"time"
	"unsafe"

	"github.com/anishathalye/porcupine"
	"github.com/myxo/gofs"
	pgrand "pgregory.net/rand"

	"github.com/VKCOM/statshouse/internal/data_model"
	"github.com/VKCOM/statshouse/internal/data_model/gen2/tlstatshouse"
	"github.com/VKCOM/statshouse/internal/format"
	"github.com/VKCOM/statshouse/internal/sqlite"
	"github.com/VKCOM/statshouse/internal/verifsim"
	"github.com/VKCOM/statshouse/internal/vkgo/binlog"
	"github.com/VKCOM/statshouse/internal/vkgo/binlog/fsbinlog"
)

var w4RunCounter int

// ---- gated binlog: commit notifications become scheduler decisions -------------------------

type w4Binlog struct {
	fsbinlog.BinlogReadWrite
	w *w4World
}

func (b *w4Binlog) Run(off int64, meta, cmeta []byte, e binlog.Engine) error {
	return b.BinlogReadWrite.Run(off, meta, cmeta, &w4GateEngine{Engine: e, w: b.w})
}

type w4GateEngine struct {
	binlog.Engine
	w *w4World
}

func (g *w4GateEngine) Commit(off int64, meta []byte, safe int64) error {
	if g.w.gate {
		ch := make(chan struct{})
		g.w.parked = append(g.w.parked, ch)
		<-ch // durably blocked, no lock held by the fsbinlog writer here
	}
	return g.Engine.Commit(off, meta, safe)
}

// ---- world ------------------------------------------------------------------------------------

type w4Op struct {
	family string // "ent" or "map"
	in     w4In
	min    w4MapIn
	out    w4Out
	mout   w4MapOut
	call   uint64
	ret    uint64
	done   bool
	at     int64 // simulated unix time at invocation (Options.Now value)
}

type w4Client struct {
	id   int
	ch   chan *w4Op
	cur  *w4Op
	busy bool
}

type w4World struct {
	r *verifsim.Run
	c *verifsim.Choices

	dir    string
	memfs  *gofs.InMemoryFS
	db     *DBV2
	dbFile string
	opt    Options
	now    time.Time // Options.Now
	gate   bool
	parked []chan struct{}

	clients []*w4Client
	history []*w4Op // completed + in flight, in invocation order

	init  w4State // entity model state at the start of the current porcupine window
	seq   w4State // sequential model applied in invocation order
	known []w4KnownVer
	names [5][]string

	maps *w4MapModel

	backups         []w4Backup
	nfile           int
	conn            *w4MockConn
	followerByQuery map[int64]*w4Follower
	handler         *Handler
	calling         *w4Follower // follower whose RawGetJournal call is executing
	heldFollower    *w4Follower // follower parked at the hook after the handler's re-check
	holdFollowers   bool        // this run parks follower calls at that hook
	// successful saves completed since the last broadcastJournal began, and the newest version they made
	savesSinceBroadcast int
	maxVerSeen          int64
	followers           []*w4Follower
	nextQuery           int64
	broadcasting        bool
	broadcastPanic      string
	aborted             bool // a restart comparison failed: the rest of the run would only show consequences
}

type w4KnownVer struct {
	id, ver int64
	typ     int32
	name    string
}

type w4Backup struct {
	path string
}

func w4Exec(t *testing.T, r *verifsim.Run) {
	verifsim.Bubble(t, func(t *testing.T) { w4Run(t, r) })
}

func (w *w4World) open(dbFile string) error {
	bopt := fsbinlog.Options{PrefixPath: "/mb", Magic: 3456, Fs: w.memfs}
	zero := time.Duration(0)
	bopt.WriteCallDelay = &zero
	bl, err := fsbinlog.NewFsBinlog(&binlog.EmptyLogger{}, bopt)
	if err != nil {
		return err
	}
	w.gate = false
	db, err := OpenDB(dbFile, w.opt, &w4Binlog{BinlogReadWrite: bl, w: w})
	if err != nil {
		return err
	}
	w.db = db
	w.dbFile = dbFile
	w.rebindHandler()
	return nil
}

// stopEngine closes the DB and also cancels the engine context so that its txLoop goroutine
// (which Close leaves running) exits instead of leaking one timer goroutine per instance.
func (w *w4World) closeDB() error {
	w.gate = false
	w.releaseAll()
	err := w.db.Close()
	f := reflect.ValueOf(w.db.eng).Elem().FieldByName("stop")
	if f.IsValid() {
		stop := *(*func())(unsafe.Pointer(f.UnsafeAddr()))
		if stop != nil {
			stop()
		}
	}
	time.Sleep(1100 * time.Millisecond) // let txLoop observe the cancellation
	verifsim.Wait()
	w.db = nil
	return err
}

func (w *w4World) releaseAll() {
	for len(w.parked) > 0 {
		ch := w.parked[0]
		w.parked = w.parked[1:]
		close(ch)
		verifsim.Wait()
	}
}

func w4Run(t *testing.T, r *verifsim.Run) {
	c := r.C
	rng := verifsim.NewSplitMix(c.Seed ^ 0x77)
	pgrand.SetSimSource(rng.Next)
	defer pgrand.SetSimSource(nil)
	w4RunCounter++
	base := os.Getenv("VERIF_TMP")
	if base == "" {
		base = "/dev/shm"
	}
	w := &w4World{r: r, c: c}
	w.dir = filepath.Join(base, fmt.Sprintf("w4-%d-%d", os.Getpid(), w4RunCounter))
	_ = os.RemoveAll(w.dir)
	if err := os.MkdirAll(w.dir, 0755); err != nil {
		panic(err)
	}
	defer os.RemoveAll(w.dir)
	start := time.Now()
	defer func() { r.SimNanos = int64(time.Since(start)) }()

	// swarm configuration
	nClients := 1 + c.Intn(4, "clients")
	gated := c.Intn(3, "gated") != 0
	nOps := 8 + c.Intn(40, "ops")
	w.opt = Options{
		MaxBudget:    int64([]int{3, 1, 8, 500}[c.Intn(4, "maxbudget")]),
		StepSec:      uint32([]int{60, 10, 3600}[c.Intn(3, "stepsec")]),
		BudgetBonus:  int64([]int{1, 0, 3, 100}[c.Intn(4, "bonus")]),
		GlobalBudget: int64([]int{0, 4, 1000000}[c.Intn(3, "globalbudget")]),
		Now:          func() time.Time { return w.now },
	}
	// a quarter of the runs concentrate on the token bucket: one metric, tiny budgets, global budget
	// exhausted from the start, clock moving by whole budget steps
	floodFocus := c.Intn(4, "flood_focus") == 1
	if floodFocus {
		w.opt.MaxBudget = int64(1 + c.Intn(3, "ff_max"))
		w.opt.BudgetBonus = int64(1 + c.Intn(2, "ff_bonus"))
		w.opt.GlobalBudget = 0
	}
	r.Config["flood_focus"] = floodFocus
	clockMode := c.Intn(4, "clockmode") // 0 steady 1 long idle periods 2 jumps forward 3 jumps backward too
	mapShare := c.Intn(3, "mapshare")   // 0: mostly entities, 1: mixed, 2: mostly mappings
	restarts := c.Intn(3, "restarts")
	r.Config["clients"], r.Config["gated"], r.Config["ops"] = nClients, gated, nOps
	r.Config["max_budget"], r.Config["step_sec"], r.Config["bonus"], r.Config["global_budget"] = w.opt.MaxBudget, w.opt.StepSec, w.opt.BudgetBonus, w.opt.GlobalBudget
	r.Config["clock_mode"], r.Config["map_share"], r.Config["restarts"] = clockMode, mapShare, restarts
	w.now = time.Unix(1_700_000_000+int64(c.Intn(5000, "t0")), 0)
	w.names = [5][]string{
		// "ns0"/"ns1" as names of metrics and dashboards: an entity of another type named like a namespace
		// is not that namespace
		format.MetricEvent:       {"m0", "m1", "m2", "ns0:m0", "ns0:m1", "ns1:m0", "ns1"},
		format.DashboardEvent:    {"d0", "d1", "ns0"},
		format.MetricsGroupEvent: {"g0_", "g1_", "ns0:g_"},
		format.PromConfigEvent:   {"prom"},
		format.NamespaceEvent:    {"ns0", "ns1"},
	}
	w.maps = newW4MapModel(w.opt)
	w.maps.allowResets = c.Intn(3, "with_flood_resets") == 1
	w.maps.focus = floodFocus
	if floodFocus {
		mapShare = 2
	}
	r.Config["flood_resets"] = w.maps.allowResets
	// hash-derived, so that the choice vector of every other run keeps its meaning
	w.maps.bulk = !floodFocus && c.Keyed(8, 7200) == 1
	r.Config["bulk_mapping_put_and_delete"] = w.maps.bulk

	w.memfs = gofs.NewThreadSafeMemoryFs()
	if _, err := fsbinlog.CreateEmptyFsBinlog(fsbinlog.Options{PrefixPath: "/mb", Magic: 3456, Fs: w.memfs}); err != nil {
		panic(err)
	}
	w.nfile++
	if err := w.open(filepath.Join(w.dir, fmt.Sprintf("db%d", w.nfile))); err != nil {
		panic(err)
	}
	for i := 0; i < nClients; i++ {
		cl := &w4Client{id: i, ch: make(chan *w4Op)}
		w.clients = append(w.clients, cl)
		go w.clientLoop(cl)
	}
	if nf := c.Intn(4, "followers"); nf > 0 {
		w.holdFollowers = c.Intn(2, "hold_followers") == 1
		w.initFollowers(nf)
	}
	r.Config["journal_followers"] = len(w.followers)
	defer func() {
		w.closeFollowers()
		for _, cl := range w.clients {
			close(cl.ch)
		}
		if w.db != nil {
			_ = w.closeDB()
		}
	}()

	issued := 0
	restartAt := map[int]bool{}
	for i := 0; i < restarts; i++ {
		restartAt[1+c.Intn(nOps, "restart_at")] = true
	}
	for step := 0; step < nOps*6 && !r.Failed() && !w.aborted; step++ {
		verifsim.Wait()
		w.collect()
		if r.Failed() {
			break
		}
		idle := w.idleClients()
		inflight := nClients - len(idle)
		if issued >= nOps && inflight == 0 {
			break
		}
		if restartAt[issued] && issued > 0 {
			delete(restartAt, issued)
			w.drain()
			w.restart()
			continue
		}
		// enabled actions
		type act struct{ kind string }
		var acts []act
		if len(idle) > 0 && issued < nOps {
			acts = append(acts, act{"issue"})
		}
		if len(w.parked) > 0 {
			acts = append(acts, act{"commit"})
		}
		acts = append(acts, act{"clock"})
		// RawGetJournal and broadcastJournal take the handler's client-list mutex and may wait for a
		// binlog commit while holding it; a second caller would wait on that mutex (not a durable
		// block, the fake clock would freeze), so only one of them is in flight at a time
		handlerBusy := w.broadcasting
		for _, f := range w.followers {
			handlerBusy = handlerBusy || f.busy
		}
		if !handlerBusy {
			for _, f := range w.followers {
				if w.followerIdle(f) {
					acts = append(acts, act{"follow"})
					break
				}
			}
			if len(w.followers) > 0 {
				acts = append(acts, act{"broadcast"})
			}
		} else if w.heldFollower != nil && !w.broadcasting {
			// a follower call is parked between the handler's re-check and its registration. It may go on
			// at any time; the second half of an edit (broadcastJournal) may run meanwhile only if the
			// handler lets it, i.e. if the parked call does not hold the client-list mutex (a broadcast
			// waiting on that mutex would freeze the simulated clock, and would be no interleaving anyway)
			acts = append(acts, act{"release_follower"})
			if w.clientListFree() {
				acts = append(acts, act{"broadcast"})
			}
		}
		if len(w.backups) < 2 && issued > 2 {
			acts = append(acts, act{"backup"})
		}
		a := acts[c.Intn(len(acts), "act")]
		switch a.kind {
		case "issue":
			cl := idle[c.Intn(len(idle), "client")]
			w.gate = gated
			op := w.genOp(mapShare)
			op.call = r.Seq()
			op.at = w.now.Unix()
			cl.cur, cl.busy = op, true
			w.history = append(w.history, op)
			r.Sched("issue", fmt.Sprintf("client%d", cl.id))
			if op.family == "ent" {
				r.Event(fmt.Sprintf("client%d", cl.id), "invoke %s", op.in)
			} else {
				r.Event(fmt.Sprintf("client%d", cl.id), "invoke %s", op.min)
			}
			issued++
			cl.ch <- op
		case "follow":
			var idle []*w4Follower
			for _, f := range w.followers {
				if w.followerIdle(f) {
					idle = append(idle, f)
				}
			}
			w.gate = gated
			w.startFollow(idle[c.Intn(len(idle), "follower")])
		case "release_follower":
			r.Sched("release", fmt.Sprintf("follower%d", w.heldFollower.id))
			r.Event(fmt.Sprintf("follower%d", w.heldFollower.id), "goes on after the re-check")
			w.releaseHeld()
		case "broadcast":
			// second half of RawEditEntity (SaveEntity; broadcastJournal) as its own step
			r.Sched("broadcast", "handler")
			r.Event("handler", "broadcastJournal")
			w.broadcasting = true
			w.savesSinceBroadcast = 0
			go func() {
				defer func() {
					if p := recover(); p != nil {
						w.broadcastPanic = fmt.Sprint(p)
					}
					w.broadcasting = false
				}()
				w.handler.broadcastJournal()
			}()
		case "commit":
			r.Sched("commit", "binlog")
			ch := w.parked[0]
			w.parked = w.parked[1:]
			r.Fault("commit_delayed")
			close(ch)
		case "clock":
			// commit notifications must not be outstanding while time passes: the engine's
			// periodic commit waits for them holding its connection lock (see DESIGN.md section 7)
			w.releaseAll()
			var d time.Duration
			switch {
			case floodFocus:
				d = time.Duration(c.Intn(5, "ff_steps")) * time.Duration(w.opt.StepSec) * time.Second
				if d == 0 {
					d = time.Second
				}
			default:
			}
			switch clockMode {
			case 0:
				d = time.Duration(1+c.Intn(3, "dt")) * time.Second
			case 1:
				d = []time.Duration{time.Second, time.Duration(w.opt.StepSec) * time.Second, 5 * time.Duration(w.opt.StepSec) * time.Second}[c.Intn(3, "dt")]
			default:
				d = []time.Duration{time.Second, 30 * time.Second, time.Duration(w.opt.StepSec) * time.Second, 1000 * time.Second}[c.Intn(4, "dt")]
			}
			if floodFocus {
				d = time.Duration(c.Intn(5, "ff_steps2")) * time.Duration(w.opt.StepSec) * time.Second
				if d == 0 {
					d = time.Second
				}
			}
			back := clockMode == 3 && c.Intn(4, "back") == 1
			r.Sched("clock", "clock")
			if back {
				w.now = w.now.Add(-d)
				r.Fault("clock_jump_back")
				w.maps.clockWentBack = true
			} else {
				w.now = w.now.Add(d)
				if d > 10*time.Second {
					r.Fault("clock_jump_forward")
				}
			}
			r.Event("clock", "now=%d back=%v", w.now.Unix(), back)
			time.Sleep(1100 * time.Millisecond) // engine's periodic commit fires
		case "backup":
			w.drain()
			r.Sched("backup", "admin")
			p, err := w.db.backup(context.Background(), filepath.Join(w.dir, "snap"))
			if err != nil {
				r.Event("admin", "backup failed: %v", err)
				r.Probe("backup_failed")
			} else {
				w.backups = append(w.backups, w4Backup{path: p})
				r.Event("admin", "backup #%d taken", len(w.backups))
			}
		}
	}
	if r.Failed() || w.aborted {
		return
	}
	w.drain()
	if r.Failed() {
		return
	}
	w.checkLinearizable()
	if r.Failed() {
		return
	}
	// followers: one last broadcast, then everybody polls until parked
	if len(w.followers) > 0 {
		w.savesSinceBroadcast = 0
		w.handler.broadcastJournal()
		w.finalFollowerCheck()
		if r.Failed() {
			return
		}
	}
	// final restart comparison (C16) in every run
	w.restart()
}

func (w *w4World) clientLoop(cl *w4Client) {
	for op := range cl.ch {
		func() {
			defer func() {
				if p := recover(); p != nil {
					op.out.Err = fmt.Sprintf("PANIC: %v", p)
					op.mout.Err = op.out.Err
				}
				op.done = true
			}()
			if op.family == "ent" {
				op.out = w.doEnt(op.in)
			} else {
				op.mout = w.doMap(op.min)
			}
		}()
	}
}

func (w *w4World) idleClients() []*w4Client {
	var out []*w4Client
	for _, cl := range w.clients {
		if !cl.busy {
			out = append(out, cl)
		}
	}
	return out
}

// collect records returns of operations that completed since the last quiescent point.
func (w *w4World) collect() {
	r := w.r
	for _, cl := range w.clients {
		if cl.busy && cl.cur.done {
			op := cl.cur
			op.ret = r.Seq()
			cl.busy = false
			if op.family == "ent" {
				r.Event(fmt.Sprintf("client%d", cl.id), "return %s", op.out)
				if strings.HasPrefix(op.out.Err, "PANIC") {
					r.Fail(r.Prop, "panic", "panic:client", "operation %s panicked: %s", op.in, op.out.Err)
				}
				w.learn(op)
				if op.in.Kind == "save" && op.out.Err == "" {
					w.savesSinceBroadcast++
					if op.out.Ver > w.maxVerSeen {
						w.maxVerSeen = op.out.Ver
					}
				}
			} else {
				r.Event(fmt.Sprintf("client%d", cl.id), "return %s", op.mout)
				if strings.HasPrefix(op.mout.Err, "PANIC") {
					r.Fail(r.Prop, "panic", "panic:client", "operation %s panicked: %s", op.min, op.mout.Err)
				}
			}
		}
	}
	w.checkMaps()
	if w.broadcastPanic != "" {
		r.Fail("C15", "panic", "panic:broadcast", "broadcastJournal panicked: %s", w.broadcastPanic)
	}
	w.collectFollowers()
	w.checkLongPolls()
}

// checkLongPolls: when every completed save has been followed by a broadcast that started after it
// (broadcastJournal is the second half of an edit) and nothing of the handler is in flight, a follower
// registered as a long poll must already have the newest version: otherwise it was registered past a
// broadcast it should have been part of and now waits for an edit that may never come.
func (w *w4World) checkLongPolls() {
	if w.r.Failed() || w.savesSinceBroadcast != 0 || w.broadcasting || w.heldFollower != nil {
		return
	}
	for _, f := range w.followers {
		if f.busy || !f.parked || f.asyncReady {
			continue
		}
		if f.pos < w.maxVerSeen {
			w.r.Fail("C15", "journal_long_poll_missed", "registered-past-broadcast", "follower %d waits in a long poll from version %d although version %d exists and every completed save has been broadcast: the journal will not return that version to it until some later edit", f.id, f.pos, w.maxVerSeen)
			return
		}
	}
}

// drain completes everything in flight.
func (w *w4World) drain() {
	for i := 0; i < 1000; i++ {
		verifsim.Wait()
		w.releaseHeld()
		w.collect()
		if len(w.parked) > 0 {
			ch := w.parked[0]
			w.parked = w.parked[1:]
			close(ch)
			continue
		}
		followersBusy := w.broadcasting
		for _, f := range w.followers {
			followersBusy = followersBusy || f.busy
		}
		if len(w.idleClients()) == len(w.clients) && !followersBusy {
			return
		}
		time.Sleep(100 * time.Millisecond)
	}
	w.r.Fail(w.r.Prop, "op_hang", "hang", "operations still in flight after commit notifications were released and 100 simulated seconds passed")
}

func (w *w4World) learn(op *w4Op) {
	if op.in.Kind == "save" && op.out.Err == "" {
		w.known = append(w.known, w4KnownVer{op.out.ID, op.out.Ver, op.in.Typ, op.in.Name})
	}
}

// ---- operation generation -----------------------------------------------------------------------

func (w *w4World) genOp(mapShare int) *w4Op {
	c := w.c
	mapOp := false
	switch mapShare {
	case 0:
		mapOp = c.Intn(8, "family") == 7
	case 1:
		mapOp = c.Intn(2, "family") == 1
	default:
		mapOp = c.Intn(8, "family") != 0
	}
	if mapOp {
		return &w4Op{family: "map", min: w.maps.gen(c)}
	}
	in := w4In{Data: "{}", Meta: "meta"}
	k := c.Intn(10, "entop")
	pick := func() (w4KnownVer, bool) {
		if len(w.known) == 0 {
			return w4KnownVer{}, false
		}
		// bias to recent versions, but stale ones stay reachable (optimistic concurrency races)
		n := len(w.known)
		i := n - 1 - c.Intn(min(n, 4), "known_recent")
		if c.Intn(4, "known_any") == 1 {
			i = c.Intn(n, "known_idx")
		}
		return w.known[i], true
	}
	switch {
	case k <= 2: // create
		typ := []int32{format.MetricEvent, format.NamespaceEvent, format.MetricsGroupEvent, format.DashboardEvent, format.PromConfigEvent}[c.Intn(5, "typ")]
		names := w.names[typ]
		in.Kind, in.Typ, in.Create = "save", typ, true
		in.Name = names[c.Intn(len(names), "name")]
		if c.Intn(6, "create_deleted") == 1 {
			in.DelAt = uint32(w.now.Unix()) // an entity may be created already carrying a deletion time
		}
		if c.Intn(8, "predefined") == 1 {
			in.ID = -1 - int64(c.Intn(2, "pre_id"))
			in.Create = c.Intn(2, "pre_create") == 0
			in.Name = fmt.Sprintf("__builtin%d", -in.ID)
			in.Typ = format.MetricEvent
			if c.Intn(3, "pre_namespace") == 1 {
				// built-in namespaces have negative ids as well and, like every namespace, keep their name
				in.ID = -5 - int64(c.Intn(2, "pre_ns_id"))
				in.Name = fmt.Sprintf("__ns%d", -in.ID)
				in.Typ = format.NamespaceEvent
			}
			if kv, ok := w.latestOf(in.ID); ok {
				in.OldVer = kv.ver
			}
		}
	case k <= 6: // edit / rename / delete / undelete
		kv, ok := pick()
		if !ok {
			in.Kind, in.Typ, in.Create, in.Name = "save", format.MetricEvent, true, "m0"
			break
		}
		in.Kind, in.Typ, in.ID, in.OldVer, in.Name = "save", kv.typ, kv.id, kv.ver, kv.name
		if cur := w.seq.find(kv.id); cur >= 0 && c.Intn(3, "use_current_name") != 2 {
			in.Name = w.seq.Ents[cur].Name
		}
		switch c.Intn(5, "editkind") {
		case 1: // rename
			names := w.names[kv.typ]
			in.Name = names[c.Intn(len(names), "newname")]
			if kv.id < 0 {
				in.Name = fmt.Sprintf("__builtin%d_%d", -kv.id, c.Intn(2, "prename"))
			}
		case 4: // names another entity's current version instead of its own
			if n := len(w.seq.Ents); n > 1 {
				o := w.seq.Ents[c.Intn(n, "foreign_version_of")]
				if o.ID != kv.id {
					in.OldVer = o.Ver
				}
			}
		case 2:
			in.DelAt = uint32(w.now.Unix())
		case 3:
			in.Data = fmt.Sprintf(`{"v":%d}`, c.Intn(5, "data"))
		}
		in.Meta = fmt.Sprintf("meta%d", c.Intn(3, "meta"))
	case k <= 7:
		in.Kind = "journal"
		in.Page = int64(1 + c.Intn(30, "page"))
		if kv, ok := pick(); ok && c.Intn(2, "since0") == 1 {
			in.Since = kv.ver - int64(c.Intn(2, "since_minus"))
		}
	case k == 8:
		in.Kind = "getver"
		if kv, ok := pick(); ok {
			in.ID, in.Ver = kv.id, kv.ver+int64(c.Intn(2, "ver_plus"))
		} else {
			in.ID, in.Ver = 1, 1
		}
	default:
		in.Kind = "history"
		if kv, ok := pick(); ok {
			in.ID = kv.id
		} else {
			in.ID = 1
		}
	}
	return &w4Op{family: "ent", in: in}
}

func (w *w4World) latestOf(id int64) (w4KnownVer, bool) {
	for i := len(w.known) - 1; i >= 0; i-- {
		if w.known[i].id == id {
			return w.known[i], true
		}
	}
	return w4KnownVer{}, false
}

// ---- executing entity operations against the real DB -------------------------------------------

func w4ErrClass(err error) string {
	switch {
	case err == nil:
		return ""
	case errors.Is(err, errMetricIsExist):
		return "exists"
	case errors.Is(err, errInvalidMetricVersion):
		return "version"
	case errors.Is(err, errNamespaceNotExists):
		return "ns_missing"
	case errors.Is(err, data_model.ErrEntityNotExists):
		return "notfound"
	case strings.Contains(err.Error(), "can't rename namespace"):
		return "ns_rename"
	case strings.Contains(err.Error(), "constraint") || strings.Contains(err.Error(), "UNIQUE"):
		return "conflict"
	}
	return "other:" + err.Error()
}

func (w *w4World) doEnt(in w4In) w4Out {
	ctx := context.Background()
	switch in.Kind {
	case "save":
		ev, err := w.db.SaveEntity(ctx, in.Name, in.ID, in.OldVer, in.Data, in.Create, in.DelAt, in.Typ, in.Meta)
		if err != nil {
			raw := err.Error()
			if len(raw) > 160 {
				raw = raw[:160]
			}
			if os.Getenv("VERIF_DEBUG") != "" && w4ErrClass(err) == "conflict" {
				_ = w.db.eng.Do(ctx, "dbg", func(conn sqlite.Conn, cache []byte) ([]byte, error) {
					rows := conn.Query("dbg1", "SELECT id, version, name, type FROM metrics_v5 ORDER BY id")
					for rows.Next() {
						a, _ := rows.ColumnInt64(0)
						b, _ := rows.ColumnInt64(1)
						n, _ := rows.ColumnBlobString(2)
						fmt.Printf("DBG metrics_v5 id=%d ver=%d name=%s\n", a, b, n)
					}
					rows = conn.Query("dbg2", "SELECT entity_id, version, name FROM entity_history ORDER BY version")
					for rows.Next() {
						a, _ := rows.ColumnInt64(0)
						b, _ := rows.ColumnInt64(1)
						n, _ := rows.ColumnBlobString(2)
						fmt.Printf("DBG history id=%d ver=%d name=%s\n", a, b, n)
					}
					rows = conn.Query("dbg3", "SELECT name, seq FROM sqlite_sequence")
					for rows.Next() {
						n, _ := rows.ColumnBlobString(0)
						b, _ := rows.ColumnInt64(1)
						fmt.Printf("DBG seq %s=%d\n", n, b)
					}
					return cache, nil
				})
			}
			return w4Out{Err: w4ErrClass(err), Raw: raw}
		}
		return w4Out{ID: ev.Id, Ver: ev.Version, NsID: ev.NamespaceId}
	case "journal":
		evs, err := w.db.JournalEvents(ctx, in.Since, in.Page)
		if err != nil {
			return w4Out{Err: w4ErrClass(err)}
		}
		out := w4Out{Journal: []w4JEv{}}
		for _, e := range evs {
			out.Journal = append(out.Journal, w4JEv{e.Id, e.Version, e.Name, e.NamespaceId, e.EventType, e.Unused, e.Data})
		}
		return out
	case "getver":
		e, err := w.db.GetEntityVersioned(ctx, in.ID, in.Ver)
		if err != nil {
			return w4Out{Err: w4ErrClass(err)}
		}
		return w4Out{Hist: &w4Hist{e.Id, e.Version, e.Name, e.Data, e.Metadata, e.NamespaceId, e.EventType}}
	default:
		h, err := w.db.GetHistoryShort(ctx, in.ID)
		if err != nil {
			return w4Out{Err: w4ErrClass(err)}
		}
		out := w4Out{HistVer: []int64{}}
		for _, e := range h.Events {
			out.HistVer = append(out.HistVer, e.Version)
		}
		return out
	}
}

// ---- C15: linearizability of the recorded entity history ----------------------------------------

func (w *w4World) checkLinearizable() {
	r := w.r
	var ops []porcupine.Operation
	seqOK := true
	st := w.init
	var firstBad *w4Op
	for _, op := range w.history {
		if op.family != "ent" || !op.done {
			continue
		}
		ops = append(ops, porcupine.Operation{ClientId: 0, Input: op.in, Call: int64(op.call), Output: op.out, Return: int64(op.ret)})
		if seqOK {
			ok, ns := w4Step(st, op.in, op.out)
			if !ok {
				seqOK = false
				firstBad = op
			} else {
				st = ns
			}
		}
	}
	r.Extra["entity_ops_checked"] += len(ops)
	if seqOK {
		w.seq = st
		w.init = st
		w.clearEntHistory()
		return
	}
	// not explained by invocation order: ask porcupine whether ANY linearization explains it
	res := porcupine.CheckOperationsTimeout(w4PorcupineModel(w.init), ops, 20*time.Second)
	switch res {
	case porcupine.Ok:
		r.Probe("linearizable_but_not_in_invocation_order")
		// recompute the final state is not possible without the order; stop using seq
		w.clearEntHistory()
	case porcupine.Illegal:
		cls := "result"
		if firstBad.in.Kind == "save" {
			cls = "save:" + firstBad.out.Err
			if firstBad.out.Err == "" {
				cls = "save:ok"
			}
		} else {
			cls = firstBad.in.Kind
		}
		r.Fail("C15", "not_linearizable", cls, "history of %d entity operations has no linearization against the versioned-entity model; first operation that the model rejects in invocation order: %s -> %s", len(ops), firstBad.in, firstBad.out)
	default:
		r.Probe("porcupine_timeout_inconclusive")
		w.clearEntHistory()
	}
}

func (w *w4World) clearEntHistory() {
	var keep []*w4Op
	for _, op := range w.history {
		if op.family != "ent" {
			keep = append(keep, op)
		}
	}
	w.history = keep
}

// ---- C16: restart and compare ---------------------------------------------------------------------

type w4Dump struct {
	lines []string
}

func (w *w4World) dump(db *DBV2) (w4Dump, error) {
	ctx := context.Background()
	var d w4Dump
	add := func(f string, a ...any) { d.lines = append(d.lines, fmt.Sprintf(f, a...)) }
	since := int64(0)
	ids := map[int64]bool{}
	for guard := 0; guard < 1000; guard++ {
		evs, err := db.JournalEvents(ctx, since, 7)
		if err != nil {
			return d, err
		}
		if len(evs) == 0 {
			break
		}
		for _, e := range evs {
			add("journal id=%d ver=%d name=%q ns=%d type=%d deleted=%d updated=%d data=%s", e.Id, e.Version, e.Name, e.NamespaceId, e.EventType, e.Unused, e.UpdateTime, e.Data)
			ids[e.Id] = true
			since = e.Version
		}
	}
	var idl []int64
	for id := range ids {
		idl = append(idl, id)
	}
	sort.Slice(idl, func(a, b int) bool { return idl[a] < idl[b] })
	for _, id := range idl {
		h, err := db.GetHistoryShort(ctx, id)
		if err != nil {
			return d, err
		}
		for _, he := range h.Events {
			e, err := db.GetEntityVersioned(ctx, id, he.Version)
			if err != nil {
				add("history id=%d ver=%d ERROR %v", id, he.Version, err)
				continue
			}
			add("history id=%d ver=%d meta=%q name=%q ns=%d type=%d updated=%d data=%s", id, he.Version, he.Metadata, e.Name, e.NamespaceId, e.EventType, e.UpdateTime, e.Data)
		}
	}
	ms, maxID, err := db.GetNewMappings(ctx, -1<<31, 1<<20, nil)
	if err != nil {
		return d, err
	}
	add("mappings max=%d", maxID)
	for _, m := range ms {
		add("mapping %d=%q", m.Value, m.Str)
		s, ok, err := db.GetMappingByID(ctx, m.Value)
		if err != nil || !ok || s != m.Str {
			add("mapping by id %d -> %q %v %v", m.Value, s, ok, err)
		}
		id, notExists, err := db.GetMappingByValue(ctx, m.Str)
		if err != nil || notExists || id != m.Value {
			add("mapping by value %q -> %d %v %v", m.Str, id, notExists, err)
		}
	}
	// flood-limit rows (white box: the public ResetFlood reports an unrelated metric's budget)
	err = db.eng.Do(ctx, "dump_flood", func(conn sqlite.Conn, cache []byte) ([]byte, error) {
		// typeof(): a key stored as TEXT is a different key than the same bytes stored as BLOB (the
		// server looks budgets up with a BLOB parameter), so the storage class is part of the state
		rows := conn.Query("dump_flood", "SELECT metric_name, last_time_update, count_free, typeof(metric_name) FROM flood_limits ORDER BY metric_name, typeof(metric_name)")
		for rows.Next() {
			n, _ := rows.ColumnBlobString(0)
			t, _ := rows.ColumnInt64(1)
			cf, _ := rows.ColumnInt64(2)
			ty, _ := rows.ColumnBlobString(3)
			add("flood %q last=%d free=%d keytype=%s", n, t, cf, ty)
		}
		if rows.Error() != nil {
			return cache, rows.Error()
		}
		rows = conn.Query("dump_mapping_types", "SELECT typeof(name), count(*) FROM mappings GROUP BY typeof(name) ORDER BY 1")
		for rows.Next() {
			ty, _ := rows.ColumnBlobString(0)
			n, _ := rows.ColumnInt64(1)
			add("mappingtypes %s=%d", ty, n)
		}
		return cache, rows.Error()
	})
	if err != nil {
		return d, err
	}
	bs, err := db.GetBootstrap(ctx)
	if err != nil {
		return d, err
	}
	for _, m := range bs.Mappings {
		add("bootstrap %d=%q", m.Value, m.Str)
	}
	return d, nil
}

func w4DiffClass(a, b []string) (string, string) {
	am := map[string]bool{}
	for _, l := range a {
		am[l] = true
	}
	bm := map[string]bool{}
	for _, l := range b {
		bm[l] = true
	}
	var onlyA, onlyB []string
	for _, l := range a {
		if !bm[l] {
			onlyA = append(onlyA, l)
		}
	}
	for _, l := range b {
		if !am[l] {
			onlyB = append(onlyB, l)
		}
	}
	kinds := map[string]bool{}
	for _, l := range append(append([]string{}, onlyA...), onlyB...) {
		kinds[strings.SplitN(l, " ", 2)[0]] = true
	}
	var ks []string
	for k := range kinds {
		ks = append(ks, k)
	}
	sort.Strings(ks)
	detail := fmt.Sprintf("only in primary: %v; only after replay: %v", head4(onlyA), head4(onlyB))
	return strings.Join(ks, "+"), detail
}

func head4(s []string) []string {
	if len(s) > 4 {
		return append(append([]string{}, s[:4]...), fmt.Sprintf("... %d more", len(s)-4))
	}
	return s
}

// restart: dump the primary, close it, reopen (a) from the binlog into a fresh file and (b) from
// an older backup + binlog; compare; continue the run on one of the reopened databases.
func (w *w4World) restart() {
	r := w.r
	w.checkLinearizable()
	if r.Failed() {
		return
	}
	r.Sched("restart", "admin")
	prim, err := w.dump(w.db)
	if err != nil {
		r.Fail(r.Prop, "dump_failed", "dump", "cannot read the primary's state: %v", err)
		return
	}
	renamed := w.maps.renamesSinceRestart // only for the signature of C16 violations
	_ = renamed
	if err := w.closeDB(); err != nil {
		r.Event("admin", "close error: %v", err)
		r.Probe("close_error")
	}
	r.Extra["restarts"]++
	// (a) fresh file
	w.nfile++
	fresh := filepath.Join(w.dir, fmt.Sprintf("db%d", w.nfile))
	if err := w.open(fresh); err != nil {
		r.Fail("C16", "replay_failed", "fresh", "reopening from the binlog into a fresh database file failed: %v", err)
		w.aborted = true
		return
	}
	d2, err := w.dump(w.db)
	if err != nil {
		r.Fail("C16", "dump_failed", "dump", "cannot read replayed state: %v", err)
		return
	}
	if cls, detail := w4DiffClass(prim.lines, d2.lines); cls != "" {
		r.Fail("C16", "replay_state_differs", "fresh:"+cls+w.c16Hint(prim.lines, d2.lines), "state after replaying the binlog into a fresh file differs from the primary (%s): %s", cls, detail)
		w.aborted = true
		return
	}
	r.Event("admin", "restart: fresh replay equals primary (%d lines)", len(prim.lines))
	// (b) from an older backup
	if len(w.backups) > 0 {
		b := w.backups[w.c.Intn(len(w.backups), "backup_idx")]
		if err := w.closeDB(); err != nil {
			r.Probe("close_error")
		}
		w.nfile++
		snap := filepath.Join(w.dir, fmt.Sprintf("db%d", w.nfile))
		data, err := os.ReadFile(b.path)
		if err != nil {
			panic(err)
		}
		if err := os.WriteFile(snap, data, 0644); err != nil {
			panic(err)
		}
		if err := w.open(snap); err != nil {
			r.Fail("C16", "replay_failed", "snapshot", "reopening from a backup plus the binlog failed: %v", err)
			w.aborted = true
			return
		}
		d3, err := w.dump(w.db)
		if err != nil {
			r.Fail("C16", "dump_failed", "dump", "cannot read replayed state: %v", err)
			return
		}
		if cls, detail := w4DiffClass(prim.lines, d3.lines); cls != "" {
			r.Fail("C16", "replay_state_differs", "snapshot:"+cls+w.c16Hint(prim.lines, d3.lines), "state after catching up from an older backup differs from the primary (%s): %s", cls, detail)
			w.aborted = true
			return
		}
		r.Extra["snapshot_restarts"]++
		r.Event("admin", "restart: snapshot catch-up equals primary")
	}
	w.maps.afterRestart()
}

// c16Hint classifies a difference for known-finding matching without hiding other differences:
// the recorded finding applies only if every differing line is a flood-limit row of a metric
// whose budget was reset and that created no mapping since (a creation event rewrites the row).
func (w *w4World) c16Hint(a, b []string) string {
	only := true
	any := false
	for _, pair := range [][2][]string{{a, b}, {b, a}} {
		m := map[string]bool{}
		for _, l := range pair[1] {
			m[l] = true
		}
		for _, l := range pair[0] {
			if m[l] {
				continue
			}
			any = true
			var name string
			if _, err := fmt.Sscanf(l, "flood %q", &name); err != nil || !w.maps.dirtyByReset[name] {
				only = false
			}
		}
	}
	if any && only {
		return ":after-reset-flood"
	}
	return ""
}

func TestVerifW4(t *testing.T) {
	verifsim.Main(t, &verifsim.World{Name: "w4_metadata", Props: []string{"C15", "C16", "C19"}, Exec: w4Exec})
}

var _ = tlstatshouse.Mapping{}
