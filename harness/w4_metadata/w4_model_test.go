//go:build verif

package metadata

// Sequential reference model of the metadata entity store (C15) used both directly (applied in
// invocation order) and as a porcupine model for the linearizability check.

import (
	"fmt"
	"sort"
	"strings"

	"github.com/anishathalye/porcupine"

	"github.com/VKCOM/statshouse/internal/format"
)

type w4Ent struct {
	ID      int64
	Typ     int32
	Name    string
	NsID    int64
	Ver     int64
	Deleted uint32
	Data    string
}

type w4Hist struct {
	ID   int64
	Ver  int64
	Name string
	Data string
	Meta string
	NsID int64
	Typ  int32
}

// immutable by convention: every mutating step copies.
type w4State struct {
	Ents   []w4Ent // sorted by ID
	Hist   []w4Hist
	MaxVer int64
}

func (s w4State) clone() w4State {
	return w4State{Ents: append([]w4Ent(nil), s.Ents...), Hist: append([]w4Hist(nil), s.Hist...), MaxVer: s.MaxVer}
}

func (s w4State) find(id int64) int {
	for i := range s.Ents {
		if s.Ents[i].ID == id {
			return i
		}
	}
	return -1
}

func (s w4State) byName(typ int32, name string) int {
	for i := range s.Ents {
		if s.Ents[i].Typ == typ && s.Ents[i].Name == name {
			return i
		}
	}
	return -1
}

func (s w4State) key() string {
	var b strings.Builder
	fmt.Fprintf(&b, "%d|", s.MaxVer)
	for _, e := range s.Ents {
		fmt.Fprintf(&b, "%d,%d,%s,%d,%d,%d,%s;", e.ID, e.Typ, e.Name, e.NsID, e.Ver, e.Deleted, e.Data)
	}
	fmt.Fprintf(&b, "|%d", len(s.Hist))
	return b.String()
}

type w4In struct {
	Kind   string // save, journal, getver, history
	Name   string
	ID     int64
	OldVer int64
	Typ    int32
	Create bool
	DelAt  uint32
	Data   string
	Meta   string
	Since  int64
	Page   int64
	Ver    int64
}

type w4JEv struct {
	ID      int64
	Ver     int64
	Name    string
	NsID    int64
	Typ     int32
	Deleted uint32
	Data    string
}

type w4Out struct {
	Err     string // "", exists, version, ns_missing, ns_rename, conflict, notfound, other:<text>
	ID      int64
	Ver     int64
	NsID    int64
	Journal []w4JEv
	Hist    *w4Hist
	HistVer []int64
	Raw     string // raw error text, for logs only (never compared)
}

func (i w4In) String() string {
	switch i.Kind {
	case "save":
		return fmt.Sprintf("save(name=%q id=%d old=%d typ=%d create=%v del=%d)", i.Name, i.ID, i.OldVer, i.Typ, i.Create, i.DelAt)
	case "journal":
		return fmt.Sprintf("journal(since=%d page=%d)", i.Since, i.Page)
	case "getver":
		return fmt.Sprintf("getver(id=%d ver=%d)", i.ID, i.Ver)
	default:
		return fmt.Sprintf("history(id=%d)", i.ID)
	}
}

func (o w4Out) String() string {
	if o.Err != "" {
		if o.Raw != "" {
			return "err:" + o.Err + " (" + o.Raw + ")"
		}
		return "err:" + o.Err
	}
	if o.Journal != nil {
		var b strings.Builder
		b.WriteString("[")
		for _, j := range o.Journal {
			fmt.Fprintf(&b, "%d@%d:%s ", j.ID, j.Ver, j.Name)
		}
		return b.String() + "]"
	}
	if o.Hist != nil {
		return fmt.Sprintf("hist{%d@%d %s}", o.Hist.ID, o.Hist.Ver, o.Hist.Name)
	}
	if o.HistVer != nil {
		return fmt.Sprintf("versions%v", o.HistVer)
	}
	return fmt.Sprintf("ok id=%d ver=%d ns=%d", o.ID, o.Ver, o.NsID)
}

// w4Step is the sequential specification. Returns whether out is a legal result of in on s and
// the resulting state.
func w4Step(s w4State, in w4In, out w4Out) (bool, w4State) {
	switch in.Kind {
	case "save":
		return w4StepSave(s, in, out)
	case "journal":
		var want []w4JEv
		idx := make([]int, 0, len(s.Ents))
		for i, e := range s.Ents {
			if e.Ver > in.Since {
				idx = append(idx, i)
			}
		}
		sort.Slice(idx, func(a, b int) bool { return s.Ents[idx[a]].Ver < s.Ents[idx[b]].Ver })
		for _, i := range idx {
			e := s.Ents[i]
			want = append(want, w4JEv{e.ID, e.Ver, e.Name, e.NsID, e.Typ, e.Deleted, e.Data})
		}
		if out.Err != "" {
			return false, s
		}
		// the answer must be a prefix of `want`, cut only by the requested page (payloads are tiny,
		// so the byte limit cannot bind)
		n := len(want)
		if int64(n) > in.Page {
			n = int(in.Page)
		}
		if len(out.Journal) != n {
			return false, s
		}
		for i := 0; i < n; i++ {
			if out.Journal[i] != want[i] {
				return false, s
			}
		}
		return true, s
	case "getver":
		for i := range s.Hist {
			h := s.Hist[i]
			if h.ID == in.ID && h.Ver == in.Ver {
				return out.Err == "" && out.Hist != nil && *out.Hist == h, s
			}
		}
		return out.Err == "notfound", s
	case "history":
		var vs []int64
		for _, h := range s.Hist {
			if h.ID == in.ID {
				vs = append(vs, h.Ver)
			}
		}
		sort.Slice(vs, func(a, b int) bool { return vs[a] > vs[b] })
		if out.Err != "" || len(out.HistVer) != len(vs) {
			return false, s
		}
		for i := range vs {
			if vs[i] != out.HistVer[i] {
				return false, s
			}
		}
		return true, s
	}
	return false, s
}

func w4StepSave(s w4State, in w4In, out w4Out) (bool, w4State) {
	fail := func(class string) (bool, w4State) { return out.Err == class, s }
	// namespaces cannot be renamed; an edit must name the namespace's current version
	if in.Typ == format.NamespaceEvent && !in.Create {
		i := s.find(in.ID)
		if i < 0 || s.Ents[i].Typ != format.NamespaceEvent || s.Ents[i].Ver != in.OldVer {
			return fail("ns_missing")
		}
		if s.Ents[i].Name != in.Name {
			return fail("ns_rename")
		}
	}
	// entities in a namespace must reference an existing namespace
	var nsID int64
	if in.Typ == format.MetricEvent || in.Typ == format.MetricsGroupEvent {
		if ns, _ := format.SplitNamespace(in.Name); ns != "" {
			i := s.byName(format.NamespaceEvent, ns)
			if i < 0 {
				return fail("ns_missing")
			}
			nsID = s.Ents[i].ID
		}
	}
	if in.Create && s.byName(in.Typ, in.Name) >= 0 {
		return fail("exists")
	}
	create := in.Create
	fixed := false
	if in.ID < 0 { // predefined entity: created on first save, edited afterwards
		if s.find(in.ID) >= 0 {
			create = false
		} else {
			create, fixed = true, true
		}
	}
	if !create {
		i := s.find(in.ID)
		if i < 0 || s.Ents[i].Ver != in.OldVer {
			return fail("version")
		}
		// names are unique per type (namespace is part of the name)
		if j := s.byName(s.Ents[i].Typ, in.Name); j >= 0 && j != i {
			return fail("conflict")
		}
		if out.Err != "" || out.ID != in.ID || out.Ver <= s.MaxVer || out.NsID != nsID {
			return false, s
		}
		n := s.clone()
		e := &n.Ents[i]
		e.Name, e.Ver, e.Deleted, e.Data, e.NsID = in.Name, out.Ver, in.DelAt, in.Data, nsID
		n.MaxVer = out.Ver
		n.Hist = append(n.Hist, w4Hist{e.ID, out.Ver, in.Name, in.Data, in.Meta, nsID, in.Typ})
		return true, n
	}
	if fixed && s.byName(in.Typ, in.Name) >= 0 {
		return fail("conflict")
	}
	if out.Err != "" || out.Ver <= s.MaxVer || out.NsID != nsID {
		return false, s
	}
	if fixed {
		if out.ID != in.ID {
			return false, s
		}
	} else if out.ID <= 0 || s.find(out.ID) >= 0 {
		return false, s
	}
	n := s.clone()
	n.Ents = append(n.Ents, w4Ent{ID: out.ID, Typ: in.Typ, Name: in.Name, NsID: nsID, Ver: out.Ver, Deleted: in.DelAt, Data: in.Data})
	sort.Slice(n.Ents, func(a, b int) bool { return n.Ents[a].ID < n.Ents[b].ID })
	n.MaxVer = out.Ver
	n.Hist = append(n.Hist, w4Hist{out.ID, out.Ver, in.Name, in.Data, in.Meta, nsID, in.Typ})
	return true, n
}

func w4PorcupineModel(init w4State) porcupine.Model {
	return porcupine.Model{
		Init: func() interface{} { return init },
		Step: func(st, in, out interface{}) (bool, interface{}) {
			ok, ns := w4Step(st.(w4State), in.(w4In), out.(w4Out))
			return ok, ns
		},
		Equal: func(a, b interface{}) bool { return a.(w4State).key() == b.(w4State).key() },
		DescribeOperation: func(in, out interface{}) string {
			return in.(w4In).String() + " -> " + out.(w4Out).String()
		},
	}
}
