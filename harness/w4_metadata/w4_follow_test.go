//go:build verif

package metadata

// Journal followers on top of W4 (C15, last clause): real Handler.RawGetJournal / broadcastJournal
// with long polls over a mock rpc connection. RawEditEntity is SaveEntity followed by
// broadcastJournal; the world performs the two halves as separate scheduler actions, so a
// follower can fetch and park between them.

import (
	"context"
	"fmt"
	"net"

	"github.com/VKCOM/tl/pkg/rpc"

	"github.com/VKCOM/statshouse/internal/data_model/gen2/tlmetadata"
	"github.com/VKCOM/statshouse/internal/verifhook"
)

type w4MockConn struct {
	w       *w4World
	pending map[int64]*w4Follower // query id -> follower parked in a long poll
}

func (c *w4MockConn) StartLongpoll(hctx *rpc.HandlerContext, canceller rpc.LongpollCanceller) (rpc.LongpollHandle, error) {
	qid := hctx.QueryID()
	f := c.w.followerByQuery[qid]
	c.pending[qid] = f
	return rpc.LongpollHandle{QueryID: qid, CommonConn: c}, nil
}
func (c *w4MockConn) CancelLongpoll(queryID int64) (rpc.LongpollCanceller, int64) { return nil, 0 }
func (c *w4MockConn) FinishLongpoll(lh rpc.LongpollHandle) (*rpc.HandlerContext, error) {
	if _, ok := c.pending[lh.QueryID]; !ok {
		return nil, fmt.Errorf("no such long poll")
	}
	h := &rpc.HandlerContext{}
	h.ResetTo(c, lh.QueryID)
	return h, nil
}
func (c *w4MockConn) DebugName() string { return "w4mock" }
func (c *w4MockConn) SendResponse(hctx *rpc.HandlerContext, err error) {
	qid := hctx.QueryID()
	f := c.pending[qid]
	delete(c.pending, qid)
	if f == nil {
		return
	}
	f.asyncResp = append([]byte(nil), hctx.Response...)
	f.asyncErr = err
	f.asyncReady = true
}
func (c *w4MockConn) SendEmptyResponse(lh rpc.LongpollHandle)                    {}
func (c *w4MockConn) AccountResponseMem(hctx *rpc.HandlerContext, est int) error { return nil }
func (c *w4MockConn) ListenAddr() net.Addr                                       { return &net.TCPAddr{} }
func (c *w4MockConn) LocalAddr() net.Addr                                        { return &net.TCPAddr{} }
func (c *w4MockConn) RemoteAddr() net.Addr                                       { return &net.TCPAddr{} }
func (c *w4MockConn) KeyID() [4]byte                                             { return [4]byte{} }
func (c *w4MockConn) ProtocolVersion() uint32                                    { return 0 }
func (c *w4MockConn) ProtocolTransportID() byte                                  { return 0 }
func (c *w4MockConn) ConnectionID() uintptr                                      { return 1 }

type w4Follower struct {
	id   int
	pos  int64 // version the follower has
	got  []w4JEv
	busy bool // a RawGetJournal call is executing
	// request in flight / parked
	args       tlmetadata.GetJournalnew
	parked     bool
	asyncReady bool
	asyncResp  []byte
	asyncErr   error
	// synchronous completion
	done    bool
	syncErr error
	resp    []byte
	ch      chan struct{}
	// hold: this call parks at the hook metadata.getjournal.after_recheck (after the handler's second
	// read, before it registers the long poll) until the scheduler releases it
	hold bool
	held bool
	gate chan struct{}
}

func (w *w4World) initFollowers(n int) {
	w.conn = &w4MockConn{w: w, pending: map[int64]*w4Follower{}}
	w.followerByQuery = map[int64]*w4Follower{}
	w.handler = &Handler{
		db:                w.db,
		getJournalClients: &GetJournalClients{host: "sim", clients: map[rpc.LongpollHandle]tlmetadata.GetJournalnew{}},
		getMappingClients: &GetMappingClients{host: "sim", clients: map[rpc.LongpollHandle]tlmetadata.GetNewMappings{}},
		host:              "sim",
		log:               func(s string, args ...interface{}) {},
	}
	for i := 0; i < n; i++ {
		f := &w4Follower{id: i, ch: make(chan struct{})}
		w.followers = append(w.followers, f)
		go w.followerLoop(f)
	}
	verifhook.SetOnPoint(func(name string) {
		if name != "metadata.getjournal.after_recheck" {
			return
		}
		f := w.calling
		if f == nil || !f.hold {
			return
		}
		f.hold, f.held = false, true
		w.heldFollower = f
		w.r.Probe("follower_held_between_recheck_and_registration")
		<-f.gate // parked here: in the unchanged code with the handler's client-list mutex held
		f.held = false
	})
}

// releaseHeld lets a follower parked at the hook go on (it then answers or registers its long poll).
func (w *w4World) releaseHeld() {
	if f := w.heldFollower; f != nil {
		w.heldFollower = nil
		close(f.gate)
	}
}

// clientListFree: nobody holds the handler's client-list mutex at this quiescent instant.
func (w *w4World) clientListFree() bool {
	if w.handler.getJournalClients.mx.TryLock() {
		w.handler.getJournalClients.mx.Unlock()
		return true
	}
	return false
}

func (w *w4World) followerLoop(f *w4Follower) {
	for range f.ch {
		func() {
			defer func() {
				if p := recover(); p != nil {
					f.syncErr = fmt.Errorf("PANIC: %v", p)
				}
				f.done = true
			}()
			w.nextQuery++
			qid := w.nextQuery
			w.followerByQuery[qid] = f
			hctx := &rpc.HandlerContext{}
			hctx.ResetTo(w.conn, qid)
			hctx.Request = f.args.WriteTL1(nil)
			f.parked = false
			w.calling = f
			_, err := w.handler.RawGetJournal(context.Background(), hctx)
			w.calling = nil
			if _, isParked := w.conn.pending[qid]; isParked && err == nil {
				f.parked = true
				return
			}
			f.syncErr = err
			f.resp = append([]byte(nil), hctx.Response...)
		}()
	}
}

// closeFollowers ends follower goroutines (parked long polls are simply forgotten).
func (w *w4World) closeFollowers() {
	w.releaseHeld()
	verifhook.SetOnPoint(nil)
	for _, f := range w.followers {
		close(f.ch)
	}
	w.followers = nil
}

// handler must follow the database across restarts
func (w *w4World) rebindHandler() {
	if w.handler != nil {
		w.handler.db = w.db
		w.handler.getJournalClients.clients = map[rpc.LongpollHandle]tlmetadata.GetJournalnew{}
		for q, f := range w.conn.pending {
			// the server went away: the long poll is lost, the follower will ask again
			f.parked = false
			delete(w.conn.pending, q)
		}
	}
}

func (w *w4World) followerIdle(f *w4Follower) bool { return !f.busy && !f.parked }

func (w *w4World) startFollow(f *w4Follower) {
	c := w.c
	f.args = tlmetadata.GetJournalnew{From: f.pos, Limit: int64(1 + c.Intn(20, "follow_limit"))}
	f.busy, f.done, f.syncErr, f.resp = true, false, nil, nil
	f.hold, f.gate = w.holdFollowers && c.Intn(3, "hold_after_recheck") == 1, make(chan struct{})
	w.r.Sched("follow", fmt.Sprintf("follower%d", f.id))
	w.r.Event(fmt.Sprintf("follower%d", f.id), "getJournal from=%d limit=%d", f.args.From, f.args.Limit)
	f.ch <- struct{}{}
}

// collectFollowers consumes synchronous returns and long-poll responses.
func (w *w4World) collectFollowers() {
	r := w.r
	for _, f := range w.followers {
		if f.busy && f.done {
			f.busy = false
			if f.parked {
				r.Event(fmt.Sprintf("follower%d", f.id), "parked in long poll at %d", f.pos)
				r.Probe("follower_parked")
				continue
			}
			if f.syncErr != nil {
				r.Fail("C15", "journal_follow_error", "follow", "RawGetJournal(from=%d) failed: %v", f.args.From, f.syncErr)
				return
			}
			w.consume(f, f.resp, "direct")
		}
		if f.parked && f.asyncReady {
			f.asyncReady, f.parked = false, false
			if f.asyncErr != nil {
				r.Fail("C15", "journal_follow_error", "follow", "long poll of follower %d answered with error: %v", f.id, f.asyncErr)
				return
			}
			r.Probe("follower_woken_by_broadcast")
			w.consume(f, f.asyncResp, "broadcast")
		}
		if r.Failed() {
			return
		}
	}
}

func (w *w4World) consume(f *w4Follower, body []byte, how string) {
	r := w.r
	var resp tlmetadata.GetJournalResponsenew
	if _, err := f.args.ReadResultTL1(body, &resp); err != nil {
		r.Fail("C15", "journal_follow_error", "decode", "cannot decode getJournal response: %v", err)
		return
	}
	r.Event(fmt.Sprintf("follower%d", f.id), "%s response: %d events, current=%d", how, len(resp.Events), resp.CurrentVersion)
	last := f.pos
	for _, e := range resp.Events {
		if e.Version <= last {
			sig := how
			if e.Version <= f.pos {
				sig = how + ":already-delivered"
			}
			r.Fail("C15", "journal_not_exactly_once_ascending", sig, "follower %d at version %d asked from=%d and received version %d (entity %d %q) via %s: each entity's latest version must arrive exactly once in ascending order", f.id, f.pos, f.args.From, e.Version, e.Id, e.Name, how)
			return
		}
		last = e.Version
		f.got = append(f.got, w4JEv{e.Id, e.Version, e.Name, e.NamespaceId, e.EventType, e.Unused, e.Data})
	}
	if resp.CurrentVersion < last {
		r.Fail("C15", "journal_current_version", how, "response current version %d below its last event %d", resp.CurrentVersion, last)
		return
	}
	f.pos = last
}

// finalFollowerCheck: after everything settled every follower that polls until it parks must hold
// the latest version of every entity.
func (w *w4World) finalFollowerCheck() {
	r := w.r
	if len(w.followers) == 0 || r.Failed() {
		return
	}
	for round := 0; round < 200; round++ {
		w.drain()
		w.collectFollowers()
		if r.Failed() {
			return
		}
		progressed := false
		for _, f := range w.followers {
			if w.followerIdle(f) {
				w.startFollow(f)
				progressed = true
				break // one handler call at a time (see the scheduler's handlerBusy rule)
			}
		}
		if !progressed {
			break
		}
	}
	w.drain()
	w.collectFollowers()
	if r.Failed() {
		return
	}
	want := map[int64]w4JEv{}
	evs, err := w.db.JournalEvents(context.Background(), 0, 1000)
	if err != nil {
		return
	}
	for _, e := range evs {
		want[e.Id] = w4JEv{e.Id, e.Version, e.Name, e.NamespaceId, e.EventType, e.Unused, e.Data}
	}
	for _, f := range w.followers {
		have := map[int64]w4JEv{}
		for _, e := range f.got {
			have[e.ID] = e
		}
		for id, e := range want {
			if have[id] != e {
				r.Fail("C15", "journal_follower_diverged", "final", "follower %d ended with %+v for entity %d, journal has %+v", f.id, have[id], id, e)
				return
			}
		}
	}
	r.Extra["followers_converged"] += len(w.followers)
}
