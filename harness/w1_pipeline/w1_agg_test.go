//go:build verif

package aggregator

// W1, part "aggregator": white-box constructor that fills what MakeAggregator fills, minus every
// component that would dial out, plus crash/shutdown helpers and the white-box bucket lookup.

import (
	"context"
	"fmt"
	"reflect"
	"runtime"
	"sync"
	"time"
	"unsafe"

	"github.com/VKCOM/tl/pkg/rpc"

	"github.com/VKCOM/statshouse/internal/agent"
	"github.com/VKCOM/statshouse/internal/data_model"
	"github.com/VKCOM/statshouse/internal/data_model/gen2/tlmetadata"
	"github.com/VKCOM/statshouse/internal/data_model/gen2/tlstatshouse"
	"github.com/VKCOM/statshouse/internal/format"
	"github.com/VKCOM/statshouse/internal/metajournal"
	"github.com/VKCOM/statshouse/internal/metarqlite"
	"github.com/VKCOM/statshouse/internal/pcache"
	"github.com/VKCOM/statshouse/internal/vkgo/semaphore"
)

const (
	w1MetricMarker = 1001
	w1MetricCnt    = 1002
	w1MetricVal    = 1003
	w1MetricUniq   = 1004
	w1MetricPct    = 1005
	// low-resolution counter (30 s): its rows wait in the agent's receive queue up to a minute ahead of
	// the clock. Not one of the "workload metrics" of the marker scheme (C03 and the per-second clauses
	// of C01 ignore it like a built-in row); its rows are tracked one by one, see w1SlowKey.
	w1MetricSlow     = 1010
	w1SlowResolution = 30
)

var w1MetricNames = map[int32]string{
	w1MetricMarker: "w1_marker", w1MetricCnt: "w1_cnt", w1MetricVal: "w1_val", w1MetricUniq: "w1_uniq", w1MetricPct: "w1_pct",
	w1MetricSlow: "w1_slow",
}

func w1IsWorkloadMetric(id int32) bool { return id >= w1MetricMarker && id <= w1MetricPct }

// w1MetricStorage builds the in-memory metric metadata by applying journal events, as a journal
// loader would.
func w1MetricStorage() *metajournal.MetricsStorage {
	ms := metajournal.MakeMetricsStorage(nil)
	defs := []struct {
		id   int32
		kind string
		tag  string
	}{
		{w1MetricMarker, format.MetricKindCounter, "agent"},
		{w1MetricCnt, format.MetricKindCounter, "k"},
		{w1MetricVal, format.MetricKindValue, "k"},
		{w1MetricUniq, format.MetricKindUnique, "k"},
		{w1MetricPct, format.MetricKindValuePercentiles, "k"},
		{w1MetricSlow, format.MetricKindCounter, "agent"},
	}
	var events []tlmetadata.Event
	for i, d := range defs {
		resolution := 1
		if d.id == w1MetricSlow {
			resolution = w1SlowResolution
		}
		mv := format.MetricMetaValue{MetricID: d.id, Name: w1MetricNames[d.id], Kind: d.kind, Resolution: resolution, Weight: 1,
			Version: int64(i + 1), Tags: []format.MetricMetaTag{{}, {Name: d.tag, RawKind: "int"}}}
		if d.id != w1MetricMarker { // tag layouts of the shared keys: 2 and 3 are string tags, 4 is a second raw int tag
			mv.Tags = append(mv.Tags, format.MetricMetaTag{Name: "s2"}, format.MetricMetaTag{Name: "s3"}, format.MetricMetaTag{Name: "n4", RawKind: "int"})
		}
		ev, err := metajournal.EventFromMetricMeta(mv, "")
		if err != nil {
			panic(err)
		}
		events = append(events, ev)
	}
	ms.ApplyEvent(events)
	for _, d := range defs {
		m := ms.GetMetaMetric(d.id)
		want := 1
		if d.id == w1MetricSlow {
			want = w1SlowResolution
		}
		if m == nil || m.Name != w1MetricNames[d.id] || m.EffectiveResolution != want {
			panic(fmt.Sprintf("w1 harness: metric %d was not accepted by MetricsStorage", d.id))
		}
		if (d.kind == format.MetricKindValuePercentiles) != m.HasPercentiles {
			panic("w1 harness: percentile kind not recognised")
		}
	}
	return ms
}

func w1ConfigResult() tlstatshouse.GetConfigResult3 {
	return tlstatshouse.GetConfigResult3{Addresses: []string{"agg-r1:13336", "agg-r2:13336", "agg-r3:13336"}, ShardByMetricCount: 1}
}

func w1NopLog(string, ...interface{}) {}

// newAggregator fills the fields MakeAggregator fills (see the list in world.json / the report).
// Started: goTicker, RecentInserters x goInsert. Not started: rpc.Server, metadata/rqlite loaders,
// journals, mappings loaders, tags mapper loop, migration, internal log, scrape, autocreate,
// test-connection broadcaster, the built-in agent's Run.
func (w *w1World) newAggregator(rep *w1Replica) *Aggregator {
	config := DefaultConfigAggregator()
	config.KHAddr = rep.khAddr() // non-empty: empty means "pretend success without inserting"
	config.Cluster = "w1"
	// the remote-config path (goTicker reads the description of the metric statshouse_aggregator_remote_config
	// from the metric storage every second) is live only in the runs that change the short window at run time
	config.DisableRemoteConfig = !w.cfg.remoteWindow
	config.AutoCreate = false
	config.RecentInserters = w.cfg.inserters
	config.ShardByMetricShards = 1
	config.LocalShard = 1
	config.LocalReplica = rep.idx + 1
	config.RemoteInitial.DenyOldAgents = false // test builds have commit timestamp 0
	config.RemoteInitial.ShortWindow = w.cfg.shortWindow
	config.RemoteInitial.DisableReceiveSampleBudget = !w.cfg.receiveBudget
	config.RemoteInitial.ReceiveBudgetWarming = 0
	// C03's premise (and the marker discipline of C01): the insert budget must not bind. The default
	// floor of 300 000 bytes does bind when a dozen historic buckets share one insert.
	config.RemoteInitial.MinInsertBudget = 1 << 30
	config.RemoteInitial.ClusterShardsAddrs = w1ConfigResult().Addresses

	cancelInsertCtx, cancelInsertFunc := context.WithCancel(context.Background())
	mappingsStorage := metajournal.MakeMappings(context.Background(), 0, false, 16, []*data_model.ChunkedStorage2{data_model.NewChunkedStorageNop()})
	hostName := fmt.Sprintf("agg-r%d", rep.idx+1)

	a := &Aggregator{
		cancelInsertsCtx:  cancelInsertCtx,
		cancelInsertsFunc: cancelInsertFunc,
		bucketsToSend:     make(chan *aggregatorBucket),
		hostBudgetCache:   map[data_model.TagUnion][]tlstatshouse.MetricBudget{},
		historicBuckets:   map[uint32]*aggregatorBucket{},
		historicHosts:     [2][2]map[data_model.TagUnion]int64{{map[data_model.TagUnion]int64{}, map[data_model.TagUnion]int64{}}, {map[data_model.TagUnion]int64{}, map[data_model.TagUnion]int64{}}},
		config:            config,
		configR:           config.RemoteInitial,
		cfgNotifier:       NewConfigChangeNotifier(),
		orgMetricSize:     data_model.NewExpDecayMetrics(config.RemoteInitial.OriginalSizeDecayHalfLife),
		withoutCluster:    true,
		shardKey:          1,
		replicaKey:        int32(rep.idx + 1),
		buildArchTag:      format.GetBuildArchKey(runtime.GOARCH),
		mappingsStorage:   mappingsStorage,
		migrationConfig:   NewDefaultMigrationConfig(),
		migrationConfigV3: NewDefaultMigrationConfigV3(""),
		migrationV3Data:   MakeMigrationV3Data(mappingsStorage),
	}
	errNoAutoCreate := &rpc.Error{Code: data_model.RPCErrorNoAutoCreate}
	a.h = tlstatshouse.Handler{ // same wiring as MakeAggregator
		RawGetConfig3: func(ctx context.Context, hctx *rpc.HandlerContext) error {
			return a.handleGetConfig3(ctx, hctx)
		},
		RawGetMetrics3: a.handleGetMetrics3,
		RawGetTagMappingBootstrap: func(_ context.Context, hctx *rpc.HandlerContext) error {
			var ret tlstatshouse.GetTagMappingBootstrapResult
			hctx.Response = ret.WriteTL1Boxed(hctx.Response)
			return nil
		},
		RawSendKeepAlive2:    a.handleSendKeepAlive2,
		RawSendKeepAlive3:    a.handleSendKeepAlive3,
		RawSendSourceBucket3: a.handleSendSourceBucket3,
		RawTestConnection2: func(ctx context.Context, hctx *rpc.HandlerContext) error {
			return a.testConnection.handleTestConnection(ctx, hctx)
		},
		RawAutoCreate: func(ctx context.Context, hctx *rpc.HandlerContext) error {
			return errNoAutoCreate
		},
	}
	a.metricStorage = w1MetricStorage()
	a.metricMetaLoader = metarqlite.NewRQliteLoader("", metarqlite.DefaultMetaTimeout, nil) // passive object; the remote-config update calls its SetConfig
	if w.remoteDesc != "" {
		w1ApplyRemoteConfig(a, w.remoteDesc, w.remoteVersion) // a new process finds the journal as it is now
	}
	agentConfig := agent.DefaultConfig()
	agentConfig.Cluster = config.Cluster
	agentConfig.HistoricWindow = uint(w.cfg.window) // production: agent remote config, same on both sides
	getConfigResult := a.getConfigResult3Locked()
	mappingsCache := pcache.NewMappingsCache(data_model.NewChunkedStorageNop(), 1<<20, 86400)
	sh2, err := agent.MakeAgent("tcp4", "", "", nil, agentConfig, hostName, format.TagValueIDComponentAggregator,
		a.metricStorage, mappingsCache, nil, nil, w1NopLog, a.agentBeforeFlushBucketFunc, &getConfigResult, nil)
	if err != nil {
		panic(fmt.Sprintf("w1 harness: built-in agent: %v", err))
	}
	a.sh2 = sh2 // metric sink only, never Run
	a.testConnection = &TestConnection{testConnectionClients: map[rpc.LongpollHandle]testConnectionClient{}}
	a.tagsMapper3 = NewTagsMapper3(a, a.sh2, a.metricStorage, nil)
	a.aggregatorHostTag = data_model.TagUnion{I: int32(9001 + rep.idx)}
	a.estimator.Init()

	now := time.Now()
	a.startTimestamp = uint32(now.Unix())
	_ = a.advanceRecentBuckets(now, true)
	a.insertsSemaSize = int64(a.config.RecentInserters)
	a.insertsSema = semaphore.NewWeighted(a.insertsSemaSize)
	_ = a.insertsSema.Acquire(context.Background(), a.insertsSemaSize)

	gen := rep.gen
	rep.wg = &sync.WaitGroup{}
	rep.wg.Add(1 + a.config.RecentInserters)
	go func() {
		defer rep.wg.Done()
		defer w.guard(fmt.Sprintf("aggregator r%d g%d goTicker", rep.idx+1, gen))
		a.goTicker()
	}()
	for i := 0; i < a.config.RecentInserters; i++ {
		go func(i int) {
			defer rep.wg.Done()
			defer w.guard(fmt.Sprintf("aggregator r%d g%d goInsert", rep.idx+1, gen))
			a.goInsert(a.insertsSema, a.cancelInsertsCtx, a.bucketsToSend, i)
		}(i)
	}
	return a
}

// w1FindLongpoll is the white-box read for C10: which bucket holds the long-poll handle.
func w1FindLongpoll(a *Aggregator, lh rpc.LongpollHandle) (where string, bucketTime uint32, oldest uint32, newest uint32) {
	a.mu.Lock()
	defer a.mu.Unlock()
	if len(a.recentBuckets) != 0 {
		oldest = a.recentBuckets[0].time
		newest = a.recentBuckets[len(a.recentBuckets)-1].time
	}
	has := func(b *aggregatorBucket) bool {
		b.mu.Lock()
		defer b.mu.Unlock()
		if _, ok := b.contributors3[lh]; ok {
			return true
		}
		_, ok := b.contributors[lh]
		return ok
	}
	for _, b := range a.recentBuckets {
		if has(b) {
			return "recent", b.time, oldest, newest
		}
	}
	for t, b := range a.historicBuckets {
		if has(b) {
			if b.time != t {
				return "historic-miskeyed", t, oldest, newest
			}
			return "historic", t, oldest, newest
		}
	}
	return "none", 0, oldest, newest
}

// w1ApplyRemoteConfig delivers a journal event to this aggregator's metric storage: the metric whose
// description the aggregator reads its remote configuration from, as production delivers it.
func w1ApplyRemoteConfig(a *Aggregator, description string, version int64) {
	mv := format.MetricMetaValue{MetricID: 1100, Name: format.StatshouseAggregatorRemoteConfigMetric, Kind: format.MetricKindCounter,
		Description: description, Resolution: 1, Weight: 1, Version: version, Tags: []format.MetricMetaTag{{}}}
	ev, err := metajournal.EventFromMetricMeta(mv, "")
	if err != nil {
		panic(err)
	}
	a.metricStorage.ApplyEvent([]tlmetadata.Event{ev})
	if m := a.metricStorage.GetMetaMetricByName(format.StatshouseAggregatorRemoteConfigMetric); m == nil || m.Description != description {
		panic("w1 harness: the remote-config metric was not accepted by MetricsStorage")
	}
}

// w1ShortWindow: the short window this aggregator process works with right now (white-box; used by
// scheduling heuristics only).
func w1ShortWindow(a *Aggregator) int {
	a.configMu.RLock()
	defer a.configMu.RUnlock()
	return a.configR.ShortWindow
}

// w1InsertsDisabled: the aggregator is in shutdown (DisableNewInsert was called).
func w1InsertsDisabled(a *Aggregator) bool {
	a.mu.Lock()
	defer a.mu.Unlock()
	return a.bucketsToSend == nil
}

// ---- unexported rpc.HandlerContext fields (only the library's own connections set them) ------

var w1HctxLongpollOff, w1HctxReqTimeOff uintptr

func w1FieldOffset(t reflect.Type, name string, want reflect.Type) uintptr {
	f, ok := t.FieldByName(name)
	if !ok {
		panic(fmt.Sprintf("w1 harness: rpc.HandlerContext has no field %q any more (VKCOM/tl layout changed): cannot emulate a server connection", name))
	}
	if f.Type != want {
		panic(fmt.Sprintf("w1 harness: rpc.HandlerContext.%s has type %v, expected %v (VKCOM/tl layout changed)", name, f.Type, want))
	}
	var off uintptr
	cur := t
	for _, i := range f.Index {
		sf := cur.Field(i)
		off += sf.Offset
		cur = sf.Type
	}
	return off
}

func init() {
	t := reflect.TypeOf(rpc.HandlerContext{})
	w1HctxLongpollOff = w1FieldOffset(t, "longpollStarted", reflect.TypeOf(false))
	w1HctxReqTimeOff = w1FieldOffset(t, "requestTime", reflect.TypeOf(time.Time{}))
	// self-test: the accessor the handlers use must see what we write
	var h rpc.HandlerContext
	w1SetLongpollStarted(&h)
	if !h.LongpollStarted() {
		panic("w1 harness: cannot set rpc.HandlerContext.longpollStarted")
	}
	now := time.Unix(12345, 0)
	w1SetRequestTime(&h, now)
	if !h.RequestTime().Equal(now) {
		panic("w1 harness: cannot set rpc.HandlerContext.requestTime")
	}
}

func w1SetLongpollStarted(h *rpc.HandlerContext) {
	*(*bool)(unsafe.Add(unsafe.Pointer(h), w1HctxLongpollOff)) = true
}

func w1SetRequestTime(h *rpc.HandlerContext, t time.Time) {
	*(*time.Time)(unsafe.Add(unsafe.Pointer(h), w1HctxReqTimeOff)) = t
}
