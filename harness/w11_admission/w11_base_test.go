//go:build verif

package queue

// W11: query admission (property C29). Real: queue.Queue (round robin, white-box) and
// semaphore.Weighted (exported API). Simulated: contexts (Done channel closed by the scheduler),
// the cancel-vs-grant race window (hook points parked by the scheduler), callers (task goroutines).

import (
	"context"
	"fmt"
	"sync"
	"testing"
	"time"

	"github.com/VKCOM/statshouse/internal/verifsim"
)

const w11Prop = "C29"

// ---- simulator-owned context: cancellation is a scheduler action ----

type w11Ctx struct {
	done chan struct{}
	err  error // written before close(done)
}

func newW11Ctx() *w11Ctx                      { return &w11Ctx{done: make(chan struct{})} }
func (c *w11Ctx) Deadline() (time.Time, bool) { return time.Time{}, false }
func (c *w11Ctx) Done() <-chan struct{}       { return c.done }
func (c *w11Ctx) Value(key any) any           { return nil }
func (c *w11Ctx) cancel(err error)            { c.err = err; close(c.done) }
func (c *w11Ctx) Err() error {
	select {
	case <-c.done:
		return c.err
	default:
		return nil
	}
}

var _ context.Context = (*w11Ctx)(nil)

// ---- tasks ----

const (
	w11Live       = iota // Acquire running, context not cancelled (blocked at quiescence)
	w11Cancelling        // context cancelled in this step: must have returned or parked after Wait
	w11Limbo             // cancelled and parked at the hook point (before re-locking)
	w11Holder            // Acquire returned nil, not released yet
	w11Failed            // Acquire returned an error
	w11Released          // holder that released
)

type w11Task struct {
	id        int
	name      string
	user      int   // queue
	n         int64 // semaphore weight
	ctx       *w11Ctx
	state     int
	cancelled bool
	ticket    int
	relocking bool // was parked at the hook point, released in this step
	enq       int  // start order
	// semaphore model
	doomed   bool // n > size at call time: waits for ctx and fails (documented)
	inQueue  bool // enqueued in the model FIFO
	mGranted bool // the model has granted it

	mu       sync.Mutex // results written by the task goroutine
	returned bool
	err      error
	panicMsg string
}

func (t *w11Task) poll() (bool, error, string) {
	t.mu.Lock()
	defer t.mu.Unlock()
	return t.returned, t.err, t.panicMsg
}

type w11Base struct {
	r       *verifsim.Run
	c       *verifsim.Choices
	pts     *verifsim.Points
	arm     bool // park the goroutine that reaches a hook point in the current step
	hooks   map[string]bool
	tasks   []*w11Task
	tickets map[int]bool
	step    int
	// run-level swarm switches (drawn once per run, inherited by its episodes)
	adjustRun bool // queue episodes may call AdjustCapacity
	zeroRun   bool // semaphore episodes may use weight 0
}

func (b *w11Base) armed(name string) bool { return b.arm && b.hooks[name] }

func (b *w11Base) newTask(user int, n int64) *w11Task {
	t := &w11Task{id: len(b.tasks), user: user, n: n, ctx: newW11Ctx(), state: w11Live, enq: len(b.tasks)}
	t.name = fmt.Sprintf("t%d", t.id)
	b.tasks = append(b.tasks, t)
	return t
}

// spawn starts the task goroutine that performs one Acquire.
func (b *w11Base) spawn(t *w11Task, call func() error) {
	go func() {
		var err error
		defer func() {
			p := recover()
			t.mu.Lock()
			if p != nil {
				t.panicMsg = fmt.Sprint(p)
			}
			t.err = err
			t.returned = true
			t.mu.Unlock()
		}()
		err = call()
	}()
}

// settle waits for quiescence and attributes a new hook ticket to the task cancelled in this step.
func (b *w11Base) settle() {
	verifsim.Wait()
	b.arm = false
	b.step++
	for _, tk := range b.pts.Parked() {
		if b.tickets[tk.ID] {
			continue
		}
		b.tickets[tk.ID] = true
		for _, t := range b.tasks {
			if t.state == w11Cancelling {
				t.state = w11Limbo
				t.ticket = tk.ID
				b.r.Fault("cancel-parked-before-relock")
				b.r.Event(t.name, "parked at %s", tk.Name)
				break
			}
		}
	}
}

func (b *w11Base) count(state int) int {
	n := 0
	for _, t := range b.tasks {
		if t.state == state {
			n++
		}
	}
	return n
}

func (b *w11Base) first(state int) *w11Task {
	for _, t := range b.tasks {
		if t.state == state {
			return t
		}
	}
	return nil
}

func (b *w11Base) pick(state int, label string) *w11Task {
	var l []*w11Task
	for _, t := range b.tasks {
		if t.state == state {
			l = append(l, t)
		}
	}
	if len(l) == 0 {
		return nil
	}
	return l[b.c.Intn(len(l), label)]
}

func w11CancelErr(kind int) error {
	if kind == 1 {
		return context.DeadlineExceeded
	}
	return context.Canceled
}

// abort unblocks every goroutine of the episode after a violation (nothing is logged any more).
func (b *w11Base) abort() {
	b.arm = false
	for _, tk := range b.pts.Parked() {
		b.pts.Release(tk.ID)
	}
	for _, t := range b.tasks {
		if !t.cancelled {
			t.cancelled = true
			t.ctx.cancel(context.Canceled)
		}
	}
	verifsim.Wait()
}

func w11Exec(t *testing.T, r *verifsim.Run) {
	verifsim.Bubble(t, func(t *testing.T) { w11Run(r) })
}

func w11Run(r *verifsim.Run) {
	c := r.C
	start := time.Now()
	defer func() { r.SimNanos = int64(time.Since(start)) }()
	mode := c.Intn(3, "mode") // 0 queue, 1 semaphore, 2 both (one episode each)
	// a run is a sequence of independent episodes (fresh queue or semaphore each); more of them
	// per run in the thorough tier so that the number of runs (and of schedule signatures the
	// driver keeps) stays moderate
	maxExtra := 3
	if r.Tier == "thorough" {
		maxExtra = 100
	}
	extra := c.Range(0, maxExtra, "extra_episodes")
	adjustRun := c.Intn(3, "adjust_capacity_run") == 2
	zeroRun := c.Intn(8, "zero_weight_run") == 7
	r.Config["adjust_capacity"] = adjustRun
	r.Config["zero_weights"] = zeroRun
	r.Config["mode"] = []string{"queue", "semaphore", "both"}[mode]
	r.Config["extra_episodes"] = extra
	ep := 0
	runEp := func(sem bool) {
		if r.Failed() {
			return
		}
		b := &w11Base{r: r, c: c, hooks: map[string]bool{}, tickets: map[int]bool{}, adjustRun: adjustRun, zeroRun: zeroRun}
		b.pts = verifsim.NewPoints(b.armed)
		defer b.pts.Close()
		if sem {
			w11SemEpisode(b, ep)
		} else {
			w11QueueEpisode(b, ep)
		}
		if r.Failed() {
			b.abort()
		}
		ep++
	}
	if mode == 0 || mode == 2 {
		runEp(false)
	}
	if mode == 1 || mode == 2 {
		runEp(true)
	}
	for i := 0; i < extra; i++ {
		runEp(c.Intn(2, "extra_kind") == 1)
	}
}

func TestVerifW11(t *testing.T) {
	verifsim.Main(t, &verifsim.World{Name: "w11_admission", Props: []string{w11Prop}, Exec: w11Exec})
}
