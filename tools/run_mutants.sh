#!/bin/bash
# usage: tools/run_mutants.sh [PROP...]   runs every mutants/<PROP>-*.diff with the quick tier; prints a table
cd /verif
props="$@"
[ -z "$props" ] && props=$(ls mutants/*.diff | sed 's#mutants/\(C[0-9]*\)-.*#\1#' | sort -u)
for p in $props; do
  for m in mutants/$p-*.diff; do
    out=$(tools/try_mutant.sh $m $p --workers 8 2>&1)
    rc=$?
    clause=$(echo "$out" | grep -m1 "clause=" | sed 's/^ *//')
    echo "$(basename $m) exit=$rc $clause"
  done
done
