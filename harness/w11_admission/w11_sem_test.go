//go:build verif

package queue

import (
	"fmt"

	"github.com/VKCOM/statshouse/internal/vkgo/semaphore"
)

// Weighted semaphore episode. Reference model = the specification of a FIFO weighted semaphore:
// (size, cur, FIFO of waiters); a waiter is admitted when it is at the head and fits; a cancelled
// waiter is removed when its Acquire processes the cancellation (returns) and, if it was the head,
// the followers that now fit are admitted. Documented special case modelled, not flagged:
// Acquire(n) with n > size at call time waits for its context and fails.

type w11Hold struct {
	who string
	n   int64
}

type w11S struct {
	*w11Base
	s      *semaphore.Weighted
	mSize  int64
	mCur   int64
	mQueue []*w11Task // model FIFO: enqueued and neither admitted nor removed (includes parked ones)
	holds  []w11Hold  // outstanding weight that somebody may Release
	tryOK  bool       // TryAcquire of this step succeeded
	tryN   int64
}

func (w *w11S) fail(clause, sig, format string, args ...any) {
	// A zero-weight waiter that the specification admits while it is parked (cancellation
	// pending) changes neither cur nor any return value, so a missed admission of it cannot be
	// observed at that step; it surfaces later as a divergence of some other kind (the waiter
	// still blocks the FIFO). Such a failure is classified as what it is: the zero-weight waiter
	// was not woken.
	if clause != "panic" {
		for _, t := range w.tasks {
			if t.n == 0 && t.mGranted && t.state == w11Limbo {
				w.r.Fail(w11Prop, "sem.lost-wakeup", "zero-weight-waiter", "parked zero-weight waiter %s was at the head and fitted but was evidently not admitted; seen as %s/%s: %s",
					t.name, clause, sig, fmt.Sprintf(format, args...))
				return
			}
		}
	}
	w.r.Fail(w11Prop, clause, sig, format, args...)
}

func (w *w11S) mNotify() {
	for len(w.mQueue) > 0 {
		h := w.mQueue[0]
		if w.mSize-w.mCur < h.n {
			break
		}
		w.mCur += h.n
		w.mQueue = w.mQueue[1:]
		h.inQueue = false
		h.mGranted = true
	}
}

// mRemove models a cancelled waiter leaving the FIFO.
func (w *w11S) mRemove(t *w11Task) {
	for i, x := range w.mQueue {
		if x == t {
			w.mQueue = append(append([]*w11Task(nil), w.mQueue[:i]...), w.mQueue[i+1:]...)
			t.inQueue = false
			if i == 0 {
				before := len(w.mQueue)
				w.mNotify()
				if len(w.mQueue) < before {
					w.r.Probe("sem.head_cancel_admits_followers")
				}
			}
			return
		}
	}
}

// earlierLiveWaiter: a non-cancelled enqueued waiter that started before enq and still waits.
func (w *w11S) earlierLiveWaiter(enq int) *w11Task {
	for _, t := range w.tasks {
		if t.state == w11Live && !t.doomed && t.enq < enq {
			return t
		}
	}
	return nil
}

func (w *w11S) after(kind string) {
	r := w.r
	w.settle()
	// model effect of a cancellation that was processed in this step (not parked)
	for _, t := range w.tasks {
		if t.state == w11Cancelling && !t.relocking && t.inQueue {
			w.mRemove(t)
		}
	}
	obsCur, obsSize := w.s.Observe()
	var admitted []*w11Task
	for _, t := range w.tasks {
		if t.state != w11Live && t.state != w11Cancelling {
			continue
		}
		ret, err, pm := t.poll()
		if pm != "" {
			w.fail("panic", "panic:semaphore.Acquire", "panic in Acquire of %s: %s", t.name, pm)
			return
		}
		if !ret {
			if t.state == w11Cancelling {
				w.fail("sem.cancel-stuck", "cancelled-acquire-did-not-return", "%s: context cancelled, Acquire neither returned nor reached the hook point", t.name)
				return
			}
			if t.mGranted {
				sig := "after-" + kind
				if t.n == 0 {
					sig = "zero-weight-waiter"
				}
				w.fail("sem.lost-wakeup", sig, "after %s: %s (n=%d) is at the head and fits (size=%d cur=%d) but was not woken", kind, t.name, t.n, obsSize, obsCur)
				return
			}
			continue
		}
		wasLimbo := t.relocking
		t.relocking = false
		if err == nil {
			t.state = w11Holder
			r.Event(t.name, "acquired n=%d", t.n)
			if !t.mGranted {
				switch {
				case obsCur > obsSize:
					w.fail("sem.capacity", "admitted-over-size", "after %s: %s (n=%d) admitted, cur=%d > size=%d", kind, t.name, t.n, obsCur, obsSize)
				case w.earlierLiveWaiter(t.enq) != nil:
					w.fail("sem.fifo", "admitted-past-earlier-waiter", "after %s: %s admitted while earlier waiter %s still waits", kind, t.name, w.earlierLiveWaiter(t.enq).name)
				default:
					w.fail("sem.model", "unexpected-admission", "after %s: %s (n=%d) admitted; a FIFO semaphore with size=%d cur=%d would not", kind, t.name, t.n, w.mSize, w.mCur)
				}
				return
			}
			w.holds = append(w.holds, w11Hold{t.name, t.n})
			if wasLimbo {
				r.Probe("sem.cancel_raced_with_grant")
			} else {
				admitted = append(admitted, t)
			}
		} else {
			t.state = w11Failed
			r.Event(t.name, "failed n=%d err=%v", t.n, err)
			if !t.cancelled {
				w.fail("sem.spurious-error", "error-without-cancel", "%s: Acquire returned %v but its context was never cancelled", t.name, err)
				return
			}
			if err != t.ctx.err {
				w.fail("sem.spurious-error", "wrong-error", "%s: Acquire returned %v, ctx.Err() is %v", t.name, err, t.ctx.err)
				return
			}
			if t.mGranted && t.n == 0 {
				// a zero weight holds nothing, so this is not a leak: the waiter was entitled to
				// admission while parked (head, fits) and was not admitted
				w.fail("sem.lost-wakeup", "zero-weight-waiter", "after %s: %s (n=0) was at the head and fitted while its cancellation was pending, but was not admitted (returned %v)", kind, t.name, err)
				return
			}
			if t.mGranted {
				w.fail("sem.cancel-leak", "admitted-waiter-returned-error", "after %s: %s (n=%d) was admitted before it processed its cancellation but returned %v: its weight stays acquired", kind, t.name, t.n, err)
				return
			}
			if wasLimbo {
				r.Probe("sem.cancel_parked_then_removed")
			}
		}
	}
	r.Event("obs", "%s cur=%d size=%d waiting=%d parked=%d", kind, obsCur, obsSize, w.count(w11Live), w.count(w11Limbo))
	// direct invariants, independent of the model
	if (len(admitted) > 0 || w.tryOK) && obsCur > obsSize {
		w.fail("sem.capacity", "admitted-over-size", "after %s: admission with cur=%d > size=%d", kind, obsCur, obsSize)
		return
	}
	for _, b := range admitted {
		if a := w.earlierLiveWaiter(b.enq); a != nil {
			w.fail("sem.fifo", "admitted-past-earlier-waiter", "after %s: %s admitted while earlier waiter %s still waits", kind, b.name, a.name)
			return
		}
	}
	if w.tryOK {
		if a := w.earlierLiveWaiter(1 << 30); a != nil {
			w.fail("sem.fifo", "try-acquire-barged", "TryAcquire(%d) succeeded while %s waits", w.tryN, a.name)
			return
		}
	}
	var head *w11Task
	for _, t := range w.tasks {
		if (t.state == w11Live || t.state == w11Limbo) && !t.doomed {
			head = t
			break
		}
	}
	if head != nil && head.state == w11Live && head.n <= obsSize-obsCur {
		sig := "after-" + kind
		if head.n == 0 {
			sig = "zero-weight-waiter"
		}
		w.fail("sem.lost-wakeup", sig, "after %s: head waiter %s (n=%d) fits (size=%d cur=%d) but still waits", kind, head.name, head.n, obsSize, obsCur)
		return
	}
	if obsCur != w.mCur || obsSize != w.mSize {
		clause := "sem.accounting"
		if kind == "cancel" || kind == "ticket" {
			clause = "sem.cancel-unchanged"
		}
		w.fail(clause, "state-mismatch-after-"+kind, "after %s: Observe()=(cur %d,size %d), expected (cur %d,size %d)", kind, obsCur, obsSize, w.mCur, w.mSize)
		return
	}
	if obsCur > obsSize {
		r.Probe("sem.over_size_no_admission")
	}
	w.tryOK = false
}

func (w *w11S) acquire(n int64, precancel, park bool, errKind int) {
	t := w.newTask(0, n)
	w.r.Sched("acquire", t.name)
	w.r.Extra["sem.acquires"]++
	switch {
	case w.mSize-w.mCur >= n && len(w.mQueue) == 0:
		w.mCur += n
		t.mGranted = true
	case n > w.mSize:
		t.doomed = true
		w.r.Probe("sem.doomed_acquire")
	default:
		t.inQueue = true
		w.mQueue = append(w.mQueue, t)
	}
	if precancel {
		t.cancelled = true
		t.state = w11Cancelling
		t.ctx.cancel(w11CancelErr(errKind))
		w.arm = park
		w.r.Fault("acquire-with-cancelled-ctx")
	}
	w.r.Event("sched", "acquire %s n=%d precancelled=%v park=%v", t.name, n, precancel, park)
	w.spawn(t, func() error { return w.s.Acquire(t.ctx, n) })
	w.after("acquire")
}

func (w *w11S) cancel(t *w11Task, park bool, errKind int) {
	w.r.Sched("cancel", t.name)
	w.r.Fault("cancel")
	w.r.Event("sched", "cancel %s park=%v err=%v", t.name, park, w11CancelErr(errKind))
	t.cancelled = true
	t.state = w11Cancelling
	w.arm = park
	t.ctx.cancel(w11CancelErr(errKind))
	w.after("cancel")
}

func (w *w11S) ticket(t *w11Task) {
	w.r.Sched("relock", t.name)
	w.r.Event("sched", "let %s re-lock", t.name)
	t.state = w11Cancelling
	t.relocking = true
	if t.inQueue {
		w.mRemove(t) // not admitted meanwhile: it leaves; a head that leaves admits followers
	}
	w.pts.Release(t.ticket)
	w.after("ticket")
}

func (w *w11S) release(i int, n int64) {
	h := w.holds[i]
	w.r.Sched("release", h.who)
	w.r.Event("sched", "release %d of %d held by %s", n, h.n, h.who)
	if n == h.n {
		w.holds = append(append([]w11Hold(nil), w.holds[:i]...), w.holds[i+1:]...)
	} else {
		w.holds[i].n -= n
	}
	w.mCur -= n
	w.mNotify()
	if p := w11Recover(func() { w.s.Release(n) }); p != "" {
		w.fail("panic", "panic:semaphore.Release", "Release(%d) panicked: %s", n, p)
		return
	}
	w.after("release")
}

func w11Recover(f func()) (msg string) {
	defer func() {
		if p := recover(); p != nil {
			msg = fmt.Sprint(p)
		}
	}()
	f()
	return ""
}

func (w *w11S) try(n int64) {
	w.r.Sched("try", "sched")
	want := w.mSize-w.mCur >= n && len(w.mQueue) == 0
	ok := w.s.TryAcquire(n)
	w.r.Event("sched", "TryAcquire(%d) = %v", n, ok)
	if ok {
		w.tryOK, w.tryN = true, n
		w.holds = append(w.holds, w11Hold{"try", n})
		w.mCur += n
	}
	w.after("try")
	if w.r.Failed() {
		return
	}
	if ok != want {
		if ok {
			w.fail("sem.model", "unexpected-admission", "TryAcquire(%d) succeeded; a FIFO semaphore with size=%d cur=%d queue=%d would refuse", n, w.mSize, w.mCur-n, len(w.mQueue))
		} else {
			w.fail("sem.model", "try-refused", "TryAcquire(%d) refused with size=%d cur=%d and no waiters", n, w.mSize, w.mCur)
		}
	}
}

func (w *w11S) setSize(n int64) {
	w.r.Sched("setsize", "sched")
	w.r.Fault("set-size")
	if n < w.mCur {
		w.r.Probe("sem.size_lowered_below_cur")
	}
	w.r.Event("sched", "SetSize %d -> %d", w.mSize, n)
	w.mSize = n
	w.mNotify()
	w.s.SetSize(n)
	w.after("setsize")
}

func (w *w11S) force(n int64) {
	w.r.Sched("force", "sched")
	w.r.Fault("force-acquire")
	w.r.Event("sched", "ForceAcquire %d", n)
	w.mCur += n
	if w.mCur > w.mSize {
		w.r.Probe("sem.forced_over_size")
	}
	w.holds = append(w.holds, w11Hold{"force", n})
	w.s.ForceAcquire(n)
	w.after("force")
}

func w11SemEpisode(b *w11Base, ep int) {
	r, c := b.r, b.c
	w := &w11S{w11Base: b}
	faulty := c.Intn(3, "s.faulty") != 0
	size := int64(c.Range(1, 8, "s.size"))
	maxTasks := c.Range(3, 14, "s.tasks")
	maxSteps := c.Range(10, 70, "s.steps")
	tryOn := c.Intn(2, "s.try_on") == 1
	cancelOn, hookOn, sizeOn, forceOn, zeroOn, bigOn := false, false, false, false, false, false
	if faulty {
		cancelOn = c.Intn(4, "s.cancel_on") != 0
		hookOn = cancelOn && c.Intn(3, "s.hook_on") != 0
		sizeOn = c.Intn(2, "s.setsize_on") == 1
		forceOn = c.Intn(3, "s.force_on") == 2
		zeroOn = b.zeroRun
		bigOn = cancelOn && c.Intn(3, "s.big_on") == 2
	}
	b.hooks["semaphore.acquire.cancelled"] = hookOn
	r.Config[fmt.Sprintf("ep%d", ep)] = fmt.Sprintf("semaphore size=%d tasks=%d steps=%d try=%v cancel=%v hook=%v setsize=%v force=%v zero=%v big=%v",
		size, maxTasks, maxSteps, tryOn, cancelOn, hookOn, sizeOn, forceOn, zeroOn, bigOn)
	r.Extra["episodes.semaphore"]++
	r.Event("sched", "episode %d: semaphore size=%d try=%v cancel=%v hook=%v setsize=%v force=%v zero=%v big=%v", ep, size, tryOn, cancelOn, hookOn, sizeOn, forceOn, zeroOn, bigOn)
	w.s = semaphore.NewWeighted(size)
	w.mSize = size
	origSize := size
	weight := func(label string) int64 {
		top := w.mSize
		if top < 1 {
			top = 1
		}
		if top > 4 && c.Intn(2, label+".small") == 0 {
			top = 3
		}
		n := int64(c.Range(1, int(top), label))
		if zeroOn && c.Chance(1, 5, label+".zero") {
			n = 0
		}
		return n
	}
	const (
		aAcquire = iota
		aRelease
		aTicket
		aTry
		aCancel
		aSetSize
		aForce
	)
	startStep := w.step
	for w.step-startStep < maxSteps && !r.Failed() {
		var opts []int
		add := func(a, weight int) {
			for i := 0; i < weight; i++ {
				opts = append(opts, a)
			}
		}
		if len(w.tasks) < maxTasks {
			add(aAcquire, 5)
		}
		if len(w.holds) > 0 {
			add(aRelease, 4)
		}
		if w.count(w11Limbo) > 0 {
			add(aTicket, 2)
		}
		if cancelOn && w.count(w11Live) > 0 {
			add(aCancel, 2)
		}
		if len(opts) == 0 {
			break // nothing but TryAcquire / SetSize / ForceAcquire left
		}
		if tryOn {
			add(aTry, 1)
		}
		if sizeOn {
			add(aSetSize, 1)
		}
		if forceOn {
			add(aForce, 1)
		}
		switch opts[c.Intn(len(opts), "s.action")] {
		case aAcquire:
			n := weight("s.n")
			if bigOn && c.Chance(1, 6, "s.big") {
				n = w.mSize + 1 + int64(c.Intn(2, "s.bigby"))
			}
			pre, park, ek := false, false, 0
			if cancelOn && c.Chance(1, 12, "s.precancel") {
				pre = true
				park = hookOn && c.Chance(1, 2, "s.park")
				ek = c.Intn(2, "s.errkind")
			}
			w.acquire(n, pre, park, ek)
		case aRelease:
			i := c.Intn(len(w.holds), "s.release")
			n := w.holds[i].n
			if n > 1 && c.Chance(1, 5, "s.partial") {
				n = int64(c.Range(1, int(n)-1, "s.partial_n"))
			}
			w.release(i, n)
		case aTicket:
			w.ticket(w.pick(w11Limbo, "s.ticket"))
		case aTry:
			w.try(weight("s.tryn"))
		case aCancel:
			t := w.pick(w11Live, "s.cancel")
			park := hookOn && c.Chance(1, 2, "s.park")
			w.cancel(t, park, c.Intn(2, "s.errkind"))
		case aSetSize:
			table := []int64{origSize, origSize + 1, origSize - 1, 1, 2, 4, 8, origSize + 3, 0}
			w.setSize(table[c.Intn(len(table), "s.newsize")])
		case aForce:
			w.force(int64(c.Range(1, 4, "s.force_n")))
		}
	}
	// drain
	for guard := 0; guard < 400 && !r.Failed(); guard++ {
		if t := w.first(w11Limbo); t != nil {
			w.ticket(t)
		} else if len(w.holds) > 0 {
			w.release(0, w.holds[0].n)
		} else if t := w.first(w11Live); t != nil {
			w.cancel(t, false, 0) // waits legitimately: n > size (at call time, or after SetSize), or behind such a waiter
		} else {
			break
		}
	}
	if r.Failed() {
		return
	}
	if cur, _ := w.s.Observe(); cur != 0 {
		w.fail("sem.accounting", "cur-nonzero-when-idle", "everything released and returned but cur=%d", cur)
		return
	}
	r.Event("sched", "episode %d done", ep)
}
