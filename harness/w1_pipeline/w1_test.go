//go:build verif

package aggregator

// W1: ingestion pipeline agent -> aggregator -> (fake) ClickHouse inside one synctest bubble.
// Real: agent.Agent (MakeAgent/Run: shards, flusher, preprocessor, recent/historic/erase senders,
// live checkers, disk cache), aggregator.Aggregator handlers, goTicker, goInsert, row marshalling,
// sendToClickhouse. Simulated: RPC wire (SimClient/simConn), ClickHouse (http.RoundTripper), clock,
// scheduler, faults. Decides C01, C10 (routing clauses), C03.
// Handler pauses (w1_pause_test.go): in a drawn part of the runs handlers of historic requests are in the
// middle of their row loop when ticker and inserters take buckets at a second boundary.

import (
	"fmt"
	"io"
	"log"
	"net/http"
	"os"
	"path/filepath"
	"runtime"
	"runtime/debug"
	"sort"
	"strconv"
	"strings"
	"sync"
	"sync/atomic"
	"testing"
	"time"

	pgrand "pgregory.net/rand"

	"github.com/VKCOM/tl/pkg/rpc"

	"github.com/VKCOM/statshouse/internal/agent"
	"github.com/VKCOM/statshouse/internal/compress"
	"github.com/VKCOM/statshouse/internal/data_model"
	"github.com/VKCOM/statshouse/internal/data_model/gen2/tl"
	"github.com/VKCOM/statshouse/internal/data_model/gen2/tlstatshouse"
	"github.com/VKCOM/statshouse/internal/format"
	"github.com/VKCOM/statshouse/internal/metajournal"
	"github.com/VKCOM/statshouse/internal/pcache"
	"github.com/VKCOM/statshouse/internal/verifhook"
	"github.com/VKCOM/statshouse/internal/verifsim"
)

var w1RunCounter int

type w1FaultRates struct { // per mille, per message / per insert
	dropReq, dropResp, delay, dup   int
	chFail, chStall, chLost, chSlow int
	corrupt                         int // net_corrupt_request: damaged bucket payload of a SendSourceBucket3 request
}

type w1Config struct {
	agents           int
	runLen           int // simulated seconds of workload
	window           int // historic window, same on agents and aggregators
	shortWindow      int
	inserters        int
	saveImm          bool
	receiveBudget    bool
	keys             int
	layouts          []w1Layout // tag layouts of the shared keys; [0] is the plain one
	layoutMulti      bool       // several layouts of one metric may travel in the same second of an agent
	repeatEvents     bool       // a key may be hit by two events of an agent in one second, at different positions
	skew             bool       // events of the shared keys carry timestamps up to 3 s off the agent's current second
	faulty           bool
	faults           w1FaultRates
	partitions       bool
	repCrashes       bool
	agentCrashes     bool
	faultsStop       int  // second of the run at which faults stop
	spareScenario    bool // the only fault is one replica being down for a while
	spareReplica     int
	remoteWindow     bool // the aggregators' short window is changed at run time through their remote configuration
	gracefulAggStops bool // aggregators are also stopped the way cmd/statshouse-agg main() does on SIGINT, with an insert in flight (not a fault)
	gracefulStops    bool // agents are also stopped the way the agent's main() does on SIGINT and restarted on their disk cache (not a fault)
	rawSender        bool // two raw senders (w1_raw_test.go) take part: hand-built payloads with unusual host arguments and rows the aggregator rejects
	handlerPause     int  // 0: handlers run through; 1: handlers of selected historic requests pause between two rows (w1_pause_test.go); 2: same, and every insert takes a few milliseconds
	chLatency        bool // every ClickHouse insert takes 1-50 ms of fake time (not a fault)
	diskless         bool // the agents run with --max-disk-size=0 (disk cache switched off): unsent seconds live in memory only; no agent restarts in these runs
}

type w1Replica struct {
	idx int
	gen int
	up  bool
	agg *Aggregator
	wg  *sync.WaitGroup

	chSec uint32
	chSeq int

	downSince time.Time

	// graceful stop (actReplicaGraceful)
	insertDisabled bool          // DisableNewInsert was called on this process
	rpcClosed      bool          // its RPC server no longer takes requests (ShutdownRPCServer), under w.mu
	armSlow        time.Duration // the next insert that would simply be stored takes this long (not a fault), under w.mu
	slowTaken      bool          // an insert took armSlow and is in flight, under w.mu
	restartAt      time.Time     // when the scheduler starts the next process
}

func (rep *w1Replica) khAddr() string { return fmt.Sprintf("ch-r%d-g%d:8123", rep.idx+1, rep.gen) }

type w1Inst struct {
	agent int
	gen   int
	raw   bool // a raw sender (w1_raw_test.go): no agent object behind it
	ag    *agent.Agent
	dir   string
	host  string
	dead  atomic.Bool
	calls map[*w1Call]struct{} // outstanding client calls, under w.mu
	meta  *metajournal.MetricsStorage

	sendsDisabled, flusherStopped, preprocStopped bool // steps of the agent's own shutdown sequence already performed (graceful stop)

	killedAt  time.Time
	reaped    bool
	histExits atomic.Int32 // historic senders that ended in the fenced client
}

type w1World struct {
	r   *verifsim.Run
	c   *verifsim.Choices
	cfg w1Config

	start time.Time
	dir   string

	mu         sync.Mutex
	reps       [3]*w1Replica
	insts      []*w1Inst // current instance per agent (nil while down)
	instGen    []int
	partition  [][3]bool
	netChanged chan struct{}
	healed     chan struct{}
	faultsOn   bool
	attempts   map[w1AttemptKey]int
	nextQID    int64
	recs       []w1Rec
	recSeq     int
	faultsSeen []string
	probesSeen []string

	rngMu sync.Mutex
	rng   *verifsim.SplitMix

	// handler pauses (w1_pause_test.go)
	pauseMu    sync.Mutex
	pausers    map[uint64]*w1Pause // by goroutine id of the delivering goroutine
	pauseBusy  [3]bool
	pauseArmed atomic.Int32

	lastWork []uint32 // per agent: last second the workload was applied for
	raws     []*w1Inst
	lastRaw  uint32
	graceful int // graceful agent stops performed so far
	aggStops int // graceful aggregator stops begun so far

	// remote configuration of the aggregators (journal state outside the processes)
	remoteDesc    string
	remoteVersion int64
	remotePending []int // replicas the latest journal event has not reached yet
	zombies       []*w1Inst
	allInsts      []*w1Inst
	clients       []*w1Client

	or w1Oracle
}

// ---- records written by simulator callbacks on any goroutine, consumed by the scheduler ----------

const (
	w1RecSend = iota
	w1RecNoConn
	w1RecNetDrop
	w1RecDeliver
	w1RecResp
	w1RecAck
	w1RecCH
	w1RecPanic
	w1RecCorrupt
)

var w1RecNames = [...]string{"send", "noconn", "netdrop", "deliver", "response", "outcome", "clickhouse", "panic", "corrupt"}

type w1Rec struct {
	typ int
	seq int
	at  time.Time

	agent, agentGen, replica, repGen, kind int
	T                                      uint32
	spare                                  bool
	attempt                                int
	dup                                    bool
	corrupt                                bool // simulator fact: this request's bucket payload was damaged before delivery

	accepted                   bool
	where                      string
	bucketTime, oldest, newest uint32

	discard    bool
	hasMarker  bool
	warn, note string
	stack      string // panic records: stack of the panicking goroutine (never logged: not replay-stable)

	fate    int
	stored  bool
	body    *w1Body
	bodyLen int
}

func (w *w1World) recLocked(rec w1Rec) {
	if rec.at.IsZero() {
		rec.at = time.Now()
	}
	w.recSeq++
	rec.seq = w.recSeq
	w.recs = append(w.recs, rec)
}

func (w *w1World) faultLocked(kind string) { w.faultsSeen = append(w.faultsSeen, kind) }
func (w *w1World) probeLocked(name string) { w.probesSeen = append(w.probesSeen, name) }

// guard turns a panic of system code on a harness-started goroutine into a record (C01 clause 4).
func (w *w1World) guard(where string) {
	if p := recover(); p != nil {
		msg := fmt.Sprint(p)
		if len(msg) > 200 {
			msg = msg[:200]
		}
		stack := string(debug.Stack()) // taken inside the deferred call: includes the panicking frames
		w.mu.Lock()
		w.recLocked(w1Rec{typ: w1RecPanic, where: where, note: msg, stack: stack})
		w.mu.Unlock()
	}
}

func (w *w1World) simRand() uint64 {
	w.rngMu.Lock()
	defer w.rngMu.Unlock()
	return w.rng.Next()
}

func (w *w1World) ms(t time.Time) string {
	d := t.Sub(w.start)
	return fmt.Sprintf("%07d.%06d", int64(d/time.Millisecond), int64(d%time.Millisecond))
}

// ---- entry ---------------------------------------------------------------------------------------

func TestVerifW1(t *testing.T) {
	log.SetOutput(io.Discard) // the components log every send error
	verifsim.Main(t, &verifsim.World{Name: "w1_pipeline", Props: []string{"C01", "C10", "C03"}, Exec: w1Exec})
}

func w1Exec(t *testing.T, r *verifsim.Run) {
	verifsim.Bubble(t, func(t *testing.T) { w1Run(t, r) })
	if os.Getenv("VERIF_W1_DEBUG") != "" {
		fmt.Printf("W1DEBUG goroutines after run: %d\n", runtime.NumGoroutine())
		if os.Getenv("VERIF_W1_DEBUG") == "stacks" {
			buf := make([]byte, 1<<20)
			os.Stdout.Write(buf[:runtime.Stack(buf, true)])
		}
	}
}

func w1Pick(c *verifsim.Choices, label string, vals ...int) int {
	return vals[c.Intn(len(vals), label)]
}

func w1Run(t *testing.T, r *verifsim.Run) {
	c := r.C
	w := &w1World{r: r, c: c, rng: verifsim.NewSplitMix(c.Seed ^ 0x5157), attempts: map[w1AttemptKey]int{},
		netChanged: make(chan struct{}), healed: make(chan struct{})}
	pgrand.SetSimSource(w.simRand)
	defer pgrand.SetSimSource(nil)
	verifhook.SetOnTransport(func() http.RoundTripper { return &w1Transport{w: w} })
	defer verifhook.SetOnTransport(nil)

	w1RunCounter++
	base := os.Getenv("VERIF_TMP")
	if base == "" {
		base = "/dev/shm"
	}
	w.dir = filepath.Join(base, fmt.Sprintf("w1-%d-%d", os.Getpid(), w1RunCounter))
	_ = os.RemoveAll(w.dir)
	if err := os.MkdirAll(w.dir, 0755); err != nil {
		panic(err)
	}
	defer os.RemoveAll(w.dir)

	// ---- swarm configuration (value 0 = benign) ----
	cfg := &w.cfg
	cfg.faulty = c.Intn(3, "faulty") != 0
	cfg.agents = 1 + c.Intn(3, "agents")
	cfg.runLen = 20 + c.Intn(101, "run_len")
	if r.Tier == "smoke" {
		cfg.runLen = 10
	}
	cfg.window = w1Pick(c, "window", 600, 300, 120, 60, 30)
	cfg.shortWindow = w1Pick(c, "short_window", data_model.MaxShortWindow, data_model.MaxShortWindow, 3, 2)
	cfg.inserters = w1Pick(c, "inserters", 4, 2, 1)
	cfg.saveImm = c.Intn(2, "save_immediately") == 1
	cfg.receiveBudget = false // per-metric receive budgets decay while responses are missing and then bind on the agent (outside C03's premise)
	cfg.keys = 1 + c.Intn(4, "keys")
	// 2-3 extra tag layouts for the shared keys, so that keys of different serialized length (string tag
	// values of different lengths, a second tag) travel in one request
	// (one with a short string value, one with a long one, in a part of the runs a third of any shape)
	layoutIdx := []int{0, 1 + c.Intn(w1LayoutShort, "layout_short"), 1 + w1LayoutShort + c.Intn(w1LayoutLong, "layout_long")}
	if c.Intn(2, "third_layout") == 1 {
		idx := 1 + c.Intn(len(w1LayoutCatalogue)-1, "layout_any")
		if idx != layoutIdx[1] && idx != layoutIdx[2] {
			layoutIdx = append(layoutIdx, idx)
		}
	}
	for _, idx := range layoutIdx {
		cfg.layouts = append(cfg.layouts, w1LayoutCatalogue[idx])
	}
	// one layout per (agent, second, metric): the rows of a request are ordered by metric, so which key
	// follows which is a function of the choice vector. Several layouts per metric: more keys per
	// request, but their order inside a metric is the agent's map iteration order.
	cfg.layoutMulti = c.Intn(2, "layouts_per_metric") == 1
	cfg.repeatEvents = c.Intn(2, "repeat_events") == 1
	cfg.skew = c.Intn(2, "timestamp_skew") == 1
	cfg.faultsStop = cfg.runLen
	if cfg.faulty {
		rate := func(label string) int {
			if c.Intn(2, label+"_on") == 0 {
				return 0
			}
			return w1Pick(c, label+"_rate", 20, 60, 150)
		}
		cfg.faults = w1FaultRates{dropReq: rate("drop_req"), dropResp: rate("drop_resp"), delay: rate("delay"), dup: rate("dup"),
			chFail: rate("ch_500"), chStall: rate("ch_stall"), chLost: rate("ch_lost"), chSlow: rate("ch_slow")}
		if c.Intn(2, "corrupt_req_on") == 1 { // low rate: every hit makes one aggregator reject one second for good
			cfg.faults.corrupt = w1Pick(c, "corrupt_req_rate", 5, 15, 40)
		}
		cfg.partitions = c.Intn(2, "partitions") == 1
		cfg.repCrashes = c.Intn(2, "replica_crashes") == 1
		cfg.agentCrashes = c.Intn(2, "agent_crashes") == 1
		cfg.faultsStop = cfg.runLen * (50 + c.Intn(51, "faults_stop_pct")) / 100
		if c.Intn(5, "single_replica_outage") == 1 {
			// scenario for C10's "the two remaining replicas share spare traffic": nothing disturbs the
			// other two replicas, so the agents never stop trusting them
			cfg.spareScenario = true
			cfg.spareReplica = c.Intn(3, "outage_replica")
			cfg.faults = w1FaultRates{}
			cfg.partitions, cfg.agentCrashes, cfg.repCrashes = false, false, true
		}
	}
	// handler pauses: a scheduling device, drawn independently of the faults (value 0: handlers run through)
	cfg.handlerPause = c.Intn(3, "handler_pause")
	cfg.chLatency = cfg.handlerPause == 2
	cfg.rawSender = c.Intn(3, "raw_sender") == 1
	r.Config["raw_sender"] = cfg.rawSender
	if cfg.handlerPause != 0 || cfg.rawSender { // a raw request with a rejected row pauses whatever handler_pause says
		verifhook.SetOnPoint(w.onPoint)
		defer verifhook.SetOnPoint(nil)
	}
	r.Config["handler_pause"], r.Config["insert_latency"] = cfg.handlerPause, cfg.chLatency
	// graceful agent restarts (SIGINT sequence of cmd/statshouse, then a new process on the same disk cache):
	// not a fault, drawn independently; not in the single-replica-outage scenario, whose agents must keep
	// their view of the replicas
	cfg.gracefulStops = c.Intn(2, "graceful_agent_stops") == 1 && !cfg.spareScenario
	r.Config["graceful_agent_stops"] = cfg.gracefulStops
	cfg.gracefulAggStops = c.Intn(2, "graceful_aggregator_stops") == 1 && !cfg.spareScenario
	r.Config["graceful_aggregator_stops"] = cfg.gracefulAggStops
	cfg.remoteWindow = c.Intn(2, "remote_short_window") == 1
	r.Config["remote_short_window_changes"] = cfg.remoteWindow
	// disk cache switched off (--max-disk-size=0, the documented runtime switch): hash-derived, so that the
	// choice vector of every other run keeps its meaning. Unsent seconds then live only in the in-memory
	// historic queue or in a historic sender's hands; an agent restart would lose them legitimately, so
	// these runs have none.
	cfg.diskless = c.Keyed(5, 7100) == 1
	if cfg.diskless {
		cfg.agentCrashes, cfg.gracefulStops = false, false
		r.Config["graceful_agent_stops"] = false
	}
	r.Config["agent_disk_cache_off"] = cfg.diskless
	r.Config["agents"], r.Config["run_len_s"], r.Config["historic_window_s"] = cfg.agents, cfg.runLen, cfg.window
	r.Config["short_window"], r.Config["inserters"], r.Config["save_immediately"] = cfg.shortWindow, cfg.inserters, cfg.saveImm
	r.Config["receive_budget"], r.Config["keys"], r.Config["faulty"] = cfg.receiveBudget, cfg.keys, cfg.faulty
	r.Config["key_layouts"], r.Config["layouts_per_metric_many"], r.Config["repeat_events"] = fmt.Sprint(layoutIdx), cfg.layoutMulti, cfg.repeatEvents
	r.Config["event_timestamp_skew"] = cfg.skew
	if cfg.faulty {
		r.Config["fault_rates_permille"] = fmt.Sprintf("%+v", cfg.faults)
		r.Config["partitions"], r.Config["replica_crashes"], r.Config["agent_crashes"], r.Config["faults_stop_s"] = cfg.partitions, cfg.repCrashes, cfg.agentCrashes, cfg.faultsStop
		r.Config["single_replica_outage"] = cfg.spareScenario
	}

	// start a little off the second boundary and off every 100 ms grid
	time.Sleep(time.Duration(137+c.Intn(800, "start_offset_ms"))*time.Millisecond + 311*time.Microsecond)
	w.start = time.Now()
	w.or.init(w)
	w.faultsOn = cfg.faulty

	for i := 0; i < 3; i++ {
		rep := &w1Replica{idx: i, gen: 1, up: true}
		w.reps[i] = rep
		rep.agg = w.newAggregator(rep)
		verifsim.Wait() // its goroutines draw their RNG seeds now, not racing with the next constructor
	}
	w.insts = make([]*w1Inst, cfg.agents)
	w.instGen = make([]int, cfg.agents)
	w.partition = make([][3]bool, cfg.agents+3) // the last three: raw senders (never partitioned)
	if cfg.rawSender {
		w.startRaws()
	}
	w.lastWork = make([]uint32, cfg.agents)
	for a := 0; a < cfg.agents; a++ {
		w.startAgent(a, "")
	}
	r.Event("sched", "start agents=%d run=%ds window=%ds faulty=%v", cfg.agents, cfg.runLen, cfg.window, cfg.faulty)

	defer w.teardown()

	end := w.start.Add(time.Duration(cfg.runLen) * time.Second)
	faultsStopAt := w.start.Add(time.Duration(cfg.faultsStop) * time.Second)
	const drainMax = 150 * time.Second
	stepCap := (cfg.runLen+int(drainMax/time.Second))*12 + 200
	stopped := !cfg.faulty
	var drainedAt time.Time
	for step := 0; step < stepCap; step++ {
		verifsim.Wait()
		w.observe()
		if r.Failed() {
			return
		}
		w.reapZombies(false)
		now := time.Now()
		for _, rep := range w.reps { // next process of a gracefully stopped aggregator
			if !rep.up && !rep.restartAt.IsZero() && !now.Before(rep.restartAt) {
				w.restartReplica(rep)
			}
		}
		if !stopped && !now.Before(faultsStopAt) {
			w.faultsStop()
			stopped = true
			continue
		}
		if !now.Before(end) {
			// drain: no workload, no faults; stop early once every second that can be stored is stored
			if drainedAt.IsZero() && w.or.allStored(w) {
				drainedAt = now
			}
			if (!drainedAt.IsZero() && now.Sub(drainedAt) > 3*time.Second) || now.Sub(end) > drainMax {
				break
			}
			r.Sched("drain", "clock")
			time.Sleep(time.Second + time.Duration(1+step%89)*time.Microsecond)
			continue
		}
		// ---- draw the next action ----
		act := 0
		if !stopped {
			act = c.Intn(12, "act")
		} else if cfg.gracefulStops && c.Intn(25, "graceful_act") == 1 {
			act = 7 // also in fault-free runs and after faults_stop: a restart is not a fault
		} else if cfg.gracefulAggStops && c.Intn(40, "graceful_agg_act") == 1 {
			act = 6
		} else if cfg.remoteWindow && c.Intn(30, "remote_window_act") == 1 {
			act = 5
		}
		w.deliverRemoteConfig() // journal events still on their way to some replicas
		switch {
		case act == 5 && cfg.remoteWindow:
			w.actRemoteWindow()
		case act == 6 && cfg.gracefulAggStops:
			w.actReplicaGraceful()
			if r.Failed() {
				return
			}
		case act == 7 && cfg.gracefulStops:
			w.actAgentGraceful()
			if r.Failed() {
				return
			}
		case act == 8 && cfg.partitions:
			w.actPartition()
		case act == 9 && cfg.partitions:
			w.actHeal()
		case act == 10 && cfg.repCrashes:
			w.actReplica()
		case act == 11 && cfg.agentCrashes:
			w.actAgent()
		}
		w.applyWorkload()
		d := time.Duration(1+c.Intn(10, "dt")) * 100 * time.Millisecond
		r.Sched("time", "clock")
		time.Sleep(d + time.Millisecond + time.Duration(1+step%89)*time.Microsecond)
	}
	verifsim.Wait()
	w.observe()
	if r.Failed() {
		return
	}
	r.Event("sched", "end of run at %s", w.ms(time.Now()))
	w.or.final(w)
	if !r.Failed() && len(w.or.deferred) != 0 {
		if os.Getenv("W1_TOLERATE_CROSS_BUCKET_DUP") != "" { // exploration switch, off by default
			r.Probe("tolerated_duplicate_key_across_buckets")
		} else {
			w.report(w.or.deferred[:1])
		}
	}
}

// ---- agents ----------------------------------------------------------------------------------------

func (w *w1World) agentDir(a, gen int) string {
	return filepath.Join(w.dir, fmt.Sprintf("agent%d-g%d", a, gen))
}

// startAgent builds a real agent on a disk cache directory (fromDir: crash image to start from).
func (w *w1World) startAgent(a int, fromDir string) {
	w.instGen[a]++
	gen := w.instGen[a]
	dir := w.agentDir(a, gen)
	if fromDir != "" {
		if err := os.Rename(fromDir, dir); err != nil {
			panic(err)
		}
	} else if err := os.MkdirAll(dir, 0755); err != nil {
		panic(err)
	}
	inst := &w1Inst{agent: a, gen: gen, dir: dir, host: fmt.Sprintf("w1-agent-%d", a), calls: map[*w1Call]struct{}{}, meta: w1MetricStorage()}
	cfg := agent.DefaultConfig()
	cfg.Cluster = "w1"
	cfg.HistoricWindow = uint(w.cfg.window)
	cfg.SaveSecondsImmediately = w.cfg.saveImm
	cfg.SampleBudget = 4 << 20 // sampling must not bind (C03's premise)
	if w.cfg.diskless {
		cfg.MaxHistoricDiskSize = 0
	}
	getConfigResult := w1ConfigResult()
	mappingsCache := pcache.NewMappingsCache(data_model.NewChunkedStorageNop(), 1<<20, 86400)
	ag, err := agent.MakeAgent("tcp4", dir, "", nil, cfg, inst.host, format.TagValueIDComponentAgent, inst.meta, mappingsCache,
		nil, nil, w1NopLog, nil, &getConfigResult, nil)
	if err != nil {
		panic(fmt.Sprintf("w1 harness: MakeAgent: %v", err))
	}
	inst.ag = ag
	if agent.VerifW1SaveImmediately(ag) != w.cfg.saveImm {
		panic("w1 harness: SaveSecondsImmediately knob did not reach the shard")
	}
	agent.VerifW1SwapClients(ag, func(i int, old rpc.Client) rpc.Client {
		cl := &w1Client{w: w, inst: inst, replica: i}
		w.clients = append(w.clients, cl)
		return cl
	})
	w.allInsts = append(w.allInsts, inst)
	w.mu.Lock()
	w.insts[a] = inst
	w.mu.Unlock()
	ag.Run(0, 0, 0)
	verifsim.Wait()
}

// killAgent stops an agent process hard. Nothing of its memory survives; goroutines that would
// loop forever are led into the fenced client where they terminate.
// (A gracefully stopping process arrives here at the end of its own shutdown sequence, or in the middle of
// it when the run is wound down early: the steps it already performed are not repeated.)
func (w *w1World) killAgent(inst *w1Inst) {
	inst.dead.Store(true)
	w.mu.Lock()
	var calls []*w1Call
	for call := range inst.calls {
		calls = append(calls, call)
	}
	w.insts[inst.agent] = nil
	w.mu.Unlock()
	sort.Slice(calls, func(i, j int) bool { return calls[i].qid < calls[j].qid })
	for _, call := range calls {
		call.conn.clientGone() // the connection went away with the process
		w.finish(call, w1Result{err: rpc.ErrClientClosed})
	}
	if !inst.flusherStopped {
		inst.flusherStopped = true
		inst.ag.ShutdownFlusher()
		inst.ag.WaitFlusher()
	}
	// historic senders reach the fenced client (and end there) only through a replica they believe alive
	agent.VerifW1SetAllAlive(inst.ag, true)
	agent.VerifW1WakeHistoricSenders(inst.ag, uint32(time.Now().Unix()), data_model.MaxHistorySendStreams+8)
	if !inst.sendsDisabled {
		inst.sendsDisabled = true
		inst.ag.DisableNewSends()
	}
	if !inst.preprocStopped {
		inst.preprocStopped = true
		for _, s := range inst.ag.Shards {
			s.StopPreprocessor()
		}
	}
	verifsim.Wait()
	if os.Getenv("VERIF_W1_DEBUG") != "" {
		fmt.Printf("W1DEBUG kill agent%d.g%d: queue after wake %v alive=%v goroutines=%d\n", inst.agent, inst.gen, agent.VerifW1HistoricQueue(inst.ag), agent.VerifW1ReplicaAlive(inst.ag), runtime.NumGoroutine())
	}
	inst.killedAt = time.Now()
	w.zombies = append(w.zombies, inst)
}

// reapZombies: a killed agent's historic senders end when they next call the (fenced) client, which
// they do only through a replica they believe alive; failing sends of the dying process flip that
// belief, so it is re-asserted until every sender had time to leave its 10 s "no replica" sleep.
// Then (second stage) the live checkers are led into the fenced client and the queue is emptied.
func (w *w1World) reapZombies(force bool) {
	for _, z := range w.zombies {
		if z.reaped {
			continue
		}
		if !force && time.Since(z.killedAt) <= 14*time.Second {
			agent.VerifW1SetAllAlive(z.ag, true)
			continue
		}
		z.reaped = true
		agent.VerifW1SetAllAlive(z.ag, false)
		agent.VerifW1ClearHistoricQueue(z.ag)
	}
}

// ---- workload ----------------------------------------------------------------------------------------

func (w *w1World) applyWorkload() {
	nowUnix := uint32(time.Now().Unix())
	for a, inst := range w.insts {
		if inst == nil || w.lastWork[a] >= nowUnix {
			continue
		}
		w.lastWork[a] = nowUnix
		w.applySecond(inst, nowUnix)
	}
	w.rawWorkload(nowUnix)
}

// w1Layout: the tags an event of a shared key carries, by tag index ("" = absent). Tags 1 and 4 are
// raw int tags, 2 and 3 string tags (nothing is mapped in this world, so they travel and are stored
// as strings).
type w1Layout struct{ vals [5]string }

var w1LayoutCatalogue = []w1Layout{
	{vals: [5]string{1: "1"}}, // the plain layout, always present
	// short string values
	{vals: [5]string{1: "1", 2: "ab"}},
	{vals: [5]string{1: "2", 2: "ab"}},
	{vals: [5]string{1: "7", 2: "x", 3: "second-string-tag"}},
	{vals: [5]string{1: "1", 2: "abc", 4: "65793"}},
	{vals: [5]string{2: "ab", 3: "cd"}},
	// long string values
	{vals: [5]string{1: "1", 2: "value-longer-than-the-others-0123456789"}},
	{vals: [5]string{1: "9", 3: "another-rather-long-string-tag-value-abcdefghijklmnopqrstuvwxyz"}},
	// the longest values a tag may carry (format.MaxStringLen = 128) and one byte less: the boundary of
	// the one-byte length prefix of the row encoding
	{vals: [5]string{1: "3", 2: strings.Repeat("m", 128)}},
	{vals: [5]string{1: "3", 3: strings.Repeat("n", 127)}},
	// others
	{vals: [5]string{1: "300", 4: "70000"}},
	{vals: [5]string{3: "q"}},
}

const w1LayoutShort, w1LayoutLong = 5, 4 // sizes of the two groups after the plain layout

// keyString: the (time, metric, tags, string-top) key of the rows this layout produces, in the
// notation of w1KeyString.
func (l w1Layout) keyString(ts uint32, metric int32) string {
	tags := make([]int32, len(l.vals))
	stags := make([][]byte, len(l.vals))
	for i, v := range l.vals {
		switch {
		case v == "":
		case i == 1 || i == 4:
			n, err := strconv.Atoi(v)
			if err != nil {
				panic(err)
			}
			tags[i] = int32(n)
		default:
			stags[i] = []byte(v)
		}
	}
	return w1KeyString(ts, metric, tags, stags)
}

func (w *w1World) applySecond(inst *w1Inst, E uint32) {
	a := inst.agent
	var scratch []byte
	apply := func(metric int32, ts uint32, layout w1Layout, fill func(m *tlstatshouse.MetricBytes)) {
		m := tlstatshouse.MetricBytes{Name: []byte(w1MetricNames[metric])}
		for i, v := range layout.vals {
			if v != "" {
				m.Tags = append(m.Tags, tl.DictFieldStringStringBytes{Key: []byte(strconv.Itoa(i)), Value: []byte(v)})
			}
		}
		m.SetTs(ts)
		fill(&m)
		var h data_model.MappedMetricHeader
		h.ReceiveTime = time.Now()
		h.Key.Timestamp = ts
		meta := inst.meta.GetMetaMetricByNameBytes(m.Name)
		h.MetricMeta = meta
		h.Key.Metric = meta.MetricID
		args := data_model.HandlerArgs{MetricBytes: &m, Scratch: &scratch, Host: inst.host}
		inst.ag.Map(args, &h, nil)
		if h.IngestionStatus != 0 {
			panic(fmt.Sprintf("w1 harness: workload event rejected by the agent's mapper: status %d", h.IngestionStatus))
		}
		inst.ag.ApplyMetric(&m, &h, &scratch)
	}
	// The marker of second X is the only event that never carries a skewed timestamp. The oracles read
	// "the bucket of (agent, X) was merged n times" off its counter, so every bucket that receives a
	// workload event must hold exactly one marker event of the agent process that fills it.
	marker := func(X uint32) {
		apply(w1MetricMarker, X, w1Layout{vals: [5]string{1: strconv.Itoa(a + 1)}}, func(m *tlstatshouse.MetricBytes) { m.SetCounter(1) })
		w.noteMarkerGen(a, X, inst.gen)
	}
	// A second this agent's gracefully stopped predecessor saved to the disk cache (it held future-dated
	// events then) belongs to the predecessor's bucket, which this process sends through the historic
	// conveyor: this process gets no marker and no events for that second (its own bucket of the second
	// carries the agent's built-in rows only).
	handedOver := false
	if gen, ok := w.or.marker[w1AT{a, E}]; ok && gen != inst.gen && w.or.handedOver[w1AT{a, E}] {
		handedOver = true
		w.r.Probe("second_of_gracefully_stopped_predecessor_left_to_its_saved_bucket")
	} else if !ok || gen != inst.gen { // not yet put there together with an early event
		marker(E)
	}
	// the agent's own clock (white-box, read at quiescence): an event stamped older than sendTime joins
	// the bucket of sendTime and keeps its own timestamp, an event stamped up to 3 s ahead of
	// currentTime waits in the bucket of its own second, anything further ahead is clamped
	curTime, sendTime := agent.VerifW1Clock(inst.ag)
	// which (row second, key kind, layout) combinations this agent reports now, and in which order the
	// events arrive. Every (agent, row second X, kind, layout) is reported in exactly one second
	// E = X - d, with d in [-3,+3] keyed by that tuple (d = 0 in runs without timestamp skew); the order
	// is keyed by (agent, E), so agents differ from each other and seconds differ.
	type combo struct {
		k, l, e int // key kind, layout, event number
		X       uint32
	}
	var combos []combo
	add := func(X uint32, k, l int) {
		if w.cfg.skew {
			if d := int(w.c.Keyed(7, 7004, uint64(a), uint64(X), uint64(k), uint64(l))) - 3; int64(X) != int64(E)+int64(d) {
				return // reported in another second
			}
		}
		if X == E && handedOver {
			return
		}
		if X != E {
			if X > curTime+3 {
				w.r.Probe("harness_event_too_far_ahead_of_agent_clock_skipped")
				return
			}
			B := X // the bucket the event will sit in
			if B < sendTime {
				B = sendTime
			}
			if gen, ok := w.or.marker[w1AT{a, B}]; !ok {
				marker(B) // B >= sendTime: sits in bucket B with the bucket's own timestamp
			} else if gen != inst.gen {
				// that second's marker was given to a process that has been killed since; its bucket may be on
				// the wire already, and a second marker payload for one (agent, second) is not what C03's
				// attribution can tell apart
				w.r.Probe("harness_skewed_event_into_predecessors_second_skipped")
				return
			}
			if X < E {
				w.r.Probe("event_with_older_timestamp")
			} else {
				w.r.Probe("event_with_future_timestamp")
			}
			if B != X {
				w.r.Probe("late_event_joins_a_later_bucket")
			}
		}
		combos = append(combos, combo{k, l, 0, X})
		if w.cfg.repeatEvents && w.c.Keyed(2, 7001, uint64(a), uint64(X), uint64(k), 101, uint64(l)) == 1 {
			combos = append(combos, combo{k, l, 1, X})
		}
	}
	lo, hi := 0, 0
	if w.cfg.skew {
		lo, hi = -3, 3
	}
	for d := lo; d <= hi; d++ {
		X := uint32(int64(E) + int64(d))
		for k := 0; k < w.cfg.keys; k++ {
			if !w.cfg.layoutMulti {
				if w.c.Keyed(4, 7001, uint64(a), uint64(X), uint64(k), 100, 0) != 0 { // a quarter stays silent
					add(X, k, int(w.c.Keyed(uint64(len(w.cfg.layouts)), 7003, uint64(a), uint64(X), uint64(k))))
				}
				continue
			}
			for l := range w.cfg.layouts {
				silent := w.c.Keyed(4, 7001, uint64(a), uint64(X), uint64(k), 100, uint64(l)) == 0 // a quarter stays silent
				if l != 0 {
					silent = w.c.Keyed(2, 7001, uint64(a), uint64(X), uint64(k), 100, uint64(l)) == 0 // extra layouts: half
				}
				if !silent {
					add(X, k, l)
				}
			}
		}
	}
	// one row of the low-resolution metric in about half of the seconds (runs with graceful agent stops):
	// the agent keeps it in a bucket up to a minute ahead of its clock
	if w.cfg.gracefulStops && w.c.Keyed(2, 7005, uint64(a), uint64(E)) == 1 {
		k := w1SlowKey{a, int32(E-w.or.startUnix) + 1}
		if _, ok := w.or.slow[k]; !ok {
			apply(w1MetricSlow, E, w1Layout{vals: [5]string{1: strconv.Itoa(a + 1), 4: strconv.Itoa(int(k.seq))}}, func(m *tlstatshouse.MetricBytes) { m.SetCounter(1) })
			w.or.slow[k] = 0
			w.r.Extra["low_resolution_rows_sent"]++
		}
	}
	for i := len(combos) - 1; i > 0; i-- {
		j := int(w.c.Keyed(uint64(i+1), 7002, uint64(a), uint64(E), uint64(i)))
		combos[i], combos[j] = combos[j], combos[i]
	}
	for _, cb := range combos {
		k, X, layout := cb.k, cb.X, w.cfg.layouts[cb.l]
		v := func(i int, n uint64) uint64 {
			return w.c.Keyed(n, 7001, uint64(a), uint64(X), uint64(k), uint64(i), uint64(cb.l), uint64(cb.e))
		}
		switch k {
		case 0:
			apply(w1MetricCnt, X, layout, func(m *tlstatshouse.MetricBytes) { m.SetCounter(float64(1 + v(0, 5))) })
		case 1:
			apply(w1MetricVal, X, layout, func(m *tlstatshouse.MetricBytes) {
				n := int(1 + v(0, 3))
				var vals []float64
				for i := 0; i < n; i++ {
					vals = append(vals, float64(v(1+i, 100)))
				}
				m.SetValue(vals)
			})
		case 2:
			var vals []int64
			n := int(1 + v(0, 5))
			for i := 0; i < n; i++ {
				vals = append(vals, int64(1000+v(1+i, 40)))
			}
			apply(w1MetricUniq, X, layout, func(m *tlstatshouse.MetricBytes) { m.SetUnique(vals) })
			w.or.noteUnique(a, layout.keyString(X, w1MetricUniq), vals)
		case 3:
			apply(w1MetricPct, X, layout, func(m *tlstatshouse.MetricBytes) {
				n := int(1 + v(0, 3))
				var vals []float64
				for i := 0; i < n; i++ {
					vals = append(vals, float64(v(1+i, 50)))
				}
				m.SetValue(vals)
			})
		}
	}
}

// ---- fault actions (scheduler goroutine, at quiescence) ------------------------------------------

func (w *w1World) signalNetLocked() {
	close(w.netChanged)
	w.netChanged = make(chan struct{})
}

// dropCalls ends the outstanding calls selected by pick as a broken connection would.
func (w *w1World) dropCalls(pick func(call *w1Call) bool, err error) {
	w.mu.Lock()
	var calls []*w1Call
	for _, inst := range append(append([]*w1Inst(nil), w.insts...), w.raws...) {
		if inst == nil {
			continue
		}
		for call := range inst.calls {
			if pick(call) {
				calls = append(calls, call)
			}
		}
	}
	w.mu.Unlock()
	// by what the call is, not by query id: ids are handed out in the order in which goroutines of one
	// instant happened to ask
	sort.Slice(calls, func(i, j int) bool {
		a, b := calls[i], calls[j]
		switch {
		case a.inst.agent != b.inst.agent:
			return a.inst.agent < b.inst.agent
		case a.replica != b.replica:
			return a.replica < b.replica
		case a.kind != b.kind:
			return a.kind < b.kind
		case a.T != b.T:
			return a.T < b.T
		case a.attempt != b.attempt:
			return a.attempt < b.attempt
		case a.dup != b.dup:
			return b.dup
		}
		if am, bm := a.payload != nil && a.payload.hasMarker, b.payload != nil && b.payload.hasMarker; am != bm {
			return am // one second, two payloads (a killed process's and its successor's own): their attempts are numbered apart
		}
		return a.qid < b.qid
	})
	for _, call := range calls {
		call.conn.clientGone()
		w.finish(call, w1Result{err: err})
		// One connection's end per fake instant: what a failed send sets off in the agent (the second joins
		// the historic queue, a waiting historic sender takes the oldest queued second) must have settled
		// before the next one fails. A replica that stops gracefully can hold dozens of requests; if they
		// all failed in one instant, which sender takes which second would be a goroutine race.
		time.Sleep(3 * time.Microsecond)
	}
}

func (w *w1World) actPartition() {
	a := w.c.Intn(w.cfg.agents, "partition_agent")
	rp := w.c.Intn(3, "partition_replica")
	w.mu.Lock()
	already := w.partition[a][rp]
	w.partition[a][rp] = true
	w.signalNetLocked()
	w.mu.Unlock()
	if already {
		return
	}
	w.r.Sched("partition", fmt.Sprintf("agent%d", a))
	w.r.Fault("partition")
	w.r.Event("sched", "partition agent%d <-> r%d", a, rp+1)
	w.dropCalls(func(call *w1Call) bool { return call.inst.agent == a && call.replica == rp }, rpc.ErrClientConnClosedSideEffect)
}

func (w *w1World) actHeal() {
	w.mu.Lock()
	any := false
	for a := range w.partition {
		for i := range w.partition[a] {
			any = any || w.partition[a][i]
			w.partition[a][i] = false
		}
	}
	w.signalNetLocked()
	w.mu.Unlock()
	if any {
		w.r.Sched("heal", "net")
		w.r.Event("sched", "heal partitions")
	}
}

// actReplica: crash a running replica, or restart one that is down.
func (w *w1World) actReplica() {
	rp := w.c.Intn(3, "crash_replica")
	if w.cfg.spareScenario {
		rp = w.cfg.spareReplica
	}
	rep := w.reps[rp]
	if rep.up {
		down := 0
		for _, x := range w.reps {
			if !x.up {
				down++
			}
		}
		if down >= 2 {
			return
		}
		w.r.Sched("crash", fmt.Sprintf("r%d", rp+1))
		w.r.Fault("replica_crash")
		w.r.Event("sched", "crash aggregator r%d g%d", rp+1, rep.gen)
		w.stopReplica(rep)
		return
	}
	if time.Since(rep.downSince) < time.Second || w.cfg.spareScenario { // scenario: down until faults_stop
		return
	}
	w.restartReplica(rep)
}

// stopReplica drops the aggregator object: its connections die, its ClickHouse fails forever, its
// contexts are cancelled, its ticker and inserters run out.
func (w *w1World) stopReplica(rep *w1Replica) {
	w.mu.Lock()
	rep.up = false
	rep.downSince = time.Now()
	w.signalNetLocked()
	w.mu.Unlock()
	idx := rep.idx
	w.dropCalls(func(call *w1Call) bool { return call.replica == idx }, rpc.ErrClientConnClosedSideEffect)
	rep.agg.cancelInsertsFunc()
	if !rep.insertDisabled { // a gracefully stopping process did it itself
		rep.insertDisabled = true
		rep.agg.DisableNewInsert()
	}
}

// actRemoteWindow changes the aggregators' short window the way production does: the description of the
// metric statshouse_aggregator_remote_config is edited ("--short-window=N", N in 3..5, what
// ConfigAggregatorRemote.Validate accepts) and the journal event reaches the aggregators' metric
// storages, either all at this instant or one now and the others a scheduler step later; goTicker of
// each process picks it up at its next second (updateConfigRemotelyExperimental). Not a fault. Agents
// have no such setting (they work with data_model.MaxShortWindow).
func (w *w1World) actRemoteWindow() {
	v := 3 + w.c.Intn(3, "remote_short_window_value")
	desc := fmt.Sprintf("--short-window=%d", v)
	if desc == w.remoteDesc {
		return
	}
	w.remoteDesc = desc
	w.remoteVersion += 100
	w.r.Sched("remote_config", "journal")
	w.r.Extra["remote_short_window_changes"]++
	w.remotePending = w.remotePending[:0]
	first := -1
	if w.c.Intn(2, "remote_window_scope") == 1 {
		first = w.c.Intn(3, "remote_window_first_replica")
	}
	w.r.Event("sched", "aggregator remote config: %s (first to replica %d, 0 = all at once)", desc, first+1)
	for _, rep := range w.reps {
		if first >= 0 && rep.idx != first {
			w.remotePending = append(w.remotePending, rep.idx)
			continue
		}
		if rep.up {
			w1ApplyRemoteConfig(rep.agg, w.remoteDesc, w.remoteVersion)
		}
	}
}

func (w *w1World) deliverRemoteConfig() {
	for _, idx := range w.remotePending {
		if rep := w.reps[idx]; rep.up {
			w1ApplyRemoteConfig(rep.agg, w.remoteDesc, w.remoteVersion)
		}
	}
	w.remotePending = w.remotePending[:0]
}

// actReplicaGraceful stops an aggregator the way main() of cmd/statshouse-agg does on SIGINT (same
// calls, same order) and lets the scheduler start a new process (empty memory) a few seconds later:
//  1. DisableNewInsert                 (ticker ends, inserters finish what they hold; handlers keep every
//     new request unanswered from here on)
//  2. WaitInsertsFinish(30 s)          (data_model.ClickHouseTimeoutShutdown; agents keep sending)
//  3. ShutdownRPCServer                (no new requests)
//  4. WaitRPCServer(10 s)              (responses already written reach their clients)
//  5. exit                             (connections close: every request still held ends with an error)
//
// Steps 5-6 of main() (mappings cache, journals) have no counterpart here. A shutdown is interesting
// only while an insert is in flight, so the stop is preceded by a scheduling device that is not a fault:
// the next insert of this replica that would simply be stored takes 8-25 s, and SIGINT arrives once
// it is in flight.
func (w *w1World) actReplicaGraceful() {
	if w.aggStops >= 2 {
		return
	}
	for _, x := range w.reps {
		if !x.up {
			return
		}
	}
	rep := w.reps[w.c.Intn(3, "graceful_replica")]
	slow := time.Duration(8+w.c.Intn(18, "graceful_insert_seconds"))*time.Second + 137*time.Millisecond
	w.aggStops++
	w.r.Sched("graceful_stop", fmt.Sprintf("r%d", rep.idx+1))
	w.r.Extra["graceful_aggregator_stops"]++
	w.r.Event("sched", "graceful stop of aggregator r%d g%d: its next insert takes %v, SIGINT once it is in flight", rep.idx+1, rep.gen, slow)
	w.mu.Lock()
	rep.armSlow, rep.slowTaken = slow, false
	w.mu.Unlock()
	step := func(i int) bool { // one scheduler step of the waiting loops; false: the run failed
		verifsim.Wait()
		w.observe()
		if w.r.Failed() {
			return false
		}
		w.applyWorkload()
		w.r.Sched("time", "clock")
		time.Sleep(100*time.Millisecond + time.Millisecond + time.Duration(1+i%89)*time.Microsecond)
		return true
	}
	taken := false
	for i := 0; i < 45 && !taken; i++ {
		if !step(i) {
			return
		}
		w.mu.Lock()
		taken = rep.slowTaken
		w.mu.Unlock()
	}
	if !taken {
		w.mu.Lock()
		rep.armSlow = 0
		w.mu.Unlock()
		w.aggStops--
		w.r.Event("sched", "graceful stop of aggregator r%d called off: no insert came", rep.idx+1)
		return
	}
	agg := rep.agg
	rep.insertDisabled = true
	agg.DisableNewInsert()
	done := make(chan struct{})
	go func() {
		defer w.guard("aggregator WaitInsertsFinish")
		agg.WaitInsertsFinish(data_model.ClickHouseTimeoutShutdown)
		close(done)
	}()
wait:
	for i := 0; ; i++ {
		select {
		case <-done:
			break wait
		default:
		}
		if i > 400 {
			panic("w1 harness: WaitInsertsFinish did not return within its own timeout")
		}
		if !step(i) {
			return
		}
	}
	w.mu.Lock()
	rep.rpcClosed = true
	w.signalNetLocked()
	w.mu.Unlock()
	for i := 0; i < 100 && w.responsesInFlight(rep.idx); i++ {
		if !step(i) {
			return
		}
	}
	verifsim.Wait()
	w.observe()
	if w.r.Failed() {
		return
	}
	w.r.Event("sched", "graceful stop of aggregator r%d g%d done, process exits", rep.idx+1, rep.gen)
	w.stopReplica(rep)
	rep.restartAt = time.Now().Add(time.Duration(1+w.c.Intn(5, "graceful_restart_after_s")) * time.Second)
}

// responsesInFlight: a response this replica wrote has not reached its client yet.
func (w *w1World) responsesInFlight(replica int) bool {
	w.mu.Lock()
	defer w.mu.Unlock()
	for _, inst := range append(append([]*w1Inst(nil), w.insts...), w.raws...) {
		if inst == nil {
			continue
		}
		for call := range inst.calls {
			if call.replica == replica && call.respPending && !call.done {
				return true
			}
		}
	}
	return false
}

func (w *w1World) restartReplica(rep *w1Replica) {
	w.r.Sched("restart", fmt.Sprintf("r%d", rep.idx+1))
	w.or.outage[rep.idx] += time.Since(rep.downSince)
	w.mu.Lock()
	rep.gen++
	w.mu.Unlock()
	agg := w.newAggregator(rep)
	verifsim.Wait()
	w.mu.Lock()
	rep.agg = agg
	rep.up = true
	rep.insertDisabled, rep.rpcClosed, rep.armSlow, rep.slowTaken, rep.restartAt = false, false, 0, false, time.Time{}
	w.signalNetLocked()
	w.mu.Unlock()
	w.r.Event("sched", "restart aggregator r%d as g%d (empty memory)", rep.idx+1, rep.gen)
}

// actAgent: kill an agent and start a new process on the crash image of its disk cache.
func (w *w1World) actAgent() {
	a := w.c.Intn(w.cfg.agents, "crash_agent")
	inst := w.insts[a]
	if inst == nil {
		return
	}
	w.r.Sched("crash", fmt.Sprintf("agent%d", a))
	w.r.Fault("agent_crash")
	// crash image: what is on disk at this quiescent instant (process-kill model)
	img := filepath.Join(w.dir, fmt.Sprintf("agent%d-image", a))
	w1CopyDir(inst.dir, img)
	w.or.agentCrashed(w, inst, img)
	w.r.Event("sched", "crash agent%d g%d", a, inst.gen)
	w.killAgent(inst)
	w.startAgent(a, img)
	w.r.Event("sched", "restart agent%d as g%d on its disk cache", a, w.instGen[a])
}

// actAgentGraceful stops an agent the way main() of cmd/statshouse does on SIGINT (same calls, same
// order) and starts a new process on the same disk cache directory:
//  1. DisableNewSends           (recent conveyor closed: every later second goes to disk + historic queue)
//  2. WaitRecentSenders(10 s)   (data_model.InsertDelay; receivers still open: the workload goes on)
//  3. ShutdownFlusher           (receivers closed), WaitFlusher
//  4. FlushAllData              (everything left in the receive queue, including not-yet-due seconds,
//     through the preprocessor to the disk cache), WaitPreprocessor
//  5. exit                      (whatever is still in flight dies with the process)
//
// Steps 8-9 of main() (mappings cache, journal) have no counterpart here: mappings are empty, metric
// metadata is built in. The shutdown-timings file (shutdown_info.go) is not written.
func (w *w1World) actAgentGraceful() {
	if w.graceful >= 3 {
		return
	}
	a := w.c.Intn(w.cfg.agents, "graceful_agent")
	inst := w.insts[a]
	if inst == nil {
		return
	}
	w.graceful++
	w.r.Sched("graceful_stop", fmt.Sprintf("agent%d", a))
	w.r.Extra["graceful_agent_stops"]++
	w.r.Event("sched", "graceful stop of agent%d g%d begins", a, inst.gen)
	ag := inst.ag
	inst.sendsDisabled = true
	ag.DisableNewSends()
	done := make(chan struct{})
	go func() {
		defer w.guard("agent WaitRecentSenders")
		ag.WaitRecentSenders(time.Second * data_model.InsertDelay)
		close(done)
	}()
wait:
	for i := 0; ; i++ {
		verifsim.Wait()
		w.observe()
		if w.r.Failed() {
			return
		}
		select {
		case <-done:
			break wait
		default:
		}
		if i > 150 {
			panic("w1 harness: WaitRecentSenders did not return within its own timeout")
		}
		w.applyWorkload() // receivers are open until step 3
		w.r.Sched("time", "clock")
		time.Sleep(100*time.Millisecond + time.Millisecond + time.Duration(1+i%89)*time.Microsecond)
	}
	inst.flusherStopped = true
	ag.ShutdownFlusher()
	ag.WaitFlusher()
	inst.preprocStopped = true // FlushAllData closes the preprocessor's queue at its end
	w.r.Extra["graceful_stop_buckets_flushed"] += ag.FlushAllData()
	ag.WaitPreprocessor()
	verifsim.Wait()
	w.observe()
	if w.r.Failed() {
		return
	}
	img := filepath.Join(w.dir, fmt.Sprintf("agent%d-image", a))
	w1CopyDir(inst.dir, img)
	w.or.agentStoppedGracefully(w, inst, img)
	if w.r.Failed() {
		return
	}
	w.r.Event("sched", "graceful stop of agent%d g%d done, process exits", a, inst.gen)
	w.killAgent(inst)
	w.startAgent(a, img)
	w.r.Event("sched", "restart agent%d as g%d on its disk cache", a, w.instGen[a])
}

func (w *w1World) faultsStop() {
	w.r.Sched("faults_stop", "sched")
	w.mu.Lock()
	w.faultsOn = false
	for a := range w.partition {
		for i := range w.partition[a] {
			w.partition[a][i] = false
		}
	}
	close(w.healed)
	w.signalNetLocked()
	w.mu.Unlock()
	for _, rep := range w.reps {
		if !rep.up {
			w.restartReplica(rep)
		}
	}
	w.r.Event("sched", "faults_stop: healed, all replicas up")
}

func (w *w1World) teardown() {
	defer func() { _ = recover() }() // a harness problem while tearing down must not mask the run's result
	verifsim.Wait()
	w.r.SimNanos = int64(time.Since(w.start))
	for _, inst := range w.insts {
		if inst != nil {
			w.killAgent(inst)
		}
	}
	w.stopRaws()
	for _, rep := range w.reps {
		if rep.up {
			w.stopReplica(rep)
		}
	}
	for i := 0; i < 15; i++ {
		w.reapZombies(false)
		time.Sleep(time.Second)
	}
	verifsim.Wait()
	w.reapZombies(true)
	// live checkers tick every second, test-connection loops once a minute (spread over a second one)
	time.Sleep(125 * time.Second)
	verifsim.Wait()
	// the erase goroutine of every agent process: empty queue, one entry so that it sits in its
	// select, then the (otherwise unused) cancellation with the shard mutex pre-locked
	nowUnix := uint32(time.Now().Unix())
	var clean []*w1Inst
	for _, inst := range w.allInsts {
		if int(inst.histExits.Load()) == data_model.MaxHistorySendStreams*len(inst.ag.Shards) {
			clean = append(clean, inst) // only the erase goroutine is left to take an entry
		} else {
			w.r.Probe("harness_zombie_historic_senders_left")
		}
		agent.VerifW1ClearHistoricQueue(inst.ag)
	}
	time.Sleep(250 * time.Millisecond)
	verifsim.Wait()
	for _, inst := range clean {
		agent.VerifW1WakeHistoricSenders(inst.ag, nowUnix, 1)
	}
	verifsim.Wait()
	for _, inst := range clean {
		agent.VerifW1StopEraser(inst.ag)
	}
	verifsim.Wait()
	for _, inst := range w.allInsts {
		agent.VerifW1CloseDisk(inst.ag)
	}
	for _, cl := range w.clients { // nothing of this run stays reachable from what may be left behind
		cl.w, cl.inst = nil, nil
	}
}

func w1CopyDir(from, to string) {
	_ = os.RemoveAll(to)
	err := filepath.Walk(from, func(p string, info os.FileInfo, err error) error {
		if err != nil {
			return err
		}
		rel, _ := filepath.Rel(from, p)
		dst := filepath.Join(to, rel)
		if info.IsDir() {
			return os.MkdirAll(dst, 0755)
		}
		if info.Name() == "run.lock" {
			return nil
		}
		b, err := os.ReadFile(p)
		if err != nil {
			return err
		}
		return os.WriteFile(dst, b, 0644)
	})
	if err != nil {
		panic(fmt.Sprintf("w1 harness: copying disk cache: %v", err))
	}
}

// w1DiskSeconds lists the seconds the agent's own disk-cache reader finds in a directory with a bucket
// that carries a marker row (a copy is read, never the live directory).
func w1DiskSeconds(dir string, scratch string) []uint32 {
	w1CopyDir(dir, scratch)
	defer os.RemoveAll(scratch)
	d, err := agent.MakeDiskBucketStorage(scratch, 1, w1NopLog)
	if err != nil {
		panic(fmt.Sprintf("w1 harness: reading disk cache copy: %v", err))
	}
	defer d.Close()
	// Only buckets that carry a marker row count: with low-resolution rows an agent process can leave a
	// marker-less bucket of a future second on disk, and its successor then builds the second's marker
	// bucket of its own. "Second T is on disk" must mean the bucket the oracles follow.
	var out []uint32
	var scratchPad []byte
	for {
		sec, id := d.ReadNextTailBucket(0)
		if id == 0 {
			break
		}
		data, err := d.GetBucket(0, id, sec, &scratchPad)
		if err != nil {
			panic(fmt.Sprintf("w1 harness: reading bucket %d of the disk cache copy: %v", sec, err))
		}
		if w1FramedBucketHasMarker(data) {
			out = append(out, sec)
		}
	}
	sort.Slice(out, func(i, j int) bool { return out[i] < out[j] })
	return out
}

// w1FramedBucketHasMarker decodes a bucket as the disk cache stores it (the repository's framing,
// decompressor and generated TL reader).
func w1FramedBucketHasMarker(data []byte) bool {
	originalSize, compressed, err := compress.DeFrame(data)
	if err != nil {
		panic(fmt.Sprintf("w1 harness: disk cache bucket does not deframe: %v", err))
	}
	raw, err := compress.Decompress(originalSize, compressed)
	if err != nil {
		panic(fmt.Sprintf("w1 harness: disk cache bucket does not decompress: %v", err))
	}
	var b tlstatshouse.SourceBucket3Bytes
	if _, err := b.ReadTL1Boxed(raw); err != nil {
		panic(fmt.Sprintf("w1 harness: disk cache bucket does not decode: %v", err))
	}
	for i := range b.Metrics {
		if b.Metrics[i].Metric == w1MetricMarker {
			return true
		}
	}
	return false
}
