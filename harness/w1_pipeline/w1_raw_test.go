//go:build verif

package aggregator

// W1, part "raw senders": two simulated old/buggy agents (drawn in a third of the runs) that build
// statshouse.sourceBucket3 payloads by hand from the generated TL types, frame them with the
// repository's compressor as the agent does, and send them as non-spare recent requests over the
// same SimClient transport to the replica that owns the second. They send once and never retry.
//
// What real agents never produce and these do:
//   - min / max / max-counter host arguments that are positive ints, NEGATIVE ints or strings,
//     independently of each other (the protocol carries each as int tag or string tag);
//   - rows whose counter is NaN, negative or above MaxFloat32. The aggregator's validation
//     (format.ValidateCounter, first thing in MultiValue.MergeWithTL2) rejects such a row before
//     anything is aggregated: it contributes nothing. Invalid VALUES are not generated: the counter of
//     such a row is aggregated before the value is looked at, which is not "nothing".
//
//   - string-top elements that carry an int tag and a string at once.
//
// Keys: the shared keys of the real agents (plain and extra layouts, same second) and keys of their
// own, on which the two raw senders meet: in a part of the seconds one sends an invalid row and the
// other a valid row for the same key, the invalid one first, its handler pausing right after the
// rejected row (w1_pause_test.go: until the next second boundary, then a few Gosched) while the
// other's request arrives. Every payload carries a marker row of its sender, so the C03 oracle
// attributes it like any agent bucket; the payload decoder of the oracle drops rejected rows.
// Raw seconds are not subject to C01's liveness clause (nobody retries them); an ack for one still
// requires a stored body with all its valid rows.

import (
	"context"
	"fmt"
	"math"
	"runtime"
	"sort"
	"strconv"
	"time"

	"github.com/VKCOM/tl/pkg/rpc"

	"github.com/VKCOM/statshouse/internal/compress"
	"github.com/VKCOM/statshouse/internal/data_model"
	"github.com/VKCOM/statshouse/internal/data_model/gen2/tlstatshouse"
	"github.com/VKCOM/statshouse/internal/format"
)

const (
	w1SaltRaw = 7100 + iota
	w1SaltRawRow
	w1SaltRawHost
	w1SaltRawBad
	w1SaltRawDelay
)

func (w *w1World) startRaws() {
	for i := 0; i < 3; i++ { // the third one only sends window-edge historic seconds (rawEdge)
		inst := &w1Inst{agent: w.cfg.agents + i, gen: 1, raw: true, host: fmt.Sprintf("w1-raw-%d", i), calls: map[*w1Call]struct{}{}}
		w.raws = append(w.raws, inst)
	}
}

// stopRaws: the raw senders go away; their outstanding calls end as a closed client's would.
func (w *w1World) stopRaws() {
	for _, inst := range w.raws {
		inst.dead.Store(true)
		w.mu.Lock()
		var calls []*w1Call
		for call := range inst.calls {
			calls = append(calls, call)
		}
		w.mu.Unlock()
		sort.Slice(calls, func(i, j int) bool { return calls[i].qid < calls[j].qid })
		for _, call := range calls {
			call.conn.clientGone()
			w.finish(call, w1Result{err: rpc.ErrClientClosed})
		}
	}
}

// rawHost: one host argument drawn from {not set, positive int, negative int, string}.
func (w *w1World) rawHost(x uint64) (i int32, s string) {
	switch x % 4 {
	case 1:
		return int32(4000 + (x>>2)%5), ""
	case 2:
		return -int32(1 + (x>>2)%5), "" // -1 is what an agent puts in a tag when its mapping budget is exhausted
	case 3:
		return 0, "rawhost-" + strconv.Itoa(int((x>>2)%3))
	}
	return 0, ""
}

func w1RawSetHosts(v *tlstatshouse.MultiValue, fm *uint32, which int, i int32, s string) {
	switch {
	case i != 0 && which == 0:
		v.SetMaxHostTag(i, fm)
	case i != 0 && which == 1:
		v.SetMinHostTag(i, fm)
	case i != 0:
		v.SetMaxCounterHostTag(i, fm)
	case s != "" && which == 0:
		v.SetMaxHostStag(s, fm)
	case s != "" && which == 1:
		v.SetMinHostStag(s, fm)
	case s != "":
		v.SetMaxCounterHostStag(s, fm)
	}
}

// rawBucket builds the payload raw sender ri sends for second T (nil: it stays silent).
func (w *w1World) rawBucket(ri int, T uint32) *tlstatshouse.SourceBucket3 {
	k := func(n uint64, salt uint64, parts ...uint64) uint64 {
		return w.c.Keyed(n, append([]uint64{salt, uint64(T)}, parts...)...)
	}
	if k(3, w1SaltRaw, uint64(ri)) == 0 {
		return nil
	}
	var sb tlstatshouse.SourceBucket3
	row := func(metric int32, tags [5]string) *tlstatshouse.MultiItem {
		key := data_model.Key{Timestamp: T, Metric: metric}
		for i, v := range tags {
			switch {
			case v == "":
			case i == 1 || i == 4:
				n, _ := strconv.Atoi(v)
				key.Tags[i] = int32(n)
			default:
				key.STags[i] = v
			}
		}
		sb.Metrics = append(sb.Metrics, key.TLMultiItemFromKey(T))
		return &sb.Metrics[len(sb.Metrics)-1]
	}
	counter := func(it *tlstatshouse.MultiItem, salt uint64) {
		it.Tail.SetCounter(float64(1+k(5, w1SaltRawRow, salt, uint64(ri))), &it.FieldsMask)
		i, s := w.rawHost(k(64, w1SaltRawHost, salt, uint64(ri), 2))
		w1RawSetHosts(&it.Tail, &it.FieldsMask, 0, i, s) // a counter row names its host in the max-host field
	}
	bad := func(it *tlstatshouse.MultiItem, salt uint64) {
		c := [...]float64{math.NaN(), -3, 1e39}[k(3, w1SaltRawBad, salt, uint64(ri))]
		it.Tail.SetCounter(c, &it.FieldsMask)
	}
	value := func(it *tlstatshouse.MultiItem, salt uint64) {
		n := 1 + k(3, w1SaltRawRow, salt, uint64(ri))
		var min, max, sum, sumsq float64
		for j := uint64(0); j < n; j++ {
			x := float64(k(100, w1SaltRawRow, salt, uint64(ri), 10+j))
			if j == 0 || x < min {
				min = x
			}
			if j == 0 || x > max {
				max = x
			}
			sum += x
			sumsq += x * x
		}
		v, fm := &it.Tail, &it.FieldsMask
		v.SetCounter(float64(n), fm)
		v.SetValueSet(true, fm)
		v.SetValueMin(min, fm)
		v.SetValueMax(max, fm)
		v.SetValueSum(sum, fm)
		v.SetValueSumSquare(sumsq, fm)
		for which := 0; which < 3; which++ {
			i, s := w.rawHost(k(64, w1SaltRawHost, salt, uint64(ri), uint64(which)))
			w1RawSetHosts(v, fm, which, i, s)
		}
	}
	// marker of this sender's second
	m := row(w1MetricMarker, [5]string{1: strconv.Itoa(w.cfg.agents + ri + 1)})
	m.Tail.SetCounterEq1(true, &m.FieldsMask)
	// own counter keys, on which the two raw senders meet: mode 1: sender 0 invalid, sender 1 valid;
	// mode 2: the other way round; mode 3: both valid; mode 0: nobody
	for j := 0; j < 3; j++ {
		mode := k(4, w1SaltRaw, 100+uint64(j))
		if mode == 0 {
			continue
		}
		it := row(w1MetricCnt, [5]string{1: strconv.Itoa(900 + j)})
		if (mode == 1 && ri == 0) || (mode == 2 && ri == 1) {
			bad(it, 100+uint64(j))
		} else {
			counter(it, 100+uint64(j))
		}
	}
	// own value keys with host arguments of every kind
	for j := 0; j < 2; j++ {
		if k(2, w1SaltRaw, 200+uint64(j), uint64(ri)) == 1 {
			value(row(w1MetricVal, [5]string{1: strconv.Itoa(950 + j)}), 200+uint64(j))
		}
	}
	// an own key with string-top elements (no tail): element 77 as int tag only or as int tag AND string (the
	// wire format allows both at once; TagUnion.Normalize: the int wins), and a string-only element
	if k(2, w1SaltRaw, 400, uint64(ri)) == 1 {
		it := row(w1MetricCnt, [5]string{1: "980"})
		var top []tlstatshouse.TopElement
		el := tlstatshouse.TopElement{}
		el.SetTag(77)
		if k(2, w1SaltRaw, 401, uint64(ri)) == 1 {
			el.Stag = "seventy-seven"
		}
		el.Value.SetCounter(float64(1+k(5, w1SaltRawRow, 401, uint64(ri))), &el.FieldsMask)
		top = append(top, el)
		if k(2, w1SaltRaw, 402, uint64(ri)) == 1 {
			el := tlstatshouse.TopElement{Stag: "top-string"}
			el.Value.SetCounter(float64(1+k(5, w1SaltRawRow, 402, uint64(ri))), &el.FieldsMask)
			top = append(top, el)
		}
		it.SetTop(top)
	}
	// shared keys of the real agents
	if k(2, w1SaltRaw, 300, uint64(ri)) == 1 {
		l := w.cfg.layouts[k(uint64(len(w.cfg.layouts)), w1SaltRaw, 301, uint64(ri))]
		it := row(w1MetricCnt, l.vals)
		if k(3, w1SaltRaw, 302, uint64(ri)) == 0 {
			bad(it, 300)
		} else {
			counter(it, 300)
		}
	}
	if w.cfg.keys > 1 && k(2, w1SaltRaw, 310, uint64(ri)) == 1 {
		l := w.cfg.layouts[k(uint64(len(w.cfg.layouts)), w1SaltRaw, 311, uint64(ri))]
		value(row(w1MetricVal, l.vals), 310)
	}
	return &sb
}

func w1RawHasRejected(sb *tlstatshouse.SourceBucket3) bool {
	for i := range sb.Metrics {
		if c := sb.Metrics[i].Tail.Counter; w1CounterRejected(c) {
			return true
		}
	}
	return false
}

// rawWorkload: once per second the raw senders send the second that just ended.
func (w *w1World) rawWorkload(nowUnix uint32) {
	if !w.cfg.rawSender || w.lastRaw >= nowUnix {
		return
	}
	w.lastRaw = nowUnix
	w.rawEdge(nowUnix)
	T := nowUnix - 1
	var sbs [2]*tlstatshouse.SourceBucket3
	first := 0
	for ri := range sbs {
		sbs[ri] = w.rawBucket(ri, T)
	}
	if sbs[1] != nil && w1RawHasRejected(sbs[1]) && (sbs[0] == nil || !w1RawHasRejected(sbs[0])) {
		first = 1 // the sender with a rejected row goes first: the other's request arrives during its pause
	}
	for n := 0; n < 2; n++ {
		ri := (first + n) % 2
		if sbs[ri] == nil {
			continue
		}
		delay := time.Duration(2*(1+w.c.Keyed(200000, w1SaltRawDelay, uint64(T), uint64(ri)))) + time.Duration(n)*3*time.Millisecond
		w.rawSend(w.raws[ri], T, sbs[ri], delay)
		w.r.Extra["raw_requests_sent"]++
	}
}

// rawEdge: the third raw sender sends, as a historic request, the oldest second the owning replica still
// accepts: oldest recent second minus the historic window (an agent that comes back after almost a
// whole window of downtime sends such seconds first). The replica files it in a historic bucket; at its
// next insert round, at most a second later, the bucket has left the window and is answered with the
// deliberate "before historic window" discard. If nothing else waits, that round inserts no historic
// bucket at all.
func (w *w1World) rawEdge(nowUnix uint32) {
	if w.c.Keyed(3, w1SaltRaw, uint64(nowUnix), 500) != 0 {
		return
	}
	// oldest recent second of the owning replica = now - its short window (which its remote configuration
	// may have changed); the owner of second T is replica T%3
	var T uint32
	for _, rep := range w.reps {
		if t := nowUnix - uint32(w1ShortWindow(rep.agg)) - uint32(w.cfg.window); int(t%3) == rep.idx {
			T = t
			break
		}
	}
	if T == 0 {
		return
	}
	var sb tlstatshouse.SourceBucket3
	key := data_model.Key{Timestamp: T, Metric: w1MetricMarker}
	key.Tags[1] = int32(w.cfg.agents + 2 + 1)
	sb.Metrics = append(sb.Metrics, key.TLMultiItemFromKey(T))
	sb.Metrics[0].Tail.SetCounterEq1(true, &sb.Metrics[0].FieldsMask)
	delay := time.Duration(2 * (1 + w.c.Keyed(200000, w1SaltRawDelay, uint64(T), 2)))
	w.rawSendKind(w.raws[2], T, &sb, delay, true)
	w.r.Extra["raw_window_edge_historic_requests_sent"]++
}

func (w *w1World) rawSend(inst *w1Inst, T uint32, sb *tlstatshouse.SourceBucket3, delay time.Duration) {
	w.rawSendKind(inst, T, sb, delay, false)
}

func (w *w1World) rawSendKind(inst *w1Inst, T uint32, sb *tlstatshouse.SourceBucket3, delay time.Duration, historic bool) {
	replica := int(T % 3) // what every agent does for a second whose owner it believes alive
	framed := compress.CompressAndFrame(sb.WriteTL1Boxed(nil))
	originalSize, compressed, err := compress.DeFrame(framed)
	if err != nil {
		panic(err)
	}
	args := tlstatshouse.SendSourceBucket3{Time: T, OriginalSize: originalSize, CompressedData: string(compressed)}
	args.SetHistoric(historic)
	args.Header = tlstatshouse.CommonProxyHeader{ShardReplica: int32(replica), ShardReplicaTotal: 3, HostName: inst.host,
		ComponentTag: format.TagValueIDComponentAgent, BuildArch: format.GetBuildArchKey(runtime.GOARCH)}
	client := tlstatshouse.Client{Client: &w1Client{w: w, inst: inst, replica: replica}, Network: "tcp4", Address: w1ConfigResult().Addresses[replica]}
	go func() {
		defer w.guard("raw sender")
		time.Sleep(delay)
		ctx, cancel := context.WithTimeout(context.Background(), time.Second*data_model.MaxConveyorDelay)
		defer cancel()
		extra := rpc.InvokeReqExtra{FailIfNoConnection: true}
		var resp tlstatshouse.SendSourceBucket3Response
		_ = client.SendSourceBucket3(ctx, args, &extra, &resp) // sends once, whatever the outcome
	}()
}

// w1CounterRejected: the aggregator's rule for a row's counter (format.ValidateCounter): NaN, negative
// and above MaxFloat32 are rejected, and a rejected row contributes nothing at all.
func w1CounterRejected(c float64) bool {
	return math.IsNaN(c) || c < 0 || c > math.MaxFloat32
}
